"""C28 — in-place changes to Json and array attribute values are persisted; reads never mark the object modified.

Runtime monitor: every generated mutation is applied, with the *same* driver code, to the real tracked value
(pony.orm.ormtypes.TrackedDict/TrackedList/TrackedArray reached through a live entity object) and to a plain Python
deep copy held in a SimpleNamespace.  Monitors:

  M1 in-session   tracked value == plain copy after every step; same exception class; same return value
  M2 persistence  after every commit() / session exit a *raw* sqlite3 connection reads the row: decoded columns == plain
  M3 fresh read   the next db_session (and one extra at the end of the case) reads attribute values == plain
  M4 reads        a read step leaves (_status_, _wbits_) unchanged; a read-only session ends with _status_ == 'loaded'
                  and the DB-API recorder saw no INSERT/UPDATE/DELETE for it; a bystander object is never touched
  M6 loading      data2, ia2 and fa are declared lazy=True; every session gets each object through one of the loading
                  paths Entity[pk], get(), select, select + prefetch, select of (object, lazy attributes), obj.load(),
                  obj.load(attrs), get_by_sql, to-one navigation from a Holder row (pk-only seed object; via [], via
                  select, via select(h.doc)), and `refetch` steps get them again inside the session (before/after
                  commit). The values reached that way are then changed in place like any other.
  M5 aliasing     every case works on TWO entity objects a and b (12 slots: data, data2, ia, ia2, sa, fa on each).
                  Copy steps store a value READ from one slot in another slot: `b.data = a.data`, `b.ia = a.ia`,
                  `a.data2 = a.data['k']`, `b.data['x'] = a.data['y']`, `.append(a.ia)`, `.update(a.data)`, ... and
                  later steps change it in place through the destination and through the source, over flushes,
                  commits and sessions.  The reference takes an independent deep copy at the moment of the
                  assignment (a persisted attribute holds a value, not a reference).  M1-M3 run over all 12 slots,
                  and a mutation of one object must leave the other object's (_status_, _wbits_) untouched.

Known-finding discipline: a persistence mismatch is re-judged with a small *deviation model* of which mutations Pony
does not notice (per attribute `dirty` bit: alias-form `x op= v`, or a change made through a container that Pony
left unwrapped).  It is classified only if (a) the raw DB value equals the deviation model's prediction exactly for
every affected attribute, (b) an alias-shaped last unnoticed mutation is explained only by the alias rule, and (c)
re-running the very same case with the smallest set of listed shapes rewritten into their equivalent tracked spelling
(alias `x op= v` -> parent form `p.a[k] op= v`; tuple/iterator argument -> list; top-level `p.a += v` / `p.a |= v`
-> `p.a.extend(v)` / `p.a.update(v)`) makes the mismatch at that commit point disappear.  Everything else is a
VIOLATION.  If Pony gains __iadd__/__imul__/__ior__ and wraps iterable arguments the check is silent (verified on a
scratch copy).
"""
import copy, itertools, json, operator, sqlite3, types

META = {
    'level': 'exploration',
    'engine': 'E3',
    'technique': 'runtime differential monitor: tracked Json/array value vs plain deep copy under generated mutation '
                 'sequences; raw-connection commit observer; DB-API recorder for read-only sessions',
    'level_text': 'Exploration: the real TrackedDict/TrackedList/TrackedArray, Entity._attr_changed_, flush and the '
                  'SQLite Json/array converters run on a bounded op x form x depth x start-state matrix (complete '
                  'every run) plus seeded random multi-session mutation histories; nothing is proved beyond what ran.',
    'level_note': 'Trusted base: CPython list/dict semantics on the plain copy, json.loads on the raw column text, '
                  'the sqlite3 module. Aliases are taken from the attribute immediately before use (an alias held '
                  'across a re-assignment of its parent slot is outside the model). Values copied between objects '
                  'and attributes are in the model: the reference deep-copies at assignment time.',
    'rule': 'A case = two entity objects a, b with initial Json documents (dict/list nesting depth 0..3) and '
            'Int/Str/FloatArray values in 6 attributes each; copy steps assign/insert a value read from one '
            '(object, attribute) into another or the same one (whole value and nested sub-value); start state '
            '(loaded | created in the same session), 1..3 sessions of steps: mutation (item/slice assign+delete, '
            'append/extend/insert/pop/remove/sort/reverse/clear, update/setdefault/pop/popitem/clear, += *= |= in '
            'direct, parent and alias form, on a container at depth 0..3, incl. operations that raise), whole-value '
            'assignment, read, flush, commit. Fingerprint = start state + per step (kind, slot, depth, form, op, '
            'argument kind, copy class cross_object|cross_attr|same_slot, outcome class); a case is non-trivial if at least one mutation succeeded or it is a '
            'read-only case with at least one read.',
    'assumptions': [
        'SQLite only (arrays and Json are stored as JSON text there); PostgreSQL native json/array storage not run',
        'values are JSON-representable (no NaN/inf, no tuples as stored values, str keys)',
        'list.sort() calls that would leave a partially reordered list after raising are not generated',
        'equality is Python == (True == 1, 1 == 1.0); type-only differences are counted, not flagged',
        'an alias is taken from the attribute right before it is used; stale aliases are out of scope',
        'lazy attributes are first read at session start (before any pending change exists): a lazy load in the middle '
        'of a session is a query and would flush at a moment the deviation model does not observe; queries issued by '
        'refetch steps happen between steps and their flush is observed from the object statuses',
        'top-level `b.data |= a.data[k]` / `b.data += a.data[k]` with a value read from another slot is not generated '
        '(open finding C28-TOPLEVEL-AUGASSIGN-NESTED-UNWRAPPED: the other slot\'s nested tracked containers get shared); '
        'a value inserted through a container Pony left unwrapped is passed as a detached copy',
        'documents are trees: `*= n` with n >= 2 is not generated on lists that hold containers (it would create '
        'shared sub-objects, which JSON cannot represent) and arguments never share sub-objects',
        'a TypeError from array item validation (also for slice assignment on arrays, which Pony rejects) is loud: '
        'the value must then be unchanged; it is counted, not flagged',
    ],
    'shims': [],
    'exhaustive_tiers': [],
}
SHARDS = {'quick': 1, 'thorough': 16}
SHARD_TIMEOUT = {'quick': 300, 'thorough': 1500}

F_ALIAS = 'C28-ALIAS-AUGASSIGN-UNTRACKED'
F_ITER = 'C28-ITERABLE-ARG-NESTED-UNWRAPPED'
F_TOP = 'C28-TOPLEVEL-AUGASSIGN-NESTED-UNWRAPPED'

BASE_ATTRS = ('data', 'data2', 'ia', 'ia2', 'sa', 'fa')
# A case works on two entity objects a and b of the same entity.  A *slot* names (object, attribute): 'ia' is a.ia,
# 'b_ia' is b.ia.  Values read from one slot are assigned to / inserted into other slots (cross-object and
# cross-attribute copies); the reference takes an independent deep copy at that moment.
ATTRS = BASE_ATTRS + tuple('b_' + x for x in BASE_ATTRS)
LOAD_PATHS = ('getitem', 'getitem', 'get', 'select', 'select_prefetch', 'select_tuple', 'load', 'load_attrs', 'by_sql',
              'nav', 'nav_select', 'nav_attr')


def base(slot):
    return slot[2:] if slot.startswith('b_') else slot


def kind_of(slot):
    """'data' for Json slots, else the array kind 'ia' | 'sa' | 'fa'."""
    b = base(slot)
    return {'data2': 'data', 'ia2': 'ia'}.get(b, b)


def is_json(slot):
    return kind_of(slot) == 'data'
AUG = {'iadd': operator.iadd, 'imul': operator.imul, 'ior': operator.ior}

SCALARS = [None, True, False, 0, 1, -1, 2, 7, 2 ** 53 + 1, -10 ** 18, 10 ** 25, 1.5, -2.25, 1e100, 0.1,
           '', 'a', 'b', 'é中', 'x y', '"', "it's", 'null']
KEYS = ['a', 'b', 'c', '', '1', 'k 1', 'é', 'a.b', '$', '"q"']
ITEMS = {
    'ia': [0, 1, -1, 2, 3, 7, 2 ** 31, -2 ** 63, 2 ** 63 - 1, 10 ** 20],
    'sa': ['', 'a', 'b', 'é', 'x y', '"q"', "it's", 'NULL', '[1]'],
    'fa': [0.0, 1.5, -2.25, 1e100, 3.0, 1e-7, 2, -1],
}
BAD_ITEMS = {'ia': ['x', None, 1.5], 'sa': [1, None, 2.5], 'fa': ['x', None]}


# ----------------------------------------------------------------------------------------------------------------
# value helpers

def canon(v):
    """Type-strict canonical text (distinguishes True/1/1.0), key order ignored."""
    return json.dumps(v, sort_keys=True, ensure_ascii=True)


def gen_scalar(rng):
    return rng.choice(SCALARS)


def gen_value(rng, depth):
    """A JSON value whose container nesting is at most `depth` (depth 0 => scalar)."""
    if depth <= 0 or rng.random() < 0.3:
        return gen_scalar(rng)
    return gen_container(rng, depth)


def gen_container(rng, depth, kind=None):
    """A dict or list with containers nested at most depth-1 levels below it."""
    kind = kind or rng.choice(('list', 'dict'))
    n = rng.choice((0, 1, 2, 2, 3, 4))
    if kind == 'list':
        return [gen_value(rng, depth - 1) for _ in range(n)]
    return {k: gen_value(rng, depth - 1) for k in rng.sample(KEYS, n)}


def gen_homog_list(rng):
    pool = rng.choice(([3, 1, 2, 2, -5, 10 ** 20], ['b', 'a', '', 'é', 'a'], [1.5, -2.25, 0.0, 3]))
    return [rng.choice(pool) for _ in range(rng.choice((0, 1, 2, 3, 4)))]


def gen_array(rng, attr, bad=False):
    n = rng.choice((0, 1, 2, 3, 4))
    items = [rng.choice(ITEMS[kind_of(attr)]) for _ in range(n)]
    if bad:
        items.insert(rng.randrange(len(items) + 1), rng.choice(BAD_ITEMS[kind_of(attr)]))
    return items


def containers(v, path=()):
    if isinstance(v, (list, dict)):
        yield path, v
        it = enumerate(v) if isinstance(v, list) else v.items()
        for k, x in it:
            for r in containers(x, path + (k,)): yield r


def enc_key(k):
    return {'slice': [k.start, k.stop, k.step]} if isinstance(k, slice) else k


def dec_key(k):
    return slice(*k['slice']) if isinstance(k, dict) else k


def tree_copy(x):
    """Copy of a JSON value without any shared sub-objects (copy.deepcopy would preserve sharing inside x)."""
    return json.loads(json.dumps(x))


def materialize(x, kind):
    x = tree_copy(x)
    if kind == 'tuple': return tuple(x)
    if kind == 'iter': return iter(x)
    if kind == 'pairs': return [tuple(p) for p in x]
    if kind == 'pairs_iter': return iter([tuple(p) for p in x])
    return x


def resolve(holder, attr, path):
    v = getattr(holder, attr)
    for k in path: v = v[k]
    return v


class _Live(object):
    """A value taken from a slot of the same holder, handed on as it is (on the Pony side: the tracked object)."""
    def __init__(self, v): self.v = v


def deref(holder, x):
    """{'$ref': [slot, path]} -> the value currently at that place.  Pony side: the live TrackedDict/TrackedList/
    TrackedArray itself (that is what `b.data = a.data` passes).  Reference side: an independent deep copy taken now,
    because a persisted attribute holds a value, not a reference to another attribute's value."""
    if isinstance(x, dict) and '$ref' in x:
        slot, path = x['$ref']
        v = resolve(holder, slot, path)
        if isinstance(holder, types.SimpleNamespace): v = tree_copy(v)
        return _Live(v)
    return x


def mat(holder, x, kind):
    x = deref(holder, x)
    if isinstance(x, _Live):
        v = x.v
        if getattr(holder, '_detach', False):
            # the receiving container is one that Pony left unwrapped (only the listed findings produce those): a plain
            # list/dict would store the other slot's live tracked object itself. That region is already judged as
            # "unnoticed" by the deviation model; a detached copy keeps the rest of the case judgeable.
            # (get_untracked() returns unwrapped sub-containers as they are, hence the extra deepcopy)
            v = copy.deepcopy(v.get_untracked() if hasattr(v, 'get_untracked') else v)
        return v
    return materialize(x, kind)


# ----------------------------------------------------------------------------------------------------------------
# the one driver that is applied to both the entity object and the plain namespace

def exec_mut(holder, st):
    attr, path, op, form = st['attr'], st['path'], st['op'], st.get('form', 'direct')
    a = st.get('args', [])
    kind = st.get('argkind')
    if op in AUG:
        fn = AUG[op]
        arg = mat(holder, a[0], kind)
        if form == 'alias':                       # x = p.data[..]; x op= arg
            x = resolve(holder, attr, path)
            x = fn(x, arg)
            return None
        if not path:                              # p.data op= arg
            setattr(holder, attr, fn(getattr(holder, attr), arg))
        else:                                     # p.data[..][k] op= arg
            parent = resolve(holder, attr, path[:-1])
            k = path[-1]
            parent[k] = fn(parent[k], arg)
        return None
    target = resolve(holder, attr, path)
    if op == 'setitem':
        target[dec_key(a[0])] = mat(holder, a[1], kind)
        return None
    if op == 'delitem':
        del target[dec_key(a[0])]
        return None
    if op == 'sort':
        kw = dict(st.get('kw', {}))
        if kw.get('key') == 'canon': kw['key'] = canon
        return target.sort(**kw)
    if op == 'update':
        args = [mat(holder, x, kind) for x in a]
        return target.update(*args, **tree_copy(st.get('kw', {})))
    if op == 'extend':
        return target.extend(mat(holder, a[0], kind))
    return getattr(target, op)(*[mat(holder, x, None) for x in a])


def receiving_container(holder, st):
    """The container whose (tracked) method performs the change, None if it is the entity object itself."""
    path, op, form = st['path'], st['op'], st.get('form', 'direct')
    if op in AUG and form == 'parent':
        if not path: return None
        return resolve(holder, st['attr'], path[:-1])
    return resolve(holder, st['attr'], path)


def exec_read(holder, st, is_tracked):
    """Read-only operations; returns a jsonable summary of what was read."""
    attr, path, op = st['attr'], st['path'], st['op']
    a = tree_copy(st.get('args', []))
    t = resolve(holder, attr, path)
    if op == 'getitem': return t[dec_key(a[0])]
    if op == 'iter': return list(iter(t))
    if op == 'reversed': return list(reversed(t)) if isinstance(t, list) else list(reversed(list(t)))
    if op == 'len': return len(t)
    if op == 'in': return a[0] in t
    if op == 'get': return t.get(*a)
    if op == 'copy':
        c = t.copy()
        return [type(c).__name__ in ('list', 'dict'), c]
    if op == 'keys': return list(t.keys())
    if op == 'values': return list(t.values())
    if op == 'items': return [list(kv) for kv in t.items()]
    if op == 'count': return t.count(a[0])
    if op == 'index': return t.index(a[0])
    if op == 'eq': return t == a[0]
    if op == 'ne': return t != a[0]
    if op == 'bool': return bool(t)
    if op == 'repr': return repr(t)
    if op == 'sorted': return sorted(t, key=canon)
    if op == 'deepcopy': return copy.deepcopy(t)
    if op == 'concat': return t + a[0] if isinstance(t, list) else (t | a[0])
    if op == 'mul': return t * 2
    if op == 'untracked':
        u = t.get_untracked() if is_tracked and hasattr(t, 'get_untracked') else copy.deepcopy(t)
        return u
    if op == 'dumps':
        u = t.get_untracked() if is_tracked and hasattr(t, 'get_untracked') else t
        return json.loads(json.dumps(u))
    if op == 'attr': return getattr(holder, attr)
    raise AssertionError(op)


LIST_READS = ['getitem', 'iter', 'reversed', 'len', 'in', 'copy', 'count', 'index', 'eq', 'ne', 'bool', 'repr',
              'sorted', 'deepcopy', 'concat', 'mul', 'untracked', 'dumps', 'attr']
DICT_READS = ['getitem', 'iter', 'len', 'in', 'get', 'copy', 'keys', 'values', 'items', 'eq', 'ne', 'bool', 'repr',
              'deepcopy', 'concat', 'untracked', 'dumps', 'attr']


# ----------------------------------------------------------------------------------------------------------------
# step generation (depends on the current plain state so that most operations are applicable)

def pick_index(rng, n, wild):
    if wild or n == 0: return rng.choice((n, n + 2, -n - 1, -n - 3))
    return rng.randrange(-n, n)


def pick_slice(rng, n):
    c = [None, 0, 1, 2, -1, -2, n, n + 1]
    s = slice(rng.choice(c), rng.choice(c), rng.choice((None, None, None, 1, 2, -1)))
    return s


def gen_item(rng, attr, depth_left, bad=False):
    if is_json(attr): return gen_value(rng, depth_left)
    return rng.choice(BAD_ITEMS[kind_of(attr)] if bad else ITEMS[kind_of(attr)])


def gen_items(rng, attr, depth_left, bad=False):
    if is_json(attr):
        return [gen_value(rng, depth_left) for _ in range(rng.choice((0, 1, 1, 2, 3)))]
    return gen_array(rng, attr, bad)


LIST_OPS = ['setitem', 'setslice', 'delitem', 'delslice', 'append', 'extend', 'insert', 'pop', 'popi', 'remove',
            'sort', 'reverse', 'clear', 'iadd', 'imul']
DICT_OPS = ['setitem', 'delitem', 'update', 'update_pairs', 'update_kw', 'setdefault', 'setdefault1', 'pop', 'popd',
            'popitem', 'clear', 'ior']


def pick_slot(rng):
    b = rng.choice(('data', 'data', 'data', 'data2', 'ia', 'ia2', 'sa', 'fa'))
    return ('b_' + b) if rng.random() < 0.4 else b


def gen_mut(rng, plain, attr=None, opname=None, form=None, path=None, wild=None, argkind=None):
    """One mutation step applicable (mostly) to the current plain state."""
    attr = attr or pick_slot(rng)
    root = getattr(plain, attr)
    if path is None:
        cs = list(containers(root))
        path, target = max(rng.sample(cs, min(2, len(cs))), key=lambda c: len(c[0]))   # favour deeper containers
    else:
        target = resolve(plain, attr, path)
    path = list(path)
    depth_left = max(0, 3 - len(path) - 1) if is_json(attr) else 0
    if wild is None: wild = rng.random() < 0.12
    bad = not is_json(attr) and rng.random() < 0.08
    is_list = isinstance(target, list)
    opname = opname or rng.choice(LIST_OPS if is_list else DICT_OPS)
    st = {'k': 'mut', 'attr': attr, 'path': path, 'form': 'direct'}
    n = len(target)
    itk = argkind or rng.choice(('list', 'list', 'list', 'tuple', 'iter'))
    if is_list:
        if opname == 'setitem':
            st.update(op='setitem', args=[pick_index(rng, n, wild), gen_item(rng, attr, depth_left, bad)])
        elif opname == 'setslice':
            s = pick_slice(rng, n)
            items = gen_items(rng, attr, depth_left, bad)
            if s.step not in (None, 1) and not wild:        # extended slice needs the exact length
                ln = len(range(*s.indices(n)))
                items = (items * (ln + 1))[:ln] if items else [gen_item(rng, attr, depth_left) for _ in range(ln)]
            st.update(op='setitem', args=[enc_key(s), items], argkind=itk)
        elif opname == 'delitem':
            st.update(op='delitem', args=[pick_index(rng, n, wild)])
        elif opname == 'delslice':
            st.update(op='delitem', args=[enc_key(pick_slice(rng, n))])
        elif opname == 'append':
            st.update(op='append', args=[gen_item(rng, attr, depth_left, bad)])
        elif opname == 'extend':
            st.update(op='extend', args=[gen_items(rng, attr, depth_left, bad)], argkind=itk)
        elif opname == 'insert':
            st.update(op='insert', args=[rng.choice((0, 1, -1, n, n + 3, -n - 2)), gen_item(rng, attr, depth_left, bad)])
        elif opname == 'pop':
            st.update(op='pop', args=[])
        elif opname == 'popi':
            st.update(op='pop', args=[pick_index(rng, n, wild)])
        elif opname == 'remove':
            v = gen_item(rng, attr, 0) if (wild or not n) else copy.deepcopy(rng.choice(target))
            st.update(op='remove', args=[v])
        elif opname == 'sort':
            kw = rng.choice(({}, {'reverse': True}, {'key': 'canon'}, {'key': 'canon', 'reverse': True}))
            t2 = copy.deepcopy(target)
            try: t2.sort(**({k: (canon if v == 'canon' else v) for k, v in kw.items()}))
            except Exception:
                if t2 != target: kw = {'key': 'canon'}      # a failing sort may leave a partial order: not generated
            st.update(op='sort', args=[], kw=kw)
        elif opname == 'reverse':
            st.update(op='reverse', args=[])
        elif opname == 'clear':
            st.update(op='clear', args=[])
        elif opname == 'iadd':
            st.update(op='iadd', args=[gen_items(rng, attr, depth_left, bad)],
                      argkind=argkind or rng.choice(('list', 'list', 'tuple')),
                      form=form or rng.choice(('parent', 'parent', 'alias')))
        elif opname == 'imul':
            # n >= 2 on a list that holds containers would create *shared* sub-containers (not a JSON tree): not generated
            shared = any(isinstance(x, (list, dict)) for x in target)
            st.update(op='imul', args=[rng.choice((0, 1, -1) if shared else (0, 1, 2, 2, 3, -1))],
                      form=form or rng.choice(('parent', 'parent', 'alias')))
        else: raise AssertionError(opname)
    else:
        keys = list(target.keys())
        def a_key(existing=None):
            if existing is None: existing = rng.random() < 0.5
            if keys and existing and not wild: return rng.choice(keys)
            return rng.choice(KEYS)
        def a_dict():
            return {k: gen_value(rng, depth_left) for k in rng.sample(KEYS, rng.choice((0, 1, 2, 3)))}
        if opname == 'setitem':
            st.update(op='setitem', args=[a_key(), gen_value(rng, depth_left)])
        elif opname == 'delitem':
            st.update(op='delitem', args=[a_key(True)])
        elif opname == 'update':
            st.update(op='update', args=[a_dict()])
        elif opname == 'update_pairs':
            st.update(op='update', args=[[[k, v] for k, v in a_dict().items()]],
                      argkind=rng.choice(('pairs', 'pairs_iter')))
        elif opname == 'update_kw':
            st.update(op='update', args=[a_dict()] if rng.random() < 0.3 else [], kw=a_dict())
        elif opname == 'setdefault':
            st.update(op='setdefault', args=[a_key(), gen_value(rng, depth_left)])
        elif opname == 'setdefault1':
            st.update(op='setdefault', args=[a_key()])
        elif opname == 'pop':
            st.update(op='pop', args=[a_key(True)])
        elif opname == 'popd':
            st.update(op='pop', args=[a_key(), gen_value(rng, depth_left)])
        elif opname == 'popitem':
            st.update(op='popitem', args=[])
        elif opname == 'clear':
            st.update(op='clear', args=[])
        elif opname == 'ior':
            if rng.random() < 0.25:
                st.update(op='ior', args=[[[k, v] for k, v in a_dict().items()]], argkind='pairs')
            else:
                st.update(op='ior', args=[a_dict()])
            st['form'] = form or rng.choice(('parent', 'parent', 'alias'))
        else: raise AssertionError(opname)
    return st


def gen_read(rng, plain):
    attr = pick_slot(rng)
    root = getattr(plain, attr)
    path, t = rng.choice(list(containers(root)))
    st = {'k': 'read', 'attr': attr, 'path': list(path), 'args': []}
    n = len(t)
    if isinstance(t, list):
        op = rng.choice(LIST_READS)
        if op == 'getitem':
            st['args'] = [enc_key(pick_slice(rng, n)) if rng.random() < 0.3 else pick_index(rng, n, rng.random() < 0.15)]
        elif op in ('in', 'count', 'index'):
            st['args'] = [copy.deepcopy(rng.choice(t)) if t and rng.random() < 0.7 else gen_item(rng, attr, 0)]
            if isinstance(st['args'][0], (list, dict)) and not is_json(attr): st['args'] = [0]
        elif op in ('eq', 'ne'):
            st['args'] = [copy.deepcopy(t) if rng.random() < 0.5 else gen_items(rng, attr, 1)]
        elif op == 'concat':
            st['args'] = [gen_items(rng, attr, 1)]
    else:
        op = rng.choice(DICT_READS)
        ks = list(t.keys())
        k = rng.choice(ks) if ks and rng.random() < 0.7 else rng.choice(KEYS)
        if op in ('getitem', 'in'): st['args'] = [k]
        elif op == 'get': st['args'] = [k] if rng.random() < 0.5 else [k, gen_value(rng, 1)]
        elif op in ('eq', 'ne'): st['args'] = [copy.deepcopy(t) if rng.random() < 0.5 else gen_container(rng, 1, 'dict')]
        elif op == 'concat': st['args'] = [gen_container(rng, 1, 'dict')]
    st['op'] = op
    return st


def gen_init(rng, depth=None):
    depth = rng.choice((0, 1, 2, 3)) if depth is None else depth
    data = gen_container(rng, depth + 1)
    if depth == 0:
        data = [gen_scalar(rng) for _ in range(rng.choice((0, 2, 3)))] if isinstance(data, list) else \
            {k: gen_scalar(rng) for k in rng.sample(KEYS, rng.choice((0, 2, 3)))}
    init = {'data': data, 'ia': gen_array(rng, 'ia'), 'sa': gen_array(rng, 'sa'), 'fa': gen_array(rng, 'fa'),
            'data2': gen_container(rng, rng.choice((1, 2))), 'ia2': gen_array(rng, 'ia'),
            'b_data': gen_container(rng, rng.choice((1, 2, 3))), 'b_data2': gen_container(rng, 1)}
    for k in ('ia', 'ia2', 'sa', 'fa'): init['b_' + k] = gen_array(rng, k)
    return init


DEFAULT_INIT = {'data': {}, 'data2': {'other': [1, {'x': 2}]}, 'ia': [], 'ia2': [4], 'sa': [], 'fa': [],
                'b_data': {'t': [1, 2], 'u': {'v': 'w'}}, 'b_data2': [], 'b_ia': [5, 6], 'b_ia2': [], 'b_sa': ['s'],
                'b_fa': [0.5]}


def fill_init(init):
    out = tree_copy(DEFAULT_INIT)
    out.update(tree_copy(init))
    return out


def gen_copy(rng, plain):
    """A step that stores a value READ from one slot into another slot (or elsewhere in the same one): whole-value
    assignment `b.data = a.data`, `b.ia = a.ia`, `p.data2 = p.data['k']`, or insertion of a (sub-)value into a Json
    container `b.data['x'] = a.data['y']`, `.append(a.ia)`, `.update(a.data)`, `p.data['l'] += b.data['m']`."""
    for _ in range(8):
        src = pick_slot(rng)
        cs = list(containers(getattr(plain, src)))
        spath, sval = rng.choice(cs) if rng.random() < 0.55 else cs[0]
        if len(json.dumps(sval)) > 600: continue
        ref = {'$ref': [src, list(spath)]}
        if rng.random() < 0.45:
            # whole-value assignment to a compatible slot
            if is_json(src): cands = [x for x in ATTRS if is_json(x)]
            elif spath: continue
            else: cands = [x for x in ATTRS if kind_of(x) == kind_of(src)] + [x for x in ATTRS if is_json(x)][:2]
            dst = rng.choice(cands)
            return {'k': 'assign', 'attr': dst, 'ref': ref['$ref']}
        dst = rng.choice([x for x in ATTRS if is_json(x)])
        dpath, dval = rng.choice(list(containers(getattr(plain, dst))))
        st = {'k': 'mut', 'attr': dst, 'path': list(dpath), 'form': 'direct'}
        if isinstance(dval, dict):
            op = rng.choice(('setitem', 'setitem', 'setdefault', 'update', 'ior') if isinstance(sval, dict)
                            else ('setitem', 'setitem', 'setdefault'))
            if op in ('setitem', 'setdefault'): st.update(op=op, args=[rng.choice(KEYS), ref])
            elif op == 'update': st.update(op='update', args=[ref])
            else: st.update(op='ior', args=[ref], form='parent')
            # top-level `b.data |= a.data[..]` is not generated: dict.__ior__/list.__iadd__ are not intercepted (listed
            # finding C28-TOPLEVEL-AUGASSIGN-NESTED-UNWRAPPED), there the other object's nested tracked containers end
            # up shared, which the rewrite-based classification of that finding cannot judge
            if st['op'] == 'ior' and (not dpath or src == dst): st.update(op='update', form='direct')
        else:
            n = len(dval)
            op = rng.choice(('append', 'append', 'insert', 'setitem', 'extend', 'iadd') if isinstance(sval, list)
                            else ('append', 'append', 'insert', 'setitem'))
            if op == 'setitem' and not n: op = 'append'
            if op == 'append': st.update(op='append', args=[ref])
            elif op == 'insert': st.update(op='insert', args=[rng.choice((0, 1, -1, n)), ref])
            elif op == 'setitem': st.update(op='setitem', args=[rng.randrange(-n, n), ref])
            elif op == 'extend': st.update(op='extend', args=[ref])
            else: st.update(op='iadd', args=[ref], form='parent')
            # (`d['c'] |= d` / `l[0] += l` on overlapping parts of one value build a cyclic structure in plain Python
            # as well; not a JSON value, so the operator forms are only generated across slots)
            if st['op'] == 'iadd' and (not dpath or src == dst): st.update(op='extend', form='direct')
        return st
    return {'k': 'flush'}


def step_ref(st):
    """The [slot, path] a step copies from, if any."""
    if st.get('k') == 'assign': return st.get('ref')
    for x in st.get('args', []) if st.get('k') == 'mut' else []:
        if isinstance(x, dict) and '$ref' in x: return x['$ref']
    return None


def copy_class(st):
    r = step_ref(st)
    if r is None: return None
    src, dst = r[0], st['attr']
    if src.startswith('b_') != dst.startswith('b_'): return 'cross_object'
    if base(src) != base(dst): return 'cross_attr'
    return 'same_slot'


# ----------------------------------------------------------------------------------------------------------------
# environment: one Database per process, one new row pair per case

class Env(object):
    def __init__(self, ctx):
        from pony import orm
        from pony.orm import ormtypes
        from vlib.dbapi import Recorder
        import os
        self.orm, self.ormtypes = orm, ormtypes
        self.TrackedValue = ormtypes.TrackedValue
        self.rec = Recorder()
        self.file = os.path.join(ctx.tmp(), 'c28-%d.sqlite' % ctx.shard)
        db = self.db = orm.Database()

        class Doc(db.Entity):
            data = orm.Optional(orm.Json)
            ia = orm.Optional(orm.IntArray)
            sa = orm.Optional(orm.StrArray)
            fa = orm.Optional(orm.FloatArray, lazy=True)
            data2 = orm.Optional(orm.Json, lazy=True)         # lazy: the value arrives through Attribute.load -> db_set
            ia2 = orm.Optional(orm.IntArray, lazy=True)
            holders = orm.Set('Holder')

        class Holder(db.Entity):                               # to-one navigation reaches a Doc as a pk-only seed object
            doc = orm.Required(Doc)
        self.Doc, self.Holder = Doc, Holder
        db.bind('sqlite', self.file, create_db=True, factory=self.rec.factory())
        db.generate_mapping(create_tables=True)
        self.raw = sqlite3.connect(self.file, isolation_level=None)
        cols = [getattr(Doc, a).column for a in BASE_ATTRS]
        self.raw_sql = 'select %s from "%s" where "%s" = ?' % (
            ', '.join('"%s"' % c for c in cols), Doc._table_, Doc.id.column)

    def raw_read(self, pks):
        """pks = (pk of a, pk of b) -> {slot: decoded column}"""
        out = {}
        for prefix, pk in zip(('', 'b_'), pks):
            row = self.raw.execute(self.raw_sql, (pk,)).fetchone()
            if row is None: return None
            for a, v in zip(BASE_ATTRS, row):
                out[prefix + a] = json.loads(v) if isinstance(v, str) else v
        return out

    def fetch(self, how, pk, hpk):
        """One of the loading paths by which a program gets hold of a Doc object (and of its Json/array values)."""
        Doc, Holder, orm = self.Doc, self.Holder, self.orm
        if how == 'getitem': return Doc[pk]
        if how == 'get': return Doc.get(id=pk)
        if how == 'select': return Doc.select(lambda d: d.id == pk)[:][0]
        if how == 'select_prefetch':
            return Doc.select(lambda d: d.id == pk).prefetch(Doc.data2, Doc.ia2, Doc.fa)[:][0]
        if how == 'select_tuple':                  # the lazy attributes are selected next to the object
            return orm.select((d, d.data2, d.ia2, d.data) for d in Doc if d.id == pk)[:][0][0]
        if how == 'load':
            o = Doc[pk]; o.load(); return o
        if how == 'load_attrs':
            o = Doc[pk]; o.load(Doc.data2, Doc.fa); return o
        if how == 'by_sql':
            return Doc.get_by_sql('select * from "%s" where "%s" = $pk' % (Doc._table_, Doc.id.column))
        if how == 'nav': return Holder[hpk].doc
        if how == 'nav_select': return orm.select(h for h in Holder if h.id == hpk).first().doc
        if how == 'nav_attr': return orm.select(h.doc for h in Holder if h.id == hpk).first()
        raise AssertionError(how)

    def writes_since(self, mark):
        return [e['sql'] for e in self.rec.statements(since=mark)
                if e['sql'].lstrip().split(None, 1)[0].upper() in ('INSERT', 'UPDATE', 'DELETE', 'REPLACE')]

    def close(self):
        try: self.raw.close()
        except Exception: pass
        try: self.db.disconnect()
        except Exception: pass


class _Stop(Exception):
    pass


class Mismatch(Exception):
    def __init__(self, kind, info):
        Exception.__init__(self, kind)
        self.kind, self.info = kind, info


class Pair(object):
    """The two live entity objects behind one holder: attribute 'ia' is a.ia, 'b_ia' is b.ia."""
    _detach = False
    def __init__(self, a, b):
        object.__setattr__(self, '_a', a)
        object.__setattr__(self, '_b', b)
    def ent(self, slot):
        return self._b if slot.startswith('b_') else self._a
    def __getattr__(self, slot):
        return getattr(self.ent(slot), base(slot))
    def __setattr__(self, slot, v):
        if slot.startswith('_'): object.__setattr__(self, slot, v)
        else: setattr(self.ent(slot), base(slot), v)


def untracked_view(TrackedValue, v):
    return v.get_untracked() if isinstance(v, TrackedValue) else v


class CaseRun(object):
    """Executes one case (generating it on the fly when `script` is None) against Pony and the plain copy."""

    def __init__(self, env, ctx, rng=None, script=None, plan=None, count=True):
        self.env, self.ctx, self.rng, self.script, self.plan = env, ctx, rng, script, plan
        self.count_on = count
        self.case = {'init': None, 'start': None, 'sessions': []}
        self.fp = []
        self.n_mut_ok = 0
        self.n_reads = 0
        self.commit_no = 0                 # ordinal of commit points reached
        self.result = None                 # None | ('mismatch', info) | ('violation', mech, info)
        self.unnoticed = {a: [] for a in ATTRS}   # deviation model: mutations Pony is known not to notice
        self.dirty = {a: False for a in ATTRS}
        self.persisted = None
        self.pending_insert = False
        self.stop_at_commit = None

    def count(self, name, n=1):
        if self.count_on: self.ctx.count(name, n)

    # -- comparison helpers --------------------------------------------------------------------------------------
    def same(self, a, b):
        try: return a == b
        except Exception: return False

    def check_in_session(self, obj, plain, where):
        TV = self.env.TrackedValue
        for a in ATTRS:
            tv = getattr(obj, a)
            pv = getattr(plain, a)
            if not self.same(tv, pv) or not self.same(untracked_view(TV, tv), pv):
                raise Mismatch('in_session_value', {'where': where, 'attr': a, 'tracked': untracked_view(TV, tv),
                                                    'plain': copy.deepcopy(pv)})
        self.count('monitor.in_session_compare')

    # -- the deviation model ---------------------------------------------------------------------------------------
    def model_flush(self, plain):
        for a in ATTRS:
            if (self.pending_insert and not a.startswith('b_')) or self.dirty[a]:
                self.persisted[a] = copy.deepcopy(getattr(plain, a))
                self.dirty[a] = False
                self.unnoticed[a] = []
        self.pending_insert = False

    def commit_point(self, pks, plain, where):
        """M2: raw read after a commit; returns False if the case must stop (finding or violation recorded)."""
        self.commit_no += 1
        dbv = self.env.raw_read(pks)
        self.count('monitor.commit_points')
        if dbv is None:
            self.result = ('violation', 'row_missing', {'where': where}); return False
        bad = [a for a in ATTRS if not self.same(dbv[a], getattr(plain, a))]
        if not bad:
            self.count('outcome.persisted_equal')
            if any(canon(dbv[a]) != canon(getattr(plain, a)) for a in ATTRS): self.count('outcome.type_only_diff')
            return self.stop_at_commit != self.commit_no
        info = {'where': where, 'commit_no': self.commit_no, 'attrs': bad,
                'db': {a: dbv[a] for a in bad}, 'expected': {a: copy.deepcopy(getattr(plain, a)) for a in bad},
                'model_predicts': {a: copy.deepcopy(self.persisted[a]) for a in bad},
                'unnoticed': {a: list(self.unnoticed[a]) for a in bad}}
        self.result = ('mismatch', info)
        return False

    # -- one step ------------------------------------------------------------------------------------------------
    def do_mut(self, obj, plain, st):
        TV = self.env.TrackedValue
        attr = st['attr']
        before = copy.deepcopy(getattr(plain, attr))
        p_exc = t_exc = None
        p_res = t_res = None
        try: p_res = exec_mut(plain, st)
        except Exception as e: p_exc = e
        recv_tracked = True
        try:
            rc = receiving_container(obj, st)
            recv_tracked = rc is None or isinstance(rc, TV)
        except Exception: pass
        ent = obj.ent(attr)
        other = obj._a if ent is obj._b else obj._b
        status_before = ent._status_
        other_before = (other._status_, other._wbits_)
        obj._detach = not recv_tracked
        if not recv_tracked and step_ref(st) is not None: self.count('note.ref_into_unwrapped_receiver')
        try: t_res = exec_mut(obj, st)
        except Exception as e: t_exc = e
        finally: obj._detach = False
        if (other._status_, other._wbits_) != other_before:
            raise Mismatch('other_object_marked', {'step': st, 'before': other_before,
                                                   'after': (other._status_, other._wbits_)})
        bad_arg = st.get('bad_arg', False)
        if p_exc is not None and t_exc is not None:
            oc = 'both_raise'
            if type(p_exc) is not type(t_exc):
                if is_json(attr):
                    raise Mismatch('exception_class', {'step': st, 'plain': repr(p_exc), 'tracked': repr(t_exc)})
                self.count('outcome.exc_class_differs_array_validation')
            self.count('outcome.both_raise.' + type(p_exc).__name__)
        elif p_exc is not None:
            raise Mismatch('pony_did_not_raise', {'step': st, 'plain': repr(p_exc)})
        elif t_exc is not None:
            # loud: Pony refuses something plain Python accepts (array item validation). Must leave the value unchanged.
            oc = 'pony_loud'
            setattr(plain, attr, before)
            self.count('outcome.pony_loud.' + type(t_exc).__name__)
            if is_json(attr): self.count('outcome.pony_loud_on_json')
        else:
            oc = 'ok'
            self.n_mut_ok += 1
            self.count('outcome.mut_ok')
            self.count('mut.%s.%s.d%d' % (st['op'], st.get('form', 'direct'), len(st['path'])))
            self.count('mut_form.' + st.get('form', 'direct'))
            if len(st['path']) >= 2: self.count('mut_depth_ge2')
            if not is_json(attr): self.count('mut_on_array')
            if attr.startswith('b_'): self.count('mut_on_second_object')
            cc = copy_class(st)
            if cc: self.count('xcopy.' + cc); self.count('xcopy.nested_insert')
            if not self.same(untracked_view(TV, t_res), p_res):
                raise Mismatch('return_value', {'step': st, 'plain': p_res, 'tracked': untracked_view(TV, t_res)})
            # deviation model: which successful mutations is Pony known not to notice
            shape = None
            if st['op'] in AUG and st.get('form') == 'alias': shape = F_ALIAS
            elif not recv_tracked: shape = 'untracked_receiver'
            if shape is None: self.dirty[attr] = True
            else: self.unnoticed[attr].append({'shape': shape, 'step': st})
            pending = self.pending_insert and not attr.startswith('b_')
            if shape is None and not pending and status_before in ('loaded', 'updated', 'inserted') \
                    and ent._status_ != 'modified':
                raise Mismatch('status_not_modified', {'step': st, 'status': ent._status_})
        if oc != 'ok' and ent._status_ != status_before:
            self.count('note.failed_op_changed_status')
        return oc

    def do_read(self, obj, plain, st):
        TV = self.env.TrackedValue
        def snap(): return (obj._a._status_, obj._a._wbits_, obj._b._status_, obj._b._wbits_)
        sb = snap()
        p_exc = t_exc = None
        try: p = exec_read(plain, st, False)
        except Exception as e: p_exc = e
        try: t = exec_read(obj, st, True)
        except Exception as e: t_exc = e
        self.n_reads += 1
        self.count('monitor.reads')
        self.count('read.' + st['op'])
        if (p_exc is None) != (t_exc is None) or (p_exc is not None and type(p_exc) is not type(t_exc)):
            raise Mismatch('read_exception', {'step': st, 'plain': repr(p_exc), 'tracked': repr(t_exc)})
        if p_exc is None:
            if st['op'] == 'untracked' and canon(t) != canon(p):
                raise Mismatch('read_result', {'step': st, 'plain': p, 'tracked': t})
            if st['op'] == 'repr': t, p = 0, 0       # text of reprs is equal for list/dict subclasses; not compared
            if not self.same(t, p):
                raise Mismatch('read_result', {'step': st, 'plain': p, 'tracked': repr(t)})
        if snap() != sb:
            raise Mismatch('read_marked_modified', {'step': st, 'before': sb, 'after': snap()})
        return 'raise' if p_exc is not None else 'ok'

    # -- sessions ------------------------------------------------------------------------------------------------
    def gen_session_plan(self):
        rng = self.rng
        nsess = rng.choice((1, 1, 2, 2, 3))
        plan = []
        for i in range(nsess):
            ro = rng.random() < 0.2
            plan.append({'readonly': ro, 'n': rng.choice((1, 2, 3, 4, 6, 8)) if not ro else rng.choice((1, 3, 5))})
        return plan

    def next_step(self, sess_plan, i, plain):
        rng = self.rng
        if sess_plan['readonly']: return gen_read(rng, plain)
        r = rng.random()
        if r < 0.54: return gen_mut(rng, plain)
        if r < 0.64: return gen_copy(rng, plain)
        if r < 0.75: return gen_read(rng, plain)
        if r < 0.84: return {'k': 'flush'}
        if r < 0.90: return {'k': 'commit'}
        if r < 0.95: return {'k': 'refetch', 'how': [rng.choice(LOAD_PATHS), rng.choice(LOAD_PATHS)]}
        attr = rng.choice(ATTRS)
        val = gen_container(rng, rng.choice((1, 2, 3))) if is_json(attr) else gen_array(rng, attr)
        return {'k': 'assign', 'attr': attr, 'value': val}

    def run(self):
        env, orm = self.env, self.env.orm
        Doc = env.Doc
        TV = env.TrackedValue
        if self.script is not None:
            init, start = fill_init(self.script['init']), self.script['start']
            sessions = self.script['sessions']
            plan = [None] * len(sessions)
        else:
            plan = self.plan or self.gen_session_plan()
            init = fill_init(self.case['init'] or gen_init(self.rng))
            start = self.case['start'] or self.rng.choice(('loaded', 'loaded', 'created'))
            sessions = None
        self.case['init'], self.case['start'] = init, start
        plain = types.SimpleNamespace(**tree_copy(init))
        self.persisted = copy.deepcopy(init)
        self.fp.append(start)
        bystander_init = {'data': {'bystander': [1, {'x': 2}]}, 'ia': [1], 'sa': ['s'], 'fa': [0.5]}

        def kwargs(prefix):
            return {a: tree_copy(init[prefix + a]) for a in BASE_ATTRS}

        def fresh_check(pair, where):
            # M3: what a fresh session reads equals the plain copies, for both objects
            self.count('monitor.fresh_session_reads')
            for a in ATTRS:
                if not self.same(getattr(pair, a), getattr(plain, a)):
                    raise Mismatch('fresh_session_value', {'attr': a, 'session': where,
                                   'read': untracked_view(TV, getattr(pair, a)), 'plain': getattr(plain, a)})
        try:
            with orm.db_session:
                by = Doc(**copy.deepcopy(bystander_init))
                ob = Doc(**kwargs('b_'))
                hb = env.Holder(doc=ob)
                if start == 'loaded':
                    oa = Doc(**kwargs(''))
                    ha = env.Holder(doc=oa)
                orm.flush()
                by_pk, pk_b, hpk_b = by.id, ob.id, hb.id
                pk_a = oa.id if start == 'loaded' else None
                hpk_a = ha.id if start == 'loaded' else None
            if self.script is not None: loads = self.script.get('loads') or []
            else: loads = [[self.rng.choice(LOAD_PATHS), self.rng.choice(LOAD_PATHS)] for _ in plan]
            loads = list(loads) + [['getitem', 'getitem']] * (len(plan) - len(loads))
            self.case['loads'] = loads
            for si in range(len(plan)):
                steps_out = []
                self.case['sessions'].append(steps_out)
                mark = env.rec.mark()
                readonly = True
                creating = start == 'created' and si == 0
                with orm.db_session:
                    by = Doc[by_pk]
                    by.data['bystander'][1]['x']          # loaded and read
                    ob = env.fetch(loads[si][1], pk_b, hpk_b)
                    self.count('load_path.' + loads[si][1])
                    self.fp.append(('L', loads[si][0] if not creating else 'create', loads[si][1]))
                    if creating:
                        # lazy attributes of b are loaded now: a lazy load is a query, and a query issued while a is
                        # pending would flush a at a moment the deviation model cannot see
                        for x in BASE_ATTRS: getattr(ob, x)
                        oa = Doc(**kwargs(''))
                        ha = env.Holder(doc=oa)
                        self.pending_insert = True
                        readonly = False
                        obj = Pair(oa, ob)
                    else:
                        oa = env.fetch(loads[si][0], pk_a, hpk_a)
                        self.count('load_path.' + loads[si][0])
                        obj = Pair(oa, ob)
                        fresh_check(obj, si)
                    # follow the key order the database gives back (popitem/iteration order is order dependent)
                    for a in ATTRS:
                        if creating and not a.startswith('b_'): continue
                        setattr(plain, a, copy.deepcopy(untracked_view(TV, getattr(obj, a))))
                    n = len(sessions[si]) if sessions is not None else plan[si]['n']
                    for i in range(n):
                        st = sessions[si][i] if sessions is not None else tree_copy(self.next_step(plan[si], i, plain))
                        steps_out.append(st)
                        k = st['k']
                        if k == 'mut':
                            readonly = False
                            oc = self.do_mut(obj, plain, st)
                            self.fp.append(('m', st['attr'], len(st['path']), st.get('form'), st['op'],
                                            st.get('argkind'), sorted(st.get('kw', {})), copy_class(st), oc))
                        elif k == 'read':
                            oc = self.do_read(obj, plain, st)
                            self.fp.append(('r', st['attr'], len(st['path']), st['op'], oc))
                        elif k == 'assign':
                            readonly = False
                            if st.get('ref') is not None:
                                x = {'$ref': st['ref']}
                                other = obj._a if obj.ent(st['attr']) is obj._b else obj._b
                                ob4 = (other._status_, other._wbits_)
                                pv = mat(plain, x, None)
                                setattr(obj, st['attr'], mat(obj, x, None))     # e.g. b.data = a.data
                                setattr(plain, st['attr'], pv)
                                if (other._status_, other._wbits_) != ob4:
                                    raise Mismatch('other_object_marked', {'step': st})
                                self.count('xcopy.' + copy_class(st)); self.count('xcopy.whole_value')
                            else:
                                setattr(obj, st['attr'], tree_copy(st['value']))
                                setattr(plain, st['attr'], tree_copy(st['value']))
                            self.dirty[st['attr']] = True
                            self.n_mut_ok += 1
                            self.count('outcome.assign_ok')
                            self.fp.append(('a', st['attr'], copy_class(st), len((st.get('ref') or [0, []])[1])))
                        elif k == 'refetch':
                            # get the objects again inside the session through another loading path (a query flushes
                            # pending changes first: observed from the statuses, not assumed)
                            if pk_a is None and oa._status_ != 'created': pk_a, hpk_a = oa.id, ha.id
                            for which, (o, pk, hpk) in (('a', (oa, pk_a, hpk_a)), ('b', (ob, pk_b, hpk_b))):
                                if pk is None or (which == 'a' and st['how'][0] is None): continue
                                o2 = env.fetch(st['how'][0 if which == 'a' else 1], pk, hpk)
                                if o2 is not o: raise Mismatch('refetch_identity', {'step': st, 'which': which})
                            self.count('monitor.refetches')
                            if oa._status_ not in ('created', 'modified') and ob._status_ not in ('created', 'modified'):
                                self.model_flush(plain)
                            self.fp.append(('F', tuple(st['how'])))
                        elif k == 'flush':
                            readonly = False
                            orm.flush()
                            self.model_flush(plain)
                            self.fp.append('f')
                        elif k == 'commit':
                            readonly = False
                            orm.commit()
                            self.model_flush(plain)
                            self.fp.append('c')
                            if pk_a is None: pk_a, hpk_a = oa.id, ha.id
                            if not self.commit_point((pk_a, pk_b), plain, 'commit() in session %d step %d' % (si, i)):
                                raise _Stop()
                        self.check_in_session(obj, plain, 'session %d step %d' % (si, i))
                    if readonly:
                        for e in (oa, ob):
                            if e._status_ != 'loaded':
                                raise Mismatch('readonly_session_status', {'session': si, 'status': e._status_})
                    if by._status_ != 'loaded':
                        raise Mismatch('bystander_status', {'session': si, 'status': by._status_})
                # session exit committed
                self.model_flush(plain)
                self.fp.append('x')
                if pk_a is None: pk_a, hpk_a = oa.id, ha.id
                w = env.writes_since(mark)
                if readonly:
                    self.count('monitor.readonly_sessions')
                    if w: raise Mismatch('readonly_session_wrote', {'session': si, 'sql': w[:3]})
                else:
                    self.count('monitor.write_statements_seen', len(w))
                if not self.commit_point((pk_a, pk_b), plain, 'exit of session %d' % si):
                    raise _Stop()
            # final fresh session through Pony
            with orm.db_session:
                fresh_check(Pair(Doc[pk_a], Doc[pk_b]), 'final')
                by = Doc[by_pk]
                for a in bystander_init:
                    if not self.same(getattr(by, a), bystander_init[a]):
                        raise Mismatch('bystander_value', {'attr': a})
        except _Stop:
            pass
        except Mismatch as m:
            self.result = ('violation', m.kind, m.info)
        except Exception as e:
            from vlib.common import short_tb
            self.result = ('error', type(e).__name__, {'error': repr(e), 'tb': short_tb()})
            try: orm.rollback()
            except Exception: pass
        return self.result


# ----------------------------------------------------------------------------------------------------------------
# rewriting a case for the deviation re-evaluation

def rewrite(case, shapes):
    c = copy.deepcopy(case)
    for sess in c['sessions']:
        for st in sess:
            if st.get('k') != 'mut': continue
            if F_ALIAS in shapes and st['op'] in AUG and st.get('form') == 'alias': st['form'] = 'parent'
            if F_ITER in shapes and st.get('argkind') in ('tuple', 'iter'): st['argkind'] = 'list'
            if F_TOP in shapes and is_toplevel_aug_insertion(st):
                # p.data += v  ->  p.data.extend(v);   p.data |= v  ->  p.data.update(v)   (same Python meaning)
                st['op'] = 'extend' if st['op'] == 'iadd' else 'update'
                st['form'] = 'direct'
    return c


def has_alias_aug(case):
    return any(st.get('k') == 'mut' and st['op'] in AUG and st.get('form') == 'alias'
               for sess in case['sessions'] for st in sess)


def is_toplevel_aug_insertion(st):
    if not (st.get('k') == 'mut' and st['op'] in ('iadd', 'ior') and st.get('form') == 'parent' and not st['path']):
        return False
    arg = st['args'][0]
    vals = list(arg.values()) if isinstance(arg, dict) else [x[1] for x in arg] if st.get('argkind') == 'pairs' else arg
    return any(isinstance(x, (list, dict)) for x in vals)


def has_toplevel_aug_insertion(case):
    return any(is_toplevel_aug_insertion(st) for sess in case['sessions'] for st in sess)


def has_iter_insertion(case):
    for sess in case['sessions']:
        for st in sess:
            if st.get('k') == 'mut' and st.get('argkind') in ('tuple', 'iter') and st['op'] in ('extend', 'setitem') \
                    and any(isinstance(x, (list, dict)) for x in st['args'][-1]):
                return True
    return False


def make_witness(case, info):
    """Witness with the case as JSON text (vlib.common.jsonable flattens deep nesting, which would break replays)."""
    try: info_json = json.dumps(info, default=repr)
    except ValueError: info_json = json.dumps(repr(info)[:4000])        # circular structure on the Pony side
    w = {'case_json': json.dumps(case), 'info_json': info_json}
    for k in ('where', 'attrs', 'step', 'attr', 'session'):
        if isinstance(info, dict) and k in info: w[k] = repr(info[k])[:300]
    steps = [st for sess in case['sessions'] for st in sess]
    w['n_steps'] = len(steps)
    w['program'] = [describe(st) for st in steps][-12:]
    return w


def slot_src(slot, path=()):
    return '%s.%s%s' % ('b' if slot.startswith('b_') else 'a', base(slot), ''.join('[%r]' % x for x in path))


def describe(st):
    """Readable Python-like rendering of one step (for witnesses and reports); a and b are the two entity objects."""
    k = st['k']
    if k in ('flush', 'commit'): return k + '()'
    if k == 'refetch': return 'refetch a via %s, b via %s' % tuple(st['how'])
    if k == 'assign':
        if st.get('ref') is not None: return '%s = %s' % (slot_src(st['attr']), slot_src(*st['ref']))
        return '%s = %r' % (slot_src(st['attr']), st['value'])
    tgt = slot_src(st['attr'], st['path'])
    a = st.get('args', [])
    ak = st.get('argkind')
    def arg(x):
        if isinstance(x, dict) and '$ref' in x: return slot_src(*x['$ref'])
        if ak == 'tuple': return repr(tuple(x))
        if ak in ('iter', 'pairs_iter'): return 'iter(%r)' % (x,)
        return repr(x)
    if k == 'read': return 'read %s %s%r' % (tgt, st['op'], tuple(a))
    op = st['op']
    if op in AUG:
        sym = {'iadd': '+=', 'imul': '*=', 'ior': '|='}[op]
        if st.get('form') == 'alias': return 'x = %s; x %s %s' % (tgt, sym, arg(a[0]))
        return '%s %s %s' % (tgt, sym, arg(a[0]))
    if op == 'setitem':
        key = dec_key(a[0])
        ks = '%s:%s:%s' % (key.start, key.stop, key.step) if isinstance(key, slice) else repr(key)
        return '%s[%s] = %s' % (tgt, ks.replace('None', ''), arg(a[1]))
    if op == 'delitem':
        key = dec_key(a[0])
        ks = '%s:%s:%s' % (key.start, key.stop, key.step) if isinstance(key, slice) else repr(key)
        return 'del %s[%s]' % (tgt, ks.replace('None', ''))
    kw = ', '.join('%s=%r' % kv for kv in sorted(st.get('kw', {}).items()))
    args = ', '.join(arg(x) for x in a)
    return '%s.%s(%s)' % (tgt, op, ', '.join(x for x in (args, kw) if x))


def judge(env, ctx, run):
    """Turn the outcome of one executed case into counters / findings / violations."""
    res = run.result
    case = run.case
    if res is None:
        ctx.count('outcome.case_clean')
        return
    if res[0] == 'error':
        # loud and unexpected: not a violation of this property, recorded
        ctx.count('outcome.unexpected_error.' + res[1])
        ctx.extra.setdefault('unexpected_errors', [])
        if len(ctx.extra['unexpected_errors']) < 5:
            ctx.extra['unexpected_errors'].append({'case': case, 'error': res[2]})
        return
    if res[0] == 'violation':
        ctx.violation(make_witness(case, res[2]), mechanism=res[1])
        return
    info = res[1]
    ctx.count('outcome.persist_mismatch')
    witness = make_witness(case, info)
    # (a) the deviation model (unnoticed = alias-form augmented assignment, or a change made through a container that
    #     Pony left unwrapped) must reproduce Pony's database value exactly, for every affected attribute
    same = all(info['db'][a] == info['model_predicts'][a] for a in info['attrs'])
    last = [info['unnoticed'][a][-1] for a in info['attrs'] if info['unnoticed'][a]]
    if not same or len(last) != len(info['attrs']):
        ctx.violation(witness, mechanism='lost_inplace_change')
        return
    # (b)+(c) the smallest rewrite of the *listed shapes* that makes the very same case persist at this commit point
    #     names the mechanism: alias `x op= v` -> parent form `p.a[k] op= v`; tuple/iterator argument -> list.
    allf = (F_ALIAS, F_ITER, F_TOP)
    tried = {json.dumps(case, sort_keys=True)}
    for shapes in (c for n in (1, 2, 3) for c in itertools.combinations(allf, n)):
        # an alias-shaped last mutation can only be explained by a rewrite that includes the alias rule
        if any(u['shape'] == F_ALIAS for u in last) and F_ALIAS not in shapes: continue
        rc = rewrite(case, shapes)
        key = json.dumps(rc, sort_keys=True)
        if key in tried: continue                 # this rule set changes nothing new in the case
        tried.add(key)
        rr = CaseRun(env, ctx, script=rc, count=False)
        rr.stop_at_commit = info['commit_no']
        r2 = rr.run()
        ctx.count('monitor.deviation_replays')
        if r2 is None:
            witness['persists_after_rewriting'] = list(shapes)
            for fid in shapes:
                ctx.finding(fid, witness)
                ctx.count('classified.' + fid)
            return
    ctx.violation(witness, mechanism='lost_inplace_change_unexplained')


# ----------------------------------------------------------------------------------------------------------------
# bounded matrix: every op kind x form x depth x start state, one mutation then commit

def doc_at_depth(kind, depth):
    """A document whose container of type `kind` sits at nesting depth `depth`, reached by path."""
    leaf = [3, 1, 2, 1] if kind == 'list' else {'a': 1, 'b': [5], 'k 1': {'z': None}}
    path = []
    doc = leaf
    for d in range(depth):
        if d % 2 == 0:
            doc = {'p': doc, 'other': d}
            path.insert(0, 'p')
        else:
            doc = [0, doc, 'x']
            path.insert(0, 1)
    return doc, path


def matrix_cases(rng):
    for start in ('loaded', 'created'):
        for pre in ((), ('flush',)):
            if start == 'loaded' and pre: continue
            for depth in (0, 1, 2, 3):
                for kind, ops in (('list', LIST_OPS), ('dict', DICT_OPS)):
                    for opname in ops:
                        forms = ('parent', 'alias') if opname in ('iadd', 'imul', 'ior') else ('direct',)
                        kinds = ('list', 'tuple', 'iter') if opname in ('extend', 'setslice') else \
                            ('list', 'tuple') if opname == 'iadd' else (None,)
                        for form in forms:
                            for ak in kinds:
                                doc, path = doc_at_depth(kind, depth)
                                init = {'data': doc, 'ia': [3, 1, 2], 'sa': ['b', 'a'], 'fa': [1.5, 0.5]}
                                plain = types.SimpleNamespace(**copy.deepcopy(init))
                                st = gen_mut(rng, plain, attr='data', opname=opname, form=form, path=path,
                                             wild=False, argkind=ak)
                                steps = [{'k': p} for p in pre] + [st]
                                yield {'init': init, 'start': start, 'sessions': [steps]}
    # arrays: depth 0 only
    for start in ('loaded', 'created'):
        for attr in ('ia', 'sa', 'fa'):
            for opname in LIST_OPS:
                forms = ('parent', 'alias') if opname in ('iadd', 'imul') else ('direct',)
                for form in forms:
                    init = {'data': {}, 'ia': [3, 1, 2, 1], 'sa': ['b', 'a', 'c'], 'fa': [1.5, 0.5, 2.0]}
                    plain = types.SimpleNamespace(**copy.deepcopy(init))
                    st = gen_mut(rng, plain, attr=attr, opname=opname, form=form, path=[], wild=False, argkind='list')
                    pre = [{'k': 'flush'}] if start == 'created' else []
                    yield {'init': init, 'start': start, 'sessions': [pre + [st]]}
    # nested-after-insert: insert a container by every inserting op (each argument kind), flush, mutate inside it
    for ins, ak in (('append', None), ('insert', None), ('extend', 'list'), ('extend', 'tuple'), ('extend', 'iter'),
                    ('setslice', 'list'), ('setslice', 'tuple'), ('setslice', 'iter'), ('iadd', 'list'),
                    ('iadd', 'tuple'), ('setitem', None)):
        for sep in ('flush', 'commit', 'session'):
            init = {'data': {'l': [0, 1]}, 'ia': [], 'sa': [], 'fa': []}
            if ins in ('append',): st = {'op': 'append', 'args': [{'n': [1]}]}
            elif ins == 'insert': st = {'op': 'insert', 'args': [2, {'n': [1]}]}
            elif ins == 'extend': st = {'op': 'extend', 'args': [[{'n': [1]}]], 'argkind': ak}
            elif ins == 'setslice': st = {'op': 'setitem', 'args': [{'slice': [2, 2, None]}, [{'n': [1]}]], 'argkind': ak}
            elif ins == 'iadd': st = {'op': 'iadd', 'args': [[{'n': [1]}]], 'argkind': ak, 'form': 'parent'}
            else: st = {'op': 'setitem', 'args': [1, {'n': [1]}]}
            st.update(k='mut', attr='data', path=['l'])
            st.setdefault('form', 'direct')
            idx = 1 if ins == 'setitem' else 2
            m2 = {'k': 'mut', 'attr': 'data', 'path': ['l', idx, 'n'], 'form': 'direct', 'op': 'append', 'args': [9]}
            m3 = {'k': 'mut', 'attr': 'data', 'path': ['l', idx], 'form': 'direct', 'op': 'setitem', 'args': ['m', 1]}
            if sep == 'session': sessions = [[st], [m2, {'k': 'flush'}, m3]]
            else: sessions = [[st, {'k': sep}, m2, {'k': sep}, m3]]
            yield {'init': init, 'start': 'loaded', 'sessions': sessions}
    # cross-object / cross-attribute copies: store a value READ from one slot in another, then change it in place
    # through the destination, through the source, or both; every separator between the copy and the changes
    base_init = {'data': {'name': 'template', 'opts': [1, 2], 'sub': {'k': [0]}}, 'data2': {'z': [9]}, 'ia': [1, 2, 3],
                 'ia2': [7], 'sa': ['x'], 'fa': [1.5], 'b_data': {'name': 'other', 'opts': [], 'l': [0]},
                 'b_data2': [], 'b_ia': [], 'b_ia2': [], 'b_sa': ['y', 'z'], 'b_fa': []}
    def M(slot, path, op, *args): return {'k': 'mut', 'attr': slot, 'path': path, 'form': 'direct', 'op': op, 'args': list(args)}
    copies = [
        # (copy step, change through destination, change through source)
        ({'k': 'assign', 'attr': 'b_data', 'ref': ['data', []]}, [M('b_data', [], 'setitem', 'name', 'copy'), M('b_data', ['opts'], 'append', 3)],
         [M('data', ['opts'], 'append', 4), M('data', ['sub', 'k'], 'append', 5)]),
        ({'k': 'assign', 'attr': 'data', 'ref': ['b_data', []]}, [M('data', ['l'], 'append', 3)], [M('b_data', ['l'], 'insert', 0, 4)]),
        ({'k': 'assign', 'attr': 'b_data', 'ref': ['data', ['sub']]}, [M('b_data', ['k'], 'append', 3)], [M('data', ['sub', 'k'], 'append', 4)]),
        ({'k': 'assign', 'attr': 'data2', 'ref': ['data', []]}, [M('data2', ['opts'], 'append', 3)], [M('data', ['opts'], 'pop')]),
        ({'k': 'assign', 'attr': 'b_data2', 'ref': ['data', ['opts']]}, [M('b_data2', [], 'append', 3)], [M('data', ['opts'], 'reverse')]),
        ({'k': 'assign', 'attr': 'b_ia', 'ref': ['ia', []]}, [M('b_ia', [], 'append', 4)], [M('ia', [], 'pop', 0)]),
        ({'k': 'assign', 'attr': 'ia2', 'ref': ['ia', []]}, [M('ia2', [], 'append', 4)], [M('ia', [], 'sort', )]),
        ({'k': 'assign', 'attr': 'b_ia2', 'ref': ['ia', []]}, [M('b_ia2', [], 'extend', [8, 9])], [M('ia', [], 'clear')]),
        ({'k': 'assign', 'attr': 'sa', 'ref': ['b_sa', []]}, [M('sa', [], 'append', 'q')], [M('b_sa', [], 'remove', 'y')]),
        ({'k': 'assign', 'attr': 'b_fa', 'ref': ['fa', []]}, [M('b_fa', [], 'append', 2.5)], [M('fa', [], 'insert', 0, 0.5)]),
        ({'k': 'assign', 'attr': 'b_data', 'ref': ['ia', []]}, [M('b_data', [], 'append', 'x')], [M('ia', [], 'append', 4)]),
        (M('b_data', [], 'setitem', 'x', {'$ref': ['data', ['sub']]}), [M('b_data', ['x', 'k'], 'append', 3)], [M('data', ['sub', 'k'], 'append', 4)]),
        (M('b_data', [], 'setitem', 'x', {'$ref': ['data', []]}), [M('b_data', ['x', 'opts'], 'append', 3)], [M('data', ['opts'], 'append', 4)]),
        (M('b_data', ['l'], 'append', {'$ref': ['data', ['opts']]}), [M('b_data', ['l', 1], 'append', 3)], [M('data', ['opts'], 'append', 4)]),
        (M('b_data', ['l'], 'insert', 0, {'$ref': ['ia', []]}), [M('b_data', ['l', 0], 'append', 3)], [M('ia', [], 'append', 4)]),
        (M('b_data', ['l'], 'extend', {'$ref': ['data', ['opts']]}), [M('b_data', ['l'], 'append', 3)], [M('data', ['opts'], 'append', 4)]),
        (M('b_data', [], 'setdefault', 'x', {'$ref': ['data', ['sub']]}), [M('b_data', ['x', 'k'], 'append', 3)], [M('data', ['sub'], 'setitem', 'n', 1)]),
        (M('b_data', [], 'update', {'$ref': ['data', []]}), [M('b_data', ['sub', 'k'], 'append', 3)], [M('data', ['sub', 'k'], 'append', 4)]),
        (M('data2', [], 'setitem', 'x', {'$ref': ['data', ['sub']]}), [M('data2', ['x', 'k'], 'append', 3)], [M('data', ['sub', 'k'], 'append', 4)]),
        (M('data', [], 'setitem', 'x', {'$ref': ['data', ['sub']]}), [M('data', ['x', 'k'], 'append', 3)], [M('data', ['sub', 'k'], 'append', 4)]),
        (dict(M('b_data', ['l'], 'iadd', {'$ref': ['data', ['opts']]}), form='parent'), [M('b_data', ['l'], 'append', 3)], [M('data', ['opts'], 'append', 4)]),
    ]
    for cp, via_dst, via_src in copies:
        for sep in ('none', 'flush', 'commit', 'session'):
            for who in ('dst', 'src', 'both', 'both_rev'):
                muts = {'dst': via_dst, 'src': via_src, 'both': via_dst + via_src, 'both_rev': via_src + via_dst}[who]
                muts = tree_copy(muts)
                if sep == 'session': sessions = [[tree_copy(cp)], muts, [{'k': 'read', 'attr': 'data', 'path': [], 'op': 'len', 'args': []}]]
                elif sep == 'none': sessions = [[tree_copy(cp)] + muts]
                else: sessions = [[tree_copy(cp), {'k': sep}] + muts + [{'k': sep}] + tree_copy(muts[:1])]
                for start in ('loaded', 'created'):
                    if start == 'created' and sep == 'session': continue
                    yield {'init': tree_copy(base_init), 'start': start, 'sessions': sessions}
    # loading paths x lazy/eager slots: the value reached through every way of getting the object, then changed in place
    lp_init = {'data': {'e': [1]}, 'data2': {'lz': [1, {'n': 0}]}, 'ia': [1], 'ia2': [1, 2], 'sa': ['s'], 'fa': [0.5],
               'b_data': {'e': [2]}, 'b_data2': [[0], {'n': [1]}], 'b_ia': [3], 'b_ia2': [4, 5], 'b_sa': ['t'], 'b_fa': [1.5, 2.5]}
    lp_muts = {'data': M('data', ['e'], 'append', 9), 'data2': M('data2', ['lz', 1], 'setitem', 'n', 9), 'ia': M('ia', [], 'append', 9),
               'ia2': M('ia2', [], 'insert', 0, 9), 'sa': M('sa', [], 'append', 'z'), 'fa': M('fa', [], 'append', 9.5),
               'b_data2': M('b_data2', [1, 'n'], 'append', 9), 'b_ia2': M('b_ia2', [], 'pop'), 'b_fa': M('b_fa', [], 'reverse'),
               'b_data': M('b_data', ['e'], 'clear')}
    for how in sorted(set(LOAD_PATHS)):
        for slot, m in sorted(lp_muts.items()):
            yield {'init': tree_copy(lp_init), 'start': 'loaded', 'sessions': [[tree_copy(m)]], 'loads': [[how, how]]}
            # ... and after getting the object a second time in the same session (before and after a commit)
            yield {'init': tree_copy(lp_init), 'start': 'loaded', 'loads': [['getitem', 'getitem']],
                   'sessions': [[{'k': 'refetch', 'how': [how, how]}, tree_copy(m), {'k': 'commit'},
                                 {'k': 'refetch', 'how': [how, how]}, tree_copy(m)]]}
    # dict-side inserting ops followed by nested mutation
    for ins in ('setitem', 'update', 'update_pairs', 'update_pairs_iter', 'update_kw', 'setdefault', 'ior', 'ior_pairs'):
        for sep in ('flush', 'commit'):
            init = {'data': {'d': {'x': 0}}, 'ia': [], 'sa': [], 'fa': []}
            v = {'n': [1]}
            st = {'k': 'mut', 'attr': 'data', 'path': ['d'], 'form': 'direct'}
            if ins == 'setitem': st.update(op='setitem', args=['k', v])
            elif ins == 'update': st.update(op='update', args=[{'k': v}])
            elif ins == 'update_pairs': st.update(op='update', args=[[['k', v]]], argkind='pairs')
            elif ins == 'update_pairs_iter': st.update(op='update', args=[[['k', v]]], argkind='pairs_iter')
            elif ins == 'update_kw': st.update(op='update', args=[], kw={'k': v})
            elif ins == 'setdefault': st.update(op='setdefault', args=['k', v])
            elif ins == 'ior': st.update(op='ior', args=[{'k': v}], form='parent')
            else: st.update(op='ior', args=[[['k', v]]], argkind='pairs', form='parent')
            m2 = {'k': 'mut', 'attr': 'data', 'path': ['d', 'k', 'n'], 'form': 'direct', 'op': 'append', 'args': [9]}
            yield {'init': init, 'start': 'loaded', 'sessions': [[st, {'k': sep}, m2]]}


# ----------------------------------------------------------------------------------------------------------------

def run_one(env, ctx, rng=None, script=None, plan=None, init=None, start=None, sample=False):
    run = CaseRun(env, ctx, rng=rng, script=script, plan=plan)
    if init is not None: run.case['init'] = init
    if start is not None: run.case['start'] = start
    env.rec.clear()
    run.run()
    nontrivial = run.n_mut_ok > 0 or (run.n_reads > 0 and all(
        st['k'] == 'read' for s in run.case['sessions'] for st in s))
    ctx.case(run.fp, nontrivial=nontrivial, sample=run.case if sample else None)
    judge(env, ctx, run)
    return run


def run(ctx):
    env = Env(ctx)
    try:
        rng = ctx.rng
        # 1. bounded matrix (complete on every run; shards split it round-robin)
        n = 0
        for i, case in enumerate(matrix_cases(ctx.subrng('matrix'))):
            if i % ctx.nshards != ctx.shard: continue
            run_one(env, ctx, script=case, sample=(n % 97 == 0))
            n += 1
            ctx.count('matrix_cases')
        # 2. random multi-session histories
        total = 6500 if ctx.tier == 'quick' else 12000
        for i in range(total):
            run_one(env, ctx, rng=rng, sample=(i % 401 == 0))
            ctx.count('random_cases')
        # 3. read-only histories (M4 is the deciding monitor for the second sentence of the property)
        total_ro = 1200 if ctx.tier == 'quick' else 2000
        for i in range(total_ro):
            plan = [{'readonly': True, 'n': rng.choice((2, 4, 8, 12))} for _ in range(rng.choice((1, 2)))]
            run_one(env, ctx, rng=rng, plan=plan, start='loaded', sample=(i % 251 == 0))
            ctx.count('readonly_cases')
    finally:
        env.close()
    ctx.extra['executed_on'] = ['sqlite']
    # floors are per process (each shard of the thorough tier evaluates them on its own counters)
    k = 1 if ctx.tier == 'quick' else 1.5
    ctx.floor('monitor.commit_points', 8000 * k)
    ctx.floor('outcome.mut_ok', 10000 * k)
    ctx.floor('monitor.readonly_sessions', 1500 * k)
    ctx.floor('monitor.reads', 8000 * k)
    ctx.floor('monitor.fresh_session_reads', 8000 * k)
    ctx.floor('mut_form.alias', 200 * k)
    ctx.floor('mut_form.parent', 400 * k)
    ctx.floor('mut_depth_ge2', 1500 * k)
    ctx.floor('mut_on_array', 2500 * k)
    ctx.floor('matrix_cases', 1000 // ctx.nshards)
    ctx.floor('xcopy.cross_object', 600 * k)
    ctx.floor('xcopy.cross_attr', 400 * k)
    ctx.floor('xcopy.whole_value', 600 * k)
    ctx.floor('xcopy.nested_insert', 600 * k)
    ctx.floor('mut_on_second_object', 3000 * k)
    for how in sorted(set(LOAD_PATHS)): ctx.floor('load_path.' + how, 500 * k)
    ctx.floor('monitor.refetches', 500 * k)


def replay(ctx, witness):
    env = Env(ctx)
    try:
        case = json.loads(witness['case_json']) if 'case_json' in witness else witness['case']
        run = run_one(env, ctx, script=case)
        print('replayed: result=%r' % (run.result,))
        for sess in case['sessions']:
            print('--- session')
            for st in sess: print('   ', describe(st))
    finally:
        env.close()

"""C04 — outer-scope expressions inside a query are evaluated exactly as Python would (engine E6).

Two monitors.
(a) Round trip.  For generated expressions e the real `ast2src(ast.parse(e))` is compiled again and evaluated
    against e on every truth assignment of the free names with tracer values (vlib/exprgen.V: equal value ==
    equal term).  An exception from ast2src / a SyntaxError of its output is loud and accepted.
(b) End to end.  Real queries on an in-memory SQLite database (DB-API recorder attached) whose condition is
    `p.<attr> == (<e>)` with e an expression over caller-scope values only: generator, lambda and string forms,
    written inside generated functions whose names are globals, parameters, locals or closure cells, with decoy
    globals shadowed by locals.  The value Pony binds (query._vars) and the argument that reaches the DB-API
    boundary are compared with the value of e computed in place, in the same function body.

A disagreement is classified as a listed finding only if (1) the source contains that mechanism's shape and
(2) re-rendering with exactly that mechanism repaired (pony's own renderer, the offending sub-tree pre-rendered
and parenthesised / the f-string re-rendered with spec and doubled braces) removes the disagreement.
"""
import ast

META = {
    'level': 'exploration',
    'engine': 'E6+E3',
    'technique': 'runtime monitor: differential evaluation of ast2src output vs source on tracer values; '
                 'query._vars and DB-API arguments vs in-place evaluation in generated caller scopes',
    'level_text': 'Bounded-exhaustive over all operator trees up to a node bound over a precedence-complete operator '
                  'set plus random expressions of the full grammar for the round trip (each decided exactly on all '
                  'truth assignments of <= 4 free names), the same for the trees pony\'s decompiler hands to ast2src, and '
                  'random typed expressions in 10 query forms x generated scope layouts for the end-to-end part. Holds '
                  'only for what was generated.',
    'level_note': 'Trusted: CPython compile/eval, ast.parse/ast.unparse (to write the generated source), the tracer '
                  'algebra, vlib/dbapi.Recorder. The known-finding classification re-renders with pony\'s own renderer, '
                  'so a disagreement with a second cause is still reported.',
    'rule': 'round trip: case = expression source; exhaustive part = every operator tree with <= N nodes (quick N=5) over '
            '{or, and, not, <, |, +, *, unary -, **, .attr, call, [index], if-else, lambda, f-string, f-string with '
            'conversion+spec+literal braces}; random part = 3-26 node expressions of the full grammar (parsed, and as '
            'decompiled lambda bodies when the decompiled tree itself is faithful). end to end: case = '
            '(query form, scope layout, expression source); expression of static type int/str/bool over ints, strings, a '
            'list, a dict, an object and functions of the caller scope. Non-trivial = at least 2 nodes and at least one name.',
    'assumptions': ['expressions without side effects (evaluation count/order is not observed)',
                    'queries are written in the function that calls select()/Entity.select(), or are passed to it with all '
                    'their non-global names bound in their own closure (caller scope and defining scope agree)',
                    'SQLite only'],
    'shims': [],
    'exhaustive_tiers': [],
}
SHARDS = {'quick': 1, 'thorough': 16}
SHARD_TIMEOUT = {'quick': 300, 'thorough': 1500}

M_OPERAND = 'C04-NO-PARENS-IFEXP-LAMBDA-OPERAND'
M_RECV = 'C04-NO-PARENS-COMPOUND-RECEIVER'
M_SPEC = 'C04-FSTRING-FORMAT-SPEC-DROPPED'
M_BRACE = 'C04-FSTRING-LITERAL-BRACES-UNDOUBLED'
M_LEADBRACE = 'C04-FSTRING-LEADING-BRACE'
M_LAMARGS = 'C04-LAMBDA-SPECIAL-PARAMS-DROPPED'
M_GENKW = 'C04-CALL-GENEXP-DROPS-KEYWORDS'
M_TUPLE1 = 'C04-SUBSCRIPT-SINGLETON-TUPLE'
M_BAREFV = 'C04-SINGLE-FIELD-FSTRING-AFTER-DECOMPILE'
M_NEGPOW = 'C04-NEGATIVE-CONSTANT-POWER-BASE'
ALL_M = (M_NEGPOW, M_OPERAND, M_RECV, M_SPEC, M_BRACE, M_LEADBRACE, M_LAMARGS, M_GENKW, M_TUPLE1, M_BAREFV)

COMPOUND = (ast.BoolOp, ast.BinOp, ast.UnaryOp, ast.Compare, ast.IfExp, ast.Lambda)


# --------------------------------------------------------------------------
# shapes and repairs
# --------------------------------------------------------------------------
def clone(n):
    if isinstance(n, ast.AST):
        new = n.__class__()
        for f in n._fields:
            try: v = getattr(n, f)
            except AttributeError: continue
            setattr(new, f, clone(v))
        return new
    if isinstance(n, list): return [clone(x) for x in n]
    return n


def operand_position(parent, fname):
    """Positions where pony's priority decorator decides about parentheses (and IfExp/Lambda have no priority)."""
    if isinstance(parent, (ast.BoolOp, ast.BinOp, ast.UnaryOp, ast.Compare)): return True
    if isinstance(parent, ast.IfExp) and fname in ('test', 'body'): return True
    return False


def receiver_position(parent, fname):
    return (isinstance(parent, ast.Attribute) and fname == 'value') or \
           (isinstance(parent, ast.Call) and fname == 'func') or \
           (isinstance(parent, ast.Subscript) and fname == 'value')


def _has_literal_brace(js):
    return any(isinstance(v, ast.Constant) and isinstance(v.value, str) and ('{' in v.value or '}' in v.value)
               for v in js.values)


def shapes_present(tree):
    """Mechanisms whose shape occurs in the tree that pony renders (ast.parse of a string query, or the tree its
    decompiler built for a generator/lambda query)."""
    S = set()
    for parent in ast.walk(tree):
        if isinstance(parent, ast.Subscript) and isinstance(parent.slice, ast.Tuple) and len(parent.slice.elts) == 1:
            S.add(M_TUPLE1)
        for fname, val in ast.iter_fields(parent):
            kids = val if isinstance(val, list) else [val]
            for ch in kids:
                if not isinstance(ch, ast.AST): continue
                if isinstance(ch, (ast.IfExp, ast.Lambda)) and operand_position(parent, fname): S.add(M_OPERAND)
                if receiver_position(parent, fname) and needs_receiver_parens(parent, ch): S.add(M_RECV)
                if negative_constant_pow_base(parent, fname, ch): S.add(M_NEGPOW)
                # f'{x}' with one field and no literal text is compiled without BUILD_STRING, so pony's
                # decompiler yields a FormattedValue that is not inside a JoinedStr
                if isinstance(ch, ast.FormattedValue) and not isinstance(parent, ast.JoinedStr): S.add(M_BAREFV)
        if isinstance(parent, ast.JoinedStr) and _has_literal_brace(parent): S.add(M_BRACE)
        if isinstance(parent, ast.FormattedValue):
            if getattr(parent, 'format_spec', None) is not None: S.add(M_SPEC)
            if _leftmost_is_brace(parent.value): S.add(M_LEADBRACE)
        if isinstance(parent, ast.Lambda) and (parent.args.posonlyargs or parent.args.kwonlyargs): S.add(M_LAMARGS)
        if isinstance(parent, ast.Call) and len(parent.args) == 1 and isinstance(parent.args[0], ast.GeneratorExp) \
                and parent.keywords: S.add(M_GENKW)
    if isinstance(tree, ast.FormattedValue): S.add(M_BAREFV)
    return S


def negative_constant_pow_base(parent, fname, ch):
    """`(-2) ** x` after constant folding (only trees from the decompiler contain negative number constants)."""
    return isinstance(parent, ast.BinOp) and isinstance(parent.op, ast.Pow) and fname == 'left' and \
        isinstance(ch, ast.Constant) and type(ch.value) in (int, float) and repr(ch.value).startswith('-')


def needs_receiver_parens(parent, ch):
    if isinstance(ch, COMPOUND): return True
    # `1 .real`: a number literal as attribute receiver also needs parentheses (pony's text is then a SyntaxError)
    return isinstance(parent, ast.Attribute) and isinstance(ch, ast.Constant) and \
        type(ch.value) in (int, float, complex)


def _leftmost_is_brace(n):
    """Does the rendered text of n start with `{` (dict/set display at the far left)?"""
    while True:
        if isinstance(n, (ast.Dict, ast.Set, ast.DictComp, ast.SetComp)): return True
        if isinstance(n, (ast.Attribute, ast.Subscript)): n = n.value
        elif isinstance(n, ast.Call): n = n.func
        elif isinstance(n, ast.BinOp): n = n.left
        elif isinstance(n, ast.Compare): n = n.left
        elif isinstance(n, ast.BoolOp): n = n.values[0]
        elif isinstance(n, ast.IfExp): n = n.body
        else: return False


def _atom(text, lambda_like=False):
    """A pre-rendered sub-expression handed to pony's renderer as a Name (rendered verbatim, priority 1)."""
    n = ast.Name(id=text, ctx=ast.Load())
    n.lambda_like = lambda_like
    return n


def _lit(text):
    """Literal part of an f-string body, escaped for a single-quoted f'...' literal."""
    return text.encode('unicode_escape').decode('ascii').replace("'", "\\'")


def render_repaired(tree, M, ast2src):
    """Pony's rendering of (a copy of) `tree` with exactly the mechanisms in M repaired.  Raises whatever
    ast2src raises."""
    tree = clone(tree)

    def paren(n):
        return _atom('(%s)' % ast2src(n))

    def fstring_text(js, top=True):
        # like pony's postJoinedStr, with the selected defects repaired; literal parts are escaped one by one
        # (pony's "f%r" of the whole body breaks when the body needs both kinds of quotes - that only makes
        # pony's own text a SyntaxError, i.e. loud)
        out = []
        for v in js.values:
            if isinstance(v, ast.Constant):
                t = v.value
                if M_BRACE in M: t = t.replace('{', '{{').replace('}', '}}')
                out.append(_lit(t))
            else:
                src = ast2src(v.value)
                if M_LEADBRACE in M and src.startswith('{'): src = ' ' + src
                t = '{' + src
                if v.conversion != -1: t += '!' + chr(v.conversion)
                spec = getattr(v, 'format_spec', None)
                if M_SPEC in M and spec is not None: t += ':' + spec_text(spec)
                out.append(t + '}')
        s = ''.join(out)
        return "f'%s'" % s if top else s

    def spec_text(spec):
        # ast.parse gives a JoinedStr; pony's decompiler leaves whatever was on the stack: a str Constant,
        # a JoinedStr (BUILD_STRING) or a single FormattedValue
        if isinstance(spec, ast.JoinedStr): return fstring_text(spec, False)
        if isinstance(spec, ast.Constant) and isinstance(spec.value, str):
            return fstring_text(ast.JoinedStr(values=[spec]), False)
        if isinstance(spec, ast.FormattedValue): return fstring_text(ast.JoinedStr(values=[spec]), False)
        return '{' + ast2src(spec) + '}'

    def go(n, is_spec=False):
        for fname, val in list(ast.iter_fields(n)):
            if isinstance(val, ast.AST):
                setattr(n, fname, go_child(n, fname, val))
            elif isinstance(val, list):
                val[:] = [go_child(n, fname, v) if isinstance(v, ast.AST) else v for v in val]
        if isinstance(n, ast.JoinedStr) and not is_spec and M:
            return _atom(fstring_text(n))     # same text as postJoinedStr up to quoting, selected defects repaired
        if isinstance(n, ast.Subscript) and M_TUPLE1 in M and isinstance(n.slice, ast.Tuple) and len(n.slice.elts) == 1:
            n.slice = _atom(ast2src(n.slice.elts[0]) + ',')
        if isinstance(n, ast.Lambda) and M_LAMARGS in M and (n.args.posonlyargs or n.args.kwonlyargs):
            a = n.args
            a.defaults = [_atom(ast2src(d)) for d in a.defaults]
            a.kw_defaults = [None if d is None else _atom(ast2src(d)) for d in a.kw_defaults]
            return _atom('lambda %s: %s' % (ast.unparse(a), ast2src(n.body)), lambda_like=True)
        if isinstance(n, ast.Call) and M_GENKW in M and len(n.args) == 1 and isinstance(n.args[0], ast.GeneratorExp) \
                and n.keywords:
            parts = [ast2src(n.args[0])] + [ast2src(k) for k in n.keywords]
            return _atom('%s(%s)' % (ast2src(n.func), ', '.join(parts)))
        return n

    def go_child(parent, fname, ch):
        if isinstance(parent, ast.FormattedValue) and fname == 'format_spec':
            return go(ch, is_spec=True)            # rendered by fstring_text of the enclosing f-string
        if isinstance(ch, ast.FormattedValue) and not isinstance(parent, ast.JoinedStr) and M_BAREFV in M:
            ch = ast.JoinedStr(values=[ch])        # what the source said: a one-field f-string
        if M_NEGPOW in M and negative_constant_pow_base(parent, fname, ch): return paren(ch)
        ch = go(ch)
        lam = isinstance(ch, (ast.IfExp, ast.Lambda)) or getattr(ch, 'lambda_like', False)
        if M_OPERAND in M and lam and operand_position(parent, fname): return paren(ch)
        if M_RECV in M and receiver_position(parent, fname) and \
                (needs_receiver_parens(parent, ch) or getattr(ch, 'lambda_like', False)):
            return paren(ch)
        return ch

    if isinstance(tree, ast.FormattedValue) and M_BAREFV in M: tree = ast.JoinedStr(values=[tree])
    return ast2src(go(tree))


# --------------------------------------------------------------------------
# (a) round trip on tracer values
# --------------------------------------------------------------------------
def tracer_results(G, code, names):
    out = []
    for i, asg in enumerate(G.assignments(names)):
        G.set_salt(i)
        env = G.make_env(dict(dict.fromkeys(G.NAMES, True), **asg))
        out.append(G.run(lambda: eval(code, env)))
    return out


def explain(ctx, S, agrees, witness, where):
    """Deviation-style classification of a disagreement.  S: shapes present; agrees(M) -> bool tells whether the
    rendering with the mechanisms M repaired reproduces Python's value."""
    if not S or not agrees(frozenset(S)):
        ctx.violation(dict(witness, shapes=sorted(S)), mechanism=where + '-unexplained')
        return
    needed = [m for m in sorted(S) if not agrees(frozenset(S - {m}))]
    if not needed: needed = sorted(S)
    for m in needed:
        ctx.count('known.' + where + '.' + m)
        ctx.finding(m, dict(witness, explained_by=needed))


def round_trip_case(ctx, G, ast2src, e, origin):
    try:
        tree = ast.parse(e, mode='eval').body
        code0 = compile(e, '<c04-src>', 'eval')
    except (SyntaxError, ValueError, RecursionError, MemoryError):
        ctx.count('rt.unsupported_source'); return
    names = G.free_names(tree, G.NAMES)
    nontrivial = G.count_nodes(tree) >= 2 and bool(names)
    ctx.case(['rt', e], nontrivial=nontrivial, sample={'round_trip': e} if ctx.evaluations % 2999 == 0 else None)
    ctx.count('rt.cases.' + origin)
    try:
        src2 = ast2src(ast.parse(e, mode='eval').body)
    except RecursionError:
        ctx.count('rt.outcome.unsupported'); return
    except Exception as ex:
        ctx.count('rt.outcome.loud'); ctx.count('rt.loud.' + type(ex).__name__); return
    try:
        code2 = compile(src2, '<c04-pony>', 'eval')
    except (SyntaxError, ValueError) as ex:
        ctx.count('rt.outcome.loud'); ctx.count('rt.loud.compile_' + type(ex).__name__); return
    r0 = tracer_results(G, code0, names)
    r2 = tracer_results(G, code2, names)
    ctx.count('rt.environments', len(r0))
    if r0 == r2:
        ctx.count('rt.outcome.agree')
        if all(r[0] == 'EXC' for r in r0): ctx.count('rt.agree_but_source_always_raises')
        return
    ctx.count('rt.outcome.disagree')

    def agrees(M):
        try:
            text = render_repaired(tree, set(M), ast2src)
            return tracer_results(G, compile(text, '<c04-repaired>', 'eval'), names) == r0
        except RecursionError: raise
        except Exception:
            return False
    i = next(k for k in range(len(r0)) if r0[k] != r2[k])
    witness = {'part': 'round_trip', 'e': e, 'pony_renders': src2, 'python_value': repr(r0[i])[:300],
               'rendered_value': repr(r2[i])[:300]}
    explain(ctx, shapes_present(tree), agrees, witness, 'rt')


def decompiled_round_trip_case(ctx, G, decompile, ast2src, e):
    """ast2src applied to the tree pony's decompiler produces for `lambda a, b, c, d: e` (what happens to every
    generator/lambda query).  Judged only when the decompiled tree itself is faithful (otherwise it is C03's case)."""
    try:
        tree0 = ast.parse(e, mode='eval').body
        code0 = compile(e, '<c04-src>', 'eval')
        fn = eval(compile('lambda a, b, c, d: (%s)' % e, '<c04-lambda>', 'eval'), {})
    except (SyntaxError, ValueError, RecursionError, MemoryError):
        return
    names = G.free_names(tree0, G.NAMES)
    ctx.case(['rtd', e], nontrivial=G.count_nodes(tree0) >= 2 and bool(names))
    ctx.count('rtd.cases')
    try:
        tree = clone(decompile(fn)[0])
        dtree = clone(tree)                      # pristine copy (ast2src annotates the tree it renders)
        code_t = compile(ast.fix_missing_locations(ast.Expression(body=clone(tree))), '<c04-dec>', 'eval')
    except RecursionError:
        return
    except Exception:
        ctx.count('rtd.outcome.decompile_loud_or_malformed'); return
    r0 = tracer_results(G, code0, names)
    if tracer_results(G, code_t, names) != r0:
        ctx.count('rtd.outcome.skipped_decompile_not_faithful_C03'); return
    try:
        src2 = ast2src(tree)
        code2 = compile(src2, '<c04-pony>', 'eval')
    except RecursionError:
        return
    except Exception as ex:
        ctx.count('rtd.outcome.loud'); ctx.count('rtd.loud.' + type(ex).__name__); return
    r2 = tracer_results(G, code2, names)
    ctx.count('rtd.environments', len(r0))
    if r0 == r2:
        ctx.count('rtd.outcome.agree'); return
    ctx.count('rtd.outcome.disagree')

    def agrees(M):
        try:
            text = render_repaired(dtree, set(M), ast2src)
            return tracer_results(G, compile(text, '<c04-repaired>', 'eval'), names) == r0
        except RecursionError: raise
        except Exception:
            return False
    i = next(k for k in range(len(r0)) if r0[k] != r2[k])
    witness = {'part': 'round_trip_decompiled', 'e': e, 'pony_renders': src2, 'python_value': repr(r0[i])[:300],
               'rendered_value': repr(r2[i])[:300]}
    explain(ctx, shapes_present(dtree), agrees, witness, 'rtd')


RT_OPS = ('or', 'and', 'not', 'lt', 'bitor', 'add', 'mul', 'neg', 'pow', 'attr', 'call', 'index', 'ifexp', 'lam0',
          'fstr', 'fspec')
RT_OPS_EXT = RT_OPS + ('inv', 'slice', 'starcall', 'kwcall', 'tuple2', 'chain', 'isnone', 'in', 'sub', 'eq')


# --------------------------------------------------------------------------
# (b) end to end
# --------------------------------------------------------------------------
class Obj(object):
    def __init__(self, v, w, child=None):
        self.v, self.w, self.child = v, w, child
    def m(self, x, y=1):
        return x * 2 + y + self.v


def make_fn(k):
    def fn(x, y=1, *rest, **kw):
        return x * 3 - y + k + len(rest) + len(kw)
    return fn


def make_values(rng, decoy=False):
    off = 1000 if decoy else 0
    vals = {'a': rng.choice((0, 1, 2, 3, 4)) + off, 'b': rng.choice((1, 2, 5, 7)) + off,
            'c': rng.choice((0, 2, 3, 6)) + off, 'd': rng.choice((1, 3, 4, 9)) + off,
            's': rng.choice(('ab', 'Xy', ' q ', '')) + ('#' if decoy else ''),
            't': rng.choice(('t', 'zz', 'Q')) + ('#' if decoy else ''),
            'xs': [rng.choice((0, 1, 2, 3)) + off, rng.choice((2, 4, 5)) + off, rng.choice((1, 7)) + off],
            'dd': {'k1': rng.choice((1, 2, 3)) + off, 'k2': rng.choice((0, 4, 5)) + off},
            'o': Obj(rng.choice((1, 2, 3)) + off, 'w%d' % off, Obj(rng.choice((0, 1, 5)) + off, 'cw')),
            'fn': make_fn(off)}
    return vals


E2E_NAMES = ('a', 'b', 'c', 'd', 's', 't', 'xs', 'dd', 'o', 'fn')
FORMS_E2E = ('gen', 'gen_module', 'str_frame', 'str_explicit', 'lam', 'lam_str', 'filter_lam', 'gen_nested',
             'gen_passed', 'lam_passed')
DECOMPILED_FORMS = ('gen', 'gen_module', 'lam', 'filter_lam', 'gen_nested', 'gen_passed', 'lam_passed')
ATTR = {'int': 'n', 'str': 's', 'bool': 'flag'}


def build_case(rng, form, typ, e, used):
    """Returns (run, scope_desc, eff): run(select, Person) -> (query, expected); eff = effective name -> value."""
    vals = make_values(rng)
    decoys = make_values(rng, decoy=True)
    cond = 'p.%s == (%s)' % (ATTR[typ], e)
    gen_q = 'p for p in Person if ' + cond
    lam_q = 'lambda p: ' + cond
    query = {'gen_passed': None, 'lam_passed': None, 'gen': 'select(%s)' % gen_q, 'gen_module': 'select(%s)' % gen_q, 'gen_nested': 'select(%s)' % gen_q,
             'str_frame': 'select(%r)' % gen_q, 'str_explicit': None,
             'lam': 'Person.select(%s)' % lam_q, 'lam_str': 'Person.select(%r)' % lam_q,
             'filter_lam': 'select(p for p in Person).filter(%s)' % lam_q}[form]
    layout = {}
    if form == 'str_explicit':
        G_, L_ = {}, {}
        for n in used:
            k = rng.choice(('G', 'L', 'both'))
            layout[n] = k
            if k in ('G', 'both'): G_[n] = decoys[n] if k == 'both' else vals[n]
            if k in ('L', 'both'): L_[n] = vals[n]
        eff = dict(G_); eff.update(L_)

        person_in_globals = rng.random() < 0.5

        def run(select, Person):
            if person_in_globals: G_['Person'] = Person
            else: L_['Person'] = Person
            q = select(gen_q, G_, L_)
            return q, eval(e, dict(G_), dict(L_))
        return run, layout, eff
    if form == 'gen_module':
        ns = {n: vals[n] for n in used}
        text = 'q = %s\nexpected = (%s)\n' % (query, e)
        code = compile(text, '<c04-module>', 'exec')

        def run(select, Person):
            ns['select'] = select; ns['Person'] = Person
            exec(code, ns)
            return ns['q'], ns['expected']
        return run, {n: 'global' for n in used}, dict(ns)
    if form in ('gen_passed', 'lam_passed'):
        # the generator / lambda is created in one function (its names are that function's parameters, i.e. closure
        # cells of the query) and handed to another function that calls select(); that function has locals of the
        # same names holding decoys.  Names the query reads as globals get no decoy local (Pony documents that it
        # looks into the calling frame first; Python would not - outside what the property states).
        for n in used: layout[n] = rng.choice(('cell', 'cell', 'global'))
        cells = [n for n in used if layout[n] == 'cell']
        shadow = [n for n in cells if rng.random() < 0.7]
        ns = {n: vals[n] for n in used if layout[n] == 'global'}
        ns['_vals'] = vals; ns['_decoys'] = decoys
        made = '(%s)' % gen_q if form == 'gen_passed' else lam_q
        use = 'select(x)' if form == 'gen_passed' else 'Person.select(x)'
        lines = ['def definer(%s):' % ', '.join(cells),
                 '    x = %s' % made,
                 '    expected = (%s)' % e,
                 '    return x, expected',
                 'def user(x%s):' % ''.join(', ' + n for n in shadow),
                 '    return %s' % use,
                 'def outer():',
                 '    x, expected = definer(%s)' % ', '.join('_vals[%r]' % n for n in cells),
                 '    return user(x%s), expected' % ''.join(', _decoys[%r]' % n for n in shadow)]
        exec(compile('\n'.join(lines) + '\n', '<c04-passed>', 'exec'), ns)
        outer = ns['outer']

        def run(select, Person):
            ns['select'] = select; ns['Person'] = Person
            return outer()
        layout = {n: ('closure_of_query' + ('+decoy_local_in_calling_frame' if n in shadow else ''))
                  if layout[n] == 'cell' else 'global' for n in used}
        return run, layout, {n: vals[n] for n in used}
    # function forms
    kinds = ('global', 'param', 'local', 'cell') if form != 'gen_nested' else ('cell', 'cell', 'local', 'global', 'param')
    for n in used: layout[n] = rng.choice(kinds)
    shadow = {n for n in used if layout[n] != 'global' and rng.random() < 0.6}
    ns = {}
    for n in used:
        if layout[n] == 'global': ns[n] = vals[n]
        elif n in shadow: ns[n] = decoys[n]           # decoy global shadowed by the local/param/cell binding
    ns['_vals'] = vals
    cells = [n for n in used if layout[n] == 'cell']
    params = [n for n in used if layout[n] == 'param']
    local = [n for n in used if layout[n] == 'local']
    lines = ['def outer():']
    for n in cells: lines.append('    %s = _vals[%r]' % (n, n))
    lines.append('    def caller(%s):' % ', '.join(params))
    for n in local: lines.append('        %s = _vals[%r]' % (n, n))
    lines.append('        q = %s' % query)
    lines.append('        expected = (%s)' % e)
    lines.append('        return q, expected')
    lines.append('    return caller(%s)' % ', '.join('_vals[%r]' % n for n in params))
    code = compile('\n'.join(lines) + '\n', '<c04-caller>', 'exec')
    exec(code, ns)
    outer = ns['outer']
    eff = {n: vals[n] for n in used}
    layout = {n: layout[n] + ('+decoy_global' if n in shadow else '') for n in used}
    def run(select, Person):
        ns['select'] = select; ns['Person'] = Person       # module-level names of the generated module
        return outer()
    return run, layout, eff


def same_value(x, y):
    if type(x) is not type(y):
        if isinstance(x, (list, tuple)) and isinstance(y, (list, tuple)): return list(x) == list(y)
        return False
    if isinstance(x, float) and x != x: return y != y
    return x == y


def e2e_case(ctx, G, P, rng, idx, forced=None):
    typ = rng.choice(('int', 'int', 'int', 'str', 'str', 'bool'))
    form = FORMS_E2E[idx % len(FORMS_E2E)]
    decompiled = form in DECOMPILED_FORMS
    # generator/lambda queries go through the decompiler first; shapes that C03 lists as decompiled wrongly or
    # rejected (conditional expressions, and/or used as a value inside a generator `if`, chained comparisons) are
    # left to C03 and only generated for the string forms
    lam = form in ('lam', 'filter_lam', 'lam_passed')
    e, tree = G.typed_source(rng, typ, rng.randint(2, 14), ifexp=not decompiled, boolop=(not decompiled) or lam,
                             chain=not decompiled)
    if forced:
        typ, e = forced
        tree = ast.parse(e, mode='eval').body
    used = [n for n in E2E_NAMES if n in G.loaded_names(tree)]
    if not used:
        ctx.count('e2e.skipped_no_names'); return
    try:
        run, layout, eff = build_case(rng, form, typ, e, used)
    except (SyntaxError, ValueError, RecursionError):
        ctx.count('e2e.unsupported_source'); return
    # reference: Python's value of e in the effective scope (no_reference if Python itself raises)
    try:
        ref = eval(compile(e, '<c04-ref>', 'eval'), dict(eff))
    except RecursionError: raise
    except Exception as ex:
        ctx.count('e2e.outcome.no_reference'); ctx.count('e2e.no_reference.' + type(ex).__name__); return
    if type(ref) not in (int, str, bool) or (type(ref) is int and abs(ref) >= 2 ** 62):
        ctx.count('e2e.outcome.unsupported_value_type'); return
    nontrivial = G.count_nodes(tree) >= 2
    ctx.case(['e2e', form, sorted(layout.items()), e], nontrivial=nontrivial,
             sample={'end_to_end': form, 'scope': layout, 'e': e} if ctx.evaluations % 499 == 0 else None)
    ctx.count('e2e.form.' + form)
    for n, k in layout.items(): ctx.count('e2e.binding.' + k.replace('+', '_'))
    orm = P['orm']
    rec = P['rec']
    with orm.db_session:
        mark = rec.mark()
        try:
            q, expected = run(orm.select, P['Person'])
        except RecursionError: raise
        except Exception as ex:
            ctx.count('e2e.outcome.loud'); ctx.count('e2e.loud.' + type(ex).__name__)
            smp = ctx.extra.setdefault('e2e_loud_samples', {})
            if type(ex).__name__ not in smp:
                smp[type(ex).__name__] = {'form': form, 'e': e, 'error': str(ex)[:200]}
            return
        if not same_value(expected, ref):
            if any(isinstance(x, (ast.Lambda, ast.GeneratorExp)) for x in ast.walk(tree)):
                # a nested function inside eval(e, G, L) sees only G (Python's rule), so the flat effective scope
                # is not a reference for this expression; skipped
                ctx.count('e2e.outcome.skipped_nested_scope_in_explicit_dicts')
                return
            # the generated scope does not give e the intended value: harness problem, never pony's fault
            ctx.count('e2e.outcome.harness_scope_mismatch')
            ctx.inconclusive.append('C04 harness: in-place value %r != effective-scope value %r for %s' % (expected, ref, e))
            return
        extras = [(k, v) for k, v in q._vars.items() if not isinstance(v, orm.core.EntityMeta)]
        try:
            rows = q[:]
        except RecursionError: raise
        except Exception as ex:
            ctx.count('e2e.outcome.loud'); ctx.count('e2e.loud_at_execute.' + type(ex).__name__)
            return
        stmts = [s for s in rec.statements(since=mark) if s['sql'].lstrip().upper().startswith('SELECT')]
    ctx.count('e2e.queries_executed')
    if len(extras) != 1 or not stmts:
        ctx.count('e2e.outcome.split_or_folded')         # pony cut e into several parameters / none: not comparable here
        return
    var_key, bound = extras[0]
    pony_src = var_key[1]
    args = stmts[-1]['args']
    args = list(args.values()) if isinstance(args, dict) else list(args or ())
    ctx.count('e2e.vars_compared')
    ok_var = same_value(bound, expected)
    ok_arg = len(args) == 1 and args[0] == expected and (type(args[0]) is type(expected) or isinstance(expected, bool))
    if len(args) == 1: ctx.count('e2e.boundary_args_compared')
    want_ids = sorted(r[0] for r in P['rows'] if same_value(r[P['col'][typ]], expected))
    ok_rows = sorted(o.id for o in rows) == want_ids
    if want_ids: ctx.count('e2e.nonempty_results')
    if ok_var and ok_arg and ok_rows:
        ctx.count('e2e.outcome.agree')
        return
    ctx.count('e2e.outcome.disagree')
    witness = {'part': 'end_to_end', 'form': form, 'type': typ, 'scope': layout, 'e': e, 'pony_src': pony_src,
               'python_value': repr(expected), 'pony_bound': repr(bound), 'dbapi_args': repr(args)[:200],
               'rows_ok': ok_rows}
    ast2src = P['ast2src']

    def value_of(text):
        return eval(compile(text, '<c04-e2e>', 'eval'), dict(eff))

    actual = actual_subtree(P, var_key) or tree        # the tree pony rendered for this parameter

    def agrees(M):
        try: return same_value(value_of(render_repaired(actual, set(M), ast2src)), expected)
        except RecursionError: raise
        except Exception: return False
    # the wrong value must be what pony's own text evaluates to in that scope, else the cause is elsewhere
    try: faithful = same_value(value_of(pony_src), bound) and len(args) == 1 and args[0] == bound
    except Exception: faithful = False
    if not faithful:
        ctx.violation(witness, mechanism='e2e-value-not-from-rendered-text'); return
    explain(ctx, shapes_present(actual), agrees, witness, 'e2e')


def actual_subtree(P, var_key):
    """The sub-tree pony rendered for the parameter: right operand of the `p.attr == (...)` condition in the
    query tree (parsed from the query string, or rebuilt by pony's decompiler from the code object)."""
    code_key = var_key[2]
    try:
        if isinstance(code_key, str):
            t = ast.parse('(%s)' % code_key, mode='eval').body
        else:
            t = clone(P['decompile'](P['codeobjects'][code_key])[0])
        if isinstance(t, ast.GeneratorExp): t = t.generators[0].ifs[-1]
        elif isinstance(t, ast.Lambda): t = t.body
        if isinstance(t, ast.Compare) and len(t.comparators) == 1: return t.comparators[0]
    except Exception:
        pass
    return None


def setup_db(ctx):
    from pony import orm
    from pony.orm.asttranslation import ast2src
    from pony.orm.decompiling import decompile
    import pony.utils.utils as pony_utils
    from vlib.dbapi import Recorder
    rec = Recorder()
    db = orm.Database()

    class Person(db.Entity):
        n = orm.Required(int, size=64)
        s = orm.Required(str, autostrip=False)
        flag = orm.Required(bool)
    db.bind('sqlite', ':memory:', factory=rec.factory())
    db.generate_mapping(create_tables=True)
    rows = []
    strs = ['ab', 'Xy', ' q ', 't', 'zz', 'Q', 'x', 'AB', 'XY', 'ab-ab', '3', '{}', 'w0', 'cw', 'abab', 'T']
    with orm.db_session:
        for i in range(40):
            n = i - 8
            s = strs[i % len(strs)]
            p = Person(n=n, s=s, flag=bool(i % 3 == 0))
        orm.flush()
        for p in Person.select().order_by(Person.id): rows.append((p.id, p.n, p.s, p.flag))
    return {'orm': orm, 'db': db, 'Person': Person, 'rec': rec, 'rows': rows, 'col': {'int': 1, 'str': 2, 'bool': 3},
            'ast2src': ast2src, 'decompile': decompile, 'codeobjects': pony_utils.codeobjects}


# --------------------------------------------------------------------------
def plan(tier):
    if tier == 'quick':
        return dict(rt_n=5, rt_ext_n=3, rt_random=20000, rt_decompiled=5000, e2e=2400)
    return dict(rt_n=6, rt_ext_n=4, rt_random=160000, rt_decompiled=40000, e2e=40000)


def run(ctx):
    import warnings
    warnings.simplefilter('ignore', SyntaxWarning)
    from vlib import exprgen as G
    from pony.orm.asttranslation import ast2src
    p = plan(ctx.tier)
    idx = 0
    seen = set()
    for ops, bound, origin in ((RT_OPS, p['rt_n'], 'exhaustive'), (RT_OPS_EXT, p['rt_ext_n'], 'exhaustive_extended')):
        for n in range(1, bound + 1):
            for sh in G.enum_shapes(n, ops):
                idx += 1
                if idx % ctx.nshards != ctx.shard: continue
                e = G.instantiate(sh)
                if e in seen: continue
                seen.add(e)
                round_trip_case(ctx, G, ast2src, e, origin)
    rng = ctx.rng
    opts = G.Opts(lambda_extras=True)
    for i in range(p['rt_random'] // ctx.nshards):
        o = opts
        x = rng.random()
        if x < 0.25: o = opts.but(fstring=False, lambdas=False, genexp=False, containers=False)
        elif x < 0.4: o = opts.but(star=False, sets=False, matmul=False)
        if rng.random() < 0.5: o = o.but(consts=False)
        e, tree = G.rand_source(rng, rng.randint(3, 26), o)
        round_trip_case(ctx, G, ast2src, e, 'random')
    for i in range(p['rt_random'] // ctx.nshards // 6):
        typ = rng.choice(('int', 'str', 'bool'))
        e, tree = G.typed_source(rng, typ, rng.randint(3, 16))
        round_trip_case(ctx, G, ast2src, e, 'random_typed')
    from pony.orm.decompiling import decompile
    o_dec = G.Opts(ifexp=False, star=False, lambda_extras=False)
    for i in range(p['rt_decompiled'] // ctx.nshards):
        if i % 3 == 0:
            e, tree = G.typed_source(rng, rng.choice(('int', 'str', 'bool')), rng.randint(3, 14), ifexp=False)
        else:
            e, tree = G.rand_source(rng, rng.randint(3, 20), o_dec.but(consts=rng.random() < 0.5))
        decompiled_round_trip_case(ctx, G, decompile, ast2src, e)
    ctx.extra['round_trip_bounds'] = {'exhaustive_nodes': p['rt_n'], 'operator_set': list(RT_OPS),
                                      'extended_nodes': p['rt_ext_n'], 'extended_operator_set': list(RT_OPS_EXT)}
    P = setup_db(ctx)
    for i in range(p['e2e'] // ctx.nshards):
        e2e_case(ctx, G, P, rng, i + ctx.shard)
    P['db'].disconnect()
    scale = 1.0 / ctx.nshards
    q = ctx.tier == 'quick'
    ctx.floor('rt.outcome.agree', int((8000 if q else 60000) * scale))
    ctx.floor('rt.environments', int((80000 if q else 600000) * scale))
    ctx.floor('e2e.outcome.agree', int((600 if q else 10000) * scale))
    ctx.floor('e2e.vars_compared', int((700 if q else 12000) * scale))
    ctx.floor('e2e.boundary_args_compared', int((700 if q else 12000) * scale))


def replay(ctx, witness):
    import warnings
    warnings.simplefilter('ignore', SyntaxWarning)
    from vlib import exprgen as G
    from pony.orm.asttranslation import ast2src
    if witness.get('part') == 'round_trip':
        round_trip_case(ctx, G, ast2src, witness['e'], 'replay')
    elif witness.get('part') == 'round_trip_decompiled':
        from pony.orm.decompiling import decompile
        decompiled_round_trip_case(ctx, G, decompile, ast2src, witness['e'])
    else:
        # re-run the expression in every query form with fresh scope layouts
        import random
        P = setup_db(ctx)
        for i in range(4 * len(FORMS_E2E)):
            e2e_case(ctx, G, P, random.Random(i), i, forced=(witness['type'], witness['e']))

"""C07 — stored attribute values read back unchanged for every type.

For every attribute type / declaration option one entity is mapped on a SQLite file (writer Database) and a
second, independently mapped Database on the same file plays the fresh session.  For each generated value the
monitor records: the value the writing session sees after flush() (the property's reference point), the value a
fresh session loads, the value a projection query returns, and whether get(attr=ref) / select(attr=ref) /
select(lambda: attr == ref) find the row.  All must equal the reference (same type and ==).  A second part runs
multi-step write programs on Json/array attributes (assign another attribute first, assign a tracked value read
from another object or attribute, re-assign the own value, mutate in place through either object, flush/commit
in between) and compares every attribute after the final flush with a fresh session and a projection.  A difference is
re-judged with deviation rules (one per known mechanism) and is a finding only if the rule reproduces exactly
what pony returned.  For the providers that cannot execute here the pure codec functions wired into the drivers
are round-tripped directly (stub driver modules under shims/c07_codec_stubs only make the modules importable).
"""

META = {
    'level': 'exploration',
    'engine': '',
    'technique': 'runtime round-trip monitor: value after flush vs fresh-session load vs projection vs parameter lookup, '
                 'per attribute type and option on SQLite; direct codec round trips for MySQL/Oracle/base converters',
    'level_text': 'Generated values across each type domain (curated extremes + seeded random values) are written through '
                  'the real ORM and read back through four independent paths; equality with the post-flush reference is '
                  'checked per value. Bounded sampling of infinite domains: evidence says how many values per type.',
    'level_note': 'Executed on SQLite only; MySQL/Oracle/PostgreSQL storage is not exercised, only the pure conversion '
                  'functions pony installs into those drivers (server text formats are modelled by 5-line formatters). '
                  'NaN has no equality and is skipped (no_reference); -0.0 == 0.0 is not flagged; JSON numbers compare '
                  'by == (1 vs 1.0 not distinguished, as in JSON); Json values are restricted to the JSON data model '
                  '(string keys, lists, finite floats). Loud failures (exception on write or on reload) are counted, '
                  'not flagged (DESIGN section 0). Equality lookups on whole Json values are not supported by pony and '
                  'are recorded only.',
    'rule': 'case = (attribute declaration, value); declarations = bool, int x size{None,8,16,24,32,64} x unsigned, float, '
            'Decimal x (precision,scale), str/LongStr x autostrip x max_len, bytes, date, time/datetime/timedelta x '
            'precision{None,0..6}, UUID, Json, IntArray/StrArray/FloatArray, each Required and/or Optional/nullable; '
            'values = curated extremes of the domain (size limits, +-0.0, subnormals, largest finite, high-scale and '
            'many-digit Decimals, microsecond edges, negative and >24h and huge timedeltas, year 1/999/1000/9999, empty '
            'and long strings/bytes with NUL, quotes, astral characters, nested Json, top-level Json scalars) plus '
            'seeded random values; distinct = distinct (declaration, type, repr(value)); trivial = values pony rejects '
            'at validation or flush (counted, not judged). Multi-step part: write programs over one entity with two '
            'Json, two IntArray, a StrArray, a FloatArray and two scalar attributes, 2-3 objects (loaded / created / '
            'inserted): small-scope exhaustive patterns = value kind x object state x pre-step {none, scalar assignment, '
            'other tracked attribute mutated, flush, scalar+flush, scalar+commit} x source {keep, plain value, tracked value '
            'of the other object, of the twin attribute, of the other object\'s twin attribute, own value re-assigned} x '
            '{no, flush, commit} in between x in-place mutation through {target, source, both, none}, plus seeded random '
            'programs (3-13 steps: scalar/plain/aliasing assignments, dict and list mutators incl. nested paths and '
            'slices, reads, flush, commit); every attribute of every object is compared after the final flush.',
    'assumptions': [
        'reference point is the value the writing session reads after flush(), as the property states',
        'fresh session = a second Database object mapped on the same SQLite file (new connection, new converters)',
        'NaN (float, Decimal, inside arrays) is no_reference; Json restricted to JSON-model values',
        'a raised exception on write or reload is loud and only counted',
        'multi-step programs use only list/dict arguments and plain mutator methods: augmented assignment on aliases and '
        'tuple/generator arguments are C28 findings (C28-ALIAS-AUGASSIGN-UNTRACKED, C28-ITERABLE-ARG-NESTED-UNWRAPPED) '
        'and are left to C28',
    ],
    'shims': ['c07_codec_stubs'],
    'exhaustive_tiers': [],
}
SHARDS = {'quick': 1, 'thorough': 16}
SHARD_TIMEOUT = {'quick': 300, 'thorough': 1500}

import os, sys, json, math, struct, sqlite3, copy
from datetime import date, time, datetime, timedelta
from decimal import Decimal, InvalidOperation
from uuid import UUID

INF, NAN = float('inf'), float('nan')
EVAL_NS = {'datetime': sys.modules['datetime'], 'Decimal': Decimal, 'UUID': UUID, 'inf': INF, 'nan': NAN}


# ----------------------------------------------------------------------------------------------------
# declarations
def specs():
    """list of dicts: name, type, args, kwargs, kind"""
    S = []
    def add(type, kind='Optional', args=(), **kw):
        name = '%s_%s%s%s' % (type, kind[:3], ''.join('_%s' % a for a in args),
                              ''.join('_%s%s' % (k[:4], v) for k, v in sorted(kw.items())))
        S.append({'name': name.replace('-', 'm'), 'type': type, 'kind': kind, 'args': list(args), 'kwargs': kw})
    for k in ('Required', 'Optional'): add('bool', k)
    for size in (None, 8, 16, 24, 32, 64):
        for uns in (False, True):
            kw = {}
            if size: kw['size'] = size
            if uns: kw['unsigned'] = True
            add('int', 'Required', **kw)
    add('int', 'Optional'); add('int', 'Optional', size=64); add('int', 'Optional', size=8, unsigned=True)
    for k in ('Required', 'Optional'): add('float', k)
    add('Decimal', 'Required')
    for ps in ((5, 2), (10, 5), (12, 2), (15, 3), (20, 10), (28, 6), (30, 2), (38, 18)):
        add('Decimal', 'Optional', args=ps)
    add('str', 'Required'); add('str', 'Optional'); add('str', 'Optional', nullable=True)
    add('str', 'Optional', autostrip=False); add('str', 'Required', autostrip=False)
    add('str', 'Optional', args=(10,)); add('str', 'Optional', max_len=40, autostrip=False)
    add('LongStr', 'Optional'); add('LongStr', 'Required', autostrip=False); add('LongStr', 'Optional', nullable=True)
    for k in ('Required', 'Optional'): add('bytes', k)
    for k in ('Required', 'Optional'): add('date', k)
    for t in ('time', 'datetime', 'timedelta'):
        add(t, 'Required')
        add(t, 'Optional')
        for p in range(0, 7): add(t, 'Optional', precision=p)
    for k in ('Required', 'Optional'): add('UUID', k)
    add('Json', 'Optional'); add('Json', 'Required'); add('Json', 'Optional', nullable=True)
    for t in ('IntArray', 'StrArray', 'FloatArray'):
        add(t, 'Optional'); add(t, 'Required'); add(t, 'Optional', nullable=True)
    return S


def pytype(spec):
    from pony.orm import ormtypes
    return {'bool': bool, 'int': int, 'float': float, 'Decimal': Decimal, 'str': str, 'LongStr': ormtypes.LongStr,
            'bytes': bytes, 'date': date, 'time': time, 'datetime': datetime, 'timedelta': timedelta, 'UUID': UUID,
            'Json': ormtypes.Json, 'IntArray': ormtypes.IntArray, 'StrArray': ormtypes.StrArray,
            'FloatArray': ormtypes.FloatArray}[spec['type']]


def define(db, spec_list):
    """one entity per declaration; a declaration pony rejects is detected beforehand by probe_decl()"""
    from pony import orm
    ents = {}
    for s in spec_list:
        cls = orm.Required if s['kind'] == 'Required' else orm.Optional
        attr = cls(pytype(s), *s['args'], **s['kwargs'])
        ents[s['name']] = type('T_' + s['name'], (db.Entity,), {'v': attr})
    return ents


def probe_decl(spec):
    from pony import orm
    db = orm.Database()
    try:
        define(db, [spec])
        db.bind('sqlite', ':memory:')
        db.generate_mapping(create_tables=True)
        return None
    except Exception as e:
        return '%s: %s' % (type(e).__name__, str(e)[:150])
    finally:
        try:
            if db.provider is not None and db.provider.pool.con is not None:
                db.provider.pool.con.close(); db.provider.pool.con = None
        except Exception: pass


# ----------------------------------------------------------------------------------------------------
# value generators
def rand_float(rng):
    while True:
        x = struct.unpack('<d', struct.pack('<Q', rng.getrandbits(64)))[0]
        if x == x and x not in (INF, -INF): return x


def rand_unicode(rng, n):
    out = []
    for _ in range(n):
        r = rng.random()
        if r < 0.4: cp = rng.randrange(0x20, 0x7f)
        elif r < 0.5: cp = rng.randrange(0, 0x20)
        elif r < 0.8: cp = rng.randrange(0x80, 0xd800)
        elif r < 0.9: cp = rng.randrange(0xe000, 0x10000)
        else: cp = rng.randrange(0x10000, 0x110000)
        out.append(chr(cp))
    return ''.join(out)


def rand_json(rng, depth=0):
    r = rng.random()
    if depth >= 4 or r < 0.45:
        k = rng.randrange(8)
        if k == 0: return None
        if k == 1: return rng.random() < 0.5
        if k == 2: return rng.randrange(-10 ** 6, 10 ** 6)
        if k == 3: return rng.choice([2 ** 53 + 1, -2 ** 63, 2 ** 64, 10 ** 25, -10 ** 40])
        if k == 4: return rand_float(rng) if rng.random() < 0.5 else round(rng.uniform(-1000, 1000), rng.randrange(0, 12))
        if k == 5: return rand_unicode(rng, rng.randrange(0, 12))
        if k == 6: return rng.choice(['', 'null', 'true', '1', '1.5', '"', "'", '\\', '\x00', '$.a', '[]', '{}'])
        return rng.randrange(-5, 5) * 0.5
    if r < 0.75:
        return [rand_json(rng, depth + 1) for _ in range(rng.randrange(0, 5))]
    return {rng.choice(['a', 'b', '', 'k.k', 'k"q', 'ü', '0', 'null', rand_unicode(rng, 3)]): rand_json(rng, depth + 1)
            for _ in range(rng.randrange(0, 5))}


def int_range(kw):
    size = kw.get('size') or 32
    if kw.get('unsigned'): return 0, 2 ** size - 1
    return -(2 ** (size - 1)), 2 ** (size - 1) - 1


def values_for(spec, rng, nrand, tier):
    t, kw = spec['type'], spec['kwargs']
    V = []
    if spec['kind'] == 'Optional': V.append(None)
    if t == 'bool':
        V += [True, False]
    elif t == 'int':
        lo, hi = int_range(kw)
        V += [lo, lo + 1, hi - 1, hi, 0, 1, 2, 127, 128, 255, 256, 32767, 32768, 65535, 65536, 2 ** 24 - 1, 2 ** 31 - 1, 2 ** 31,
              2 ** 32 - 1, 2 ** 53, 2 ** 53 + 1, 2 ** 63 - 1]
        if lo < 0: V += [-1, -2, -128, -129, -32768, -32769, -2 ** 31, -2 ** 53 - 1, -2 ** 63]
        V += [rng.randint(lo, hi) for _ in range(nrand)]
        V += [lo + rng.randrange(0, 1000) for _ in range(nrand // 4)] + [hi - rng.randrange(0, 1000) for _ in range(nrand // 4)]
    elif t == 'float':
        V += [0.0, -0.0, 1.0, -1.0, 0.1, 1 / 3, -2 / 3, 1e-7, 123456789.123456789, 5e-324, -5e-324, 2.2250738585072014e-308,
              2.225073858507201e-308, 1.7976931348623157e308, -1.7976931348623157e308, 9007199254740993.0, 2.0 ** 63,
              -2.0 ** 63, 2.0 ** 64, 1e15, 1e16, 1e22, 1e23, 0.30000000000000004, 4.35, 1e-320, math.pi, INF, -INF, NAN, 5, True]
        V += [rand_float(rng) for _ in range(nrand)] + [rng.uniform(-1e6, 1e6) for _ in range(nrand // 2)]
    elif t == 'Decimal':
        p, s = spec['args'] if spec['args'] else (12, 2)
        top = Decimal(10) ** (p - s) - Decimal(10) ** -s
        V += [Decimal(0), Decimal('-0.00'), Decimal('0.01'), Decimal('-0.01'), Decimal(10) ** -s, -(Decimal(10) ** -s), top, -top,
              Decimal(1), Decimal('1E+2'), Decimal('1.5'), Decimal('1.239'), Decimal('1.005'), Decimal('1.015'),
              Decimal('2.5E-%d' % (s + 1)), Decimal('3.5E-%d' % (s + 1)), Decimal('-2.5E-%d' % (s + 1)), Decimal('0.1') ** (s + 2),
              Decimal('123.456789012345678901234567'), Decimal('NaN'), Decimal('Infinity'), 7, 1.1, '2.50', Decimal('0.3'),
              Decimal('1234567890123456789012345678').scaleb(-s)]
        if s >= 10:   # texts SQLite 3.40 converts to a REAL one ulp away from the nearest double
            V += [Decimal('-0.2727985198'), Decimal('72.2158694122'), Decimal('40.7588108321'), Decimal('87.3883924983')]
        for nd in (14, 15, 16, 17, 18, 20, 25, 28):
            if nd <= p:
                digits = ''.join(str((i * 7 + 1) % 10) for i in range(nd))
                V.append(Decimal(digits).scaleb(-s) if nd > s else Decimal('0.' + digits.rjust(s, '0')))
                V.append(-Decimal('9' * nd).scaleb(-s))
        for _ in range(nrand):
            nd = rng.randint(1, p)
            d = Decimal(rng.randrange(10 ** (nd - 1), 10 ** nd)).scaleb(-rng.randint(0, s + (3 if rng.random() < 0.3 else 0)))
            V.append(-d if rng.random() < 0.4 else d)
    elif t in ('str', 'LongStr'):
        V += ['', ' ', 'a', ' a ', '\ta\n', 'a b', "'", '"', "''", '\\', "\\'", '%', '_', '%s', '?', ':1', '$1', 'a\x00b', '\x00',
              '\x00\x00a', 'ü', 'ß', 'İ', 'é', '‮', '﻿', '￿', '\U0001F600', '\U0010FFFF', 'a\U0001F600b',
              ' a ', 'NULL', 'None', 'null', '123', '1e5', ' 1.0', '0x10', '-0', 'true', "'; DROP TABLE x; --",
              'a' * 10, 'a' * 11, 'a' * 40, 'a' * 41, 'a' * 255, 'a' * 256, 'ü' * 300, '\U0001F600' * 100, 'x' * 10000,
              '\r\n', '\x1a', '\x7f', '\x80', '\udc80', 'a\ud800']
        if tier == 'thorough' and t == 'LongStr': V.append('y' * 1000000)
        V += [rand_unicode(rng, rng.choice([1, 2, 5, 10, 40, 200])) for _ in range(nrand)]
    elif t == 'bytes':
        V += [b'', b'\x00', b'\x00\x00\x00', bytes(range(256)), b'\'"\\', b'\xff\xfe', 'ü\U0001F600'.encode('utf8'), b'NULL',
              b'abc', b'a' * 100000, b'\x00' * 1000, b'\x80' * 10, bytearray(b'ba'), memoryview(b'mv')]
        if tier == 'thorough': V.append(bytes(range(256)) * 4000)
        V += [bytes(rng.getrandbits(8) for _ in range(rng.choice([1, 2, 3, 16, 100, 1000]))) for _ in range(nrand)]
    elif t == 'date':
        V += [date.min, date(1, 1, 2), date(9, 9, 9), date(99, 12, 31), date(100, 1, 1), date(999, 12, 31), date(1000, 1, 1),
              date(1582, 10, 4), date(1582, 10, 15), date(1600, 2, 29), date(1900, 2, 28), date(1969, 12, 31), date(1970, 1, 1),
              date(2000, 2, 29), date(2038, 1, 19), date(9999, 12, 31), datetime(2020, 5, 6, 7, 8, 9), '2020-01-02']
        V += [date.fromordinal(rng.randint(1, date.max.toordinal())) for _ in range(nrand)]
        V += [date.fromordinal(rng.randint(1, 365 * 1000)) for _ in range(nrand // 3)]
    elif t == 'time':
        V += [time.min, time.max, time(0, 0, 0, 1), time(23, 59, 59), time(12, 0), time(1, 2, 3), time(1, 2, 3, 456789),
              time(0, 0, 0, 999999), time(0, 0, 0, 500000), time(10, 10, 10, 100000), time(10, 10, 10, 10), time(0, 0, 1),
              time(0, 1), time(9, 59, 59, 999000), '01:02:03']
        V += [time(rng.randrange(24), rng.randrange(60), rng.randrange(60), rng.choice([0, rng.randrange(10 ** 6)]))
              for _ in range(nrand)]
    elif t == 'datetime':
        V += [datetime.min, datetime.max, datetime(1, 1, 1, 0, 0, 0, 1), datetime(9, 9, 9, 9, 9, 9, 9), datetime(99, 1, 1),
              datetime(999, 12, 31, 23, 59, 59, 999999), datetime(1000, 1, 1), datetime(1582, 10, 10, 12), datetime(1900, 1, 1),
              datetime(1969, 12, 31, 23, 59, 59, 999999), datetime(1970, 1, 1), datetime(2000, 2, 29, 23, 59, 59, 500000),
              datetime(2038, 1, 19, 3, 14, 8), datetime(2021, 3, 28, 2, 30), datetime(2020, 1, 2, 3, 4, 5, 678912),
              datetime(2020, 1, 2, 3, 4, 5, 100000), datetime(2020, 1, 2, 3, 4, 5, 10), '2020-01-02 03:04:05.5']
        for _ in range(nrand):
            d = datetime.min + timedelta(days=rng.randint(0, date.max.toordinal() - 1), seconds=rng.randrange(86400),
                                         microseconds=rng.choice([0, rng.randrange(10 ** 6)]))
            V.append(d)
    elif t == 'timedelta':
        V += [timedelta(0), timedelta(microseconds=1), timedelta(microseconds=-1), timedelta(microseconds=999999),
              timedelta(seconds=1), timedelta(seconds=-1), timedelta(seconds=86399, microseconds=999999), timedelta(days=1),
              timedelta(days=-1), timedelta(days=1, microseconds=1), timedelta(hours=25), timedelta(hours=-25, microseconds=3),
              timedelta(days=100), timedelta(days=-100, microseconds=1), timedelta(hours=838, minutes=59, seconds=59),
              timedelta(days=10000, microseconds=1), timedelta(days=40000, microseconds=999999),
              timedelta(days=100000, microseconds=1), timedelta(days=10 ** 6, seconds=1, microseconds=1),
              timedelta(days=10 ** 8, microseconds=1), timedelta(days=999999998, microseconds=1), timedelta.max, timedelta.min,
              timedelta(days=999999999), timedelta(microseconds=500000), timedelta(milliseconds=1), '1:02:03.5']
        for _ in range(nrand):
            mag = rng.choice([0, 0, 1, 30, 400, 40000, 10 ** 6, 10 ** 8])
            d = timedelta(days=rng.randint(0, mag), seconds=rng.randrange(86400), microseconds=rng.choice([0, rng.randrange(10 ** 6)]))
            V.append(-d if rng.random() < 0.4 else d)
    elif t == 'UUID':
        V += [UUID(int=0), UUID(int=2 ** 128 - 1), UUID(int=1), UUID(bytes=b'abcdefghijklmnop'), UUID(bytes=b'\x00' * 15 + b'\x01'),
              UUID(bytes=b"'" * 16), UUID('12345678-1234-5678-1234-567812345678'), '12345678123456781234567812345678']
        V += [UUID(int=rng.getrandbits(128)) for _ in range(nrand)]
    elif t == 'Json':
        V += [{}, [], {'a': 1}, [1, 2, 3], {'a': [1, 2, {'b': None}], 'c': {'d': {'e': [[], {}]}}}, [[[[[[1]]]]]], {'': ''},
              {'k.k': 1, 'k"q': 2, "k'q": 3, 'ü': 'ü', '\U0001F600': '\U0001F600'}, ['\x00', '\\', '"', "'", '\n', ' '],
              {'big': 2 ** 70, 'neg': -2 ** 70, 'f': 0.1, 'e': 1e300, 'sub': 5e-324, 't': True, 'n': None, 'z': -0.0},
              [1.0, 2.5, 1e22, 1e23, 0.30000000000000004], {'b': 1, 'a': 2, 'B': 3, 'aa': 4},
              0, 1, -1, 1.0, -0.0, 1.5, 0.1, 1e300, 5e-324, 2 ** 53, 2 ** 53 + 1, 2 ** 63 - 1, 2 ** 63, 2 ** 64, 10 ** 30, -10 ** 30,
              12345678901234567890123, 0.12345678901234568, 123456789.12345679, 1e22, 1e23, 9007199254740993.0,
              'abc', '', '123', '1.5', 'true', 'null', '"', '[1]', '{"a":1}', 'ü', True, False,
              list(range(1000)), {'k%d' % i: i for i in range(300)}]
        V += [rand_json(rng) for _ in range(nrand)]
        V += [rng.choice([rand_float(rng), rng.randrange(-2 ** 70, 2 ** 70), rng.randrange(-2 ** 63, 2 ** 63),
                          round(rng.uniform(-1e6, 1e6), 9)]) for _ in range(nrand // 2)]
    elif t == 'IntArray':
        V += [[], [0], [1, 2, 3], [-1], [2 ** 31 - 1, -2 ** 31], [2 ** 63 - 1, -2 ** 63], [2 ** 63, -2 ** 70], [1, 1, 1], [True, 2],
              list(range(1000)), (1, 2), 5]
        V += [[rng.randrange(-2 ** 63, 2 ** 63) for _ in range(rng.randrange(0, 6))] for _ in range(nrand)]
    elif t == 'StrArray':
        V += [[], [''], ['a'], ['a', 'b'], ['', ''], ['a\x00b', "'", '"', '\\', ',', '[]', '["a"]', 'null', '\U0001F600', 'ü', ' a '],
              ['x' * 10000], ['a'] * 500, ('t', 'u'), 'single']
        V += [[rand_unicode(rng, rng.randrange(0, 8)) for _ in range(rng.randrange(0, 5))] for _ in range(nrand)]
    elif t == 'FloatArray':
        V += [[], [0.0], [-0.0], [1.5, -2.5], [5e-324, 1.7976931348623157e308, 2.2250738585072014e-308], [INF, -INF], [NAN],
              [1, 2.5], [1, 2], [0.1, 0.2, 0.30000000000000004], [1e22, 1e23], [9007199254740993.0], [float(i) for i in range(500)]]
        V += [[rand_float(rng) for _ in range(rng.randrange(0, 5))] for _ in range(nrand)]
    else:
        raise AssertionError(t)
    return V


# ----------------------------------------------------------------------------------------------------
# equality
def unwrap(v):
    from pony.orm.ormtypes import TrackedValue
    if isinstance(v, TrackedValue): v = v.get_untracked()
    if isinstance(v, (dict, list)): return copy.deepcopy(v)
    return v


def has_nan(x):
    if isinstance(x, float): return x != x
    if isinstance(x, Decimal): return x.is_nan()
    if isinstance(x, (list, tuple)): return any(has_nan(i) for i in x)
    if isinstance(x, dict): return any(has_nan(i) for i in x.values())
    return False


def json_eq(a, b):
    """JSON data model equality: bool strict, numbers by == (1 == 1.0), str, None, list, dict"""
    if isinstance(a, bool) or isinstance(b, bool): return isinstance(a, bool) and isinstance(b, bool) and a == b
    if isinstance(a, (int, float)) and isinstance(b, (int, float)): return a == b
    if type(a) is not type(b): return False
    if isinstance(a, list): return len(a) == len(b) and all(json_eq(x, y) for x, y in zip(a, b))
    if isinstance(a, dict): return a.keys() == b.keys() and all(json_eq(a[k], b[k]) for k in a)
    return a == b


def strict_eq(a, b):
    if isinstance(a, list) and isinstance(b, list):
        return len(a) == len(b) and all(strict_eq(x, y) for x, y in zip(a, b))
    if type(a) is not type(b):
        if isinstance(a, str) and isinstance(b, str): return str(a) == str(b)      # LongStr is a str subclass
        if isinstance(a, (bytes, bytearray, memoryview)) and isinstance(b, (bytes, bytearray, memoryview)):
            return bytes(a) == bytes(b)
        return False
    return a == b


def equal(spec, a, b):
    if spec['type'] == 'Json': return json_eq(a, b)
    return strict_eq(a, b)


# ----------------------------------------------------------------------------------------------------
# deviation rules: each reproduces what pony returns under one identified mechanism
class Affinity(object):
    """what SQLite column affinity does to a bound value: asked from SQLite itself (raw connection, no pony)"""
    def __init__(self):
        self.con = sqlite3.connect(':memory:')
        self.con.execute('create table t (dec DECIMAL(12, 2), js JSON, iv INTERVAL)')
    def store(self, col, value):
        self.con.execute('delete from t')
        self.con.execute('insert into t (%s) values (?)' % col, (value,))
        return self.con.execute('select %s from t' % col).fetchone()[0]


def quant_exp(spec):
    p, s = spec['args'] if spec['args'] else (12, 2)
    return Decimal(10) ** -s


def beyond_precision(spec, d):
    p, s = spec['args'] if spec['args'] else (12, 2)
    if not d.is_finite(): return True
    try: q = d.quantize(Decimal(10) ** -s)
    except InvalidOperation: return True
    return abs(q) >= Decimal(10) ** (p - s)


def classify(spec, ref, obs, aff, projection=False):
    """-> list of finding ids whose deviant semantics reproduce `obs` exactly from `ref`, or None"""
    t = spec['type']
    if projection and t == 'Decimal' and isinstance(ref, Decimal) and isinstance(obs, Decimal):
        # rule: a projection converts the stored INTEGER/REAL with Decimal(str(x)) and does not round to the declared scale
        try: q = ref.quantize(quant_exp(spec))
        except InvalidOperation: return None
        x = aff.store('dec', str(q))
        try: raw = Decimal(str(x))
        except InvalidOperation: return None
        if isinstance(x, float) and obs == raw and raw != q: return ['C07-SQLITE-DECIMAL-PROJECTION-UNQUANTIZED']
        return None
    if t == 'time' and isinstance(ref, time) and isinstance(obs, str):
        # rule: time is stored as isoformat text and the text is returned undecoded
        if obs == ref.isoformat(): return ['C07-SQLITE-TIME-STR']
    if t == 'date' and isinstance(ref, date) and isinstance(obs, str) and ref.year < 1000:
        # rule: year written without zero padding; text that does not parse as %Y-%m-%d is returned undecoded
        if obs == '%d-%02d-%02d' % (ref.year, ref.month, ref.day): return ['C07-SQLITE-DATE-YEAR-LT-1000']
    if t == 'Decimal' and isinstance(ref, Decimal) and isinstance(obs, Decimal):
        exp = quant_exp(spec)
        try: q = ref.quantize(exp)
        except InvalidOperation: return None
        ids = []
        if q != ref:
            ids.append('C07-DECIMAL-UNROUNDED-IN-SESSION')      # rule: session keeps the unrounded value, database gets quantize()
            if obs == q: return ids
        # rule: DECIMAL column has NUMERIC affinity -> text becomes INTEGER/REAL (15 significant digits), then Decimal(str(x))
        x = aff.store('dec', str(q))
        try: back = Decimal(str(x)).quantize(exp)
        except InvalidOperation: return None
        if back != q and obs == back:
            return ids + ['C07-SQLITE-DECIMAL-REAL-PRECISION']
        return None
    if t == 'timedelta' and isinstance(ref, timedelta) and isinstance(obs, timedelta):
        # rule: stored as a float number of days
        f = ref.days + (ref.seconds + ref.microseconds / 1000000.0) / 86400.0
        x = aff.store('iv', f)
        try: back = timedelta(days=x)
        except OverflowError: return None
        if back != ref and obs == back: return ['C07-SQLITE-TIMEDELTA-FLOAT-DAYS']
    if t == 'Json' and isinstance(ref, (int, float)) and not isinstance(ref, bool) and isinstance(obs, (int, float)):
        # rule: JSON column has NUMERIC affinity -> a top-level JSON number text becomes INTEGER/REAL
        x = aff.store('js', json.dumps(ref))
        if isinstance(x, (int, float)) and x == obs and type(x) is type(obs): return ['C07-SQLITE-JSON-TOPLEVEL-NUMBER']
    return None


# ----------------------------------------------------------------------------------------------------
class Runner(object):
    def __init__(self, ctx, spec_list, filename):
        from pony import orm
        self.ctx, self.orm = ctx, orm
        self.filename = filename
        self.db = orm.Database()
        self.W = define(self.db, spec_list)
        self.db.bind('sqlite', filename, create_db=True)
        self.db.generate_mapping(create_tables=True)
        self.db2 = orm.Database()
        self.R = define(self.db2, spec_list)
        self.db2.bind('sqlite', filename)
        self.db2.generate_mapping(create_tables=False)
        self.aff = Affinity()
        self.raw = sqlite3.connect(filename)

    def close(self):
        try: self.raw.close()
        except Exception: pass
        for d in (self.db, self.db2):
            try: d.disconnect()
            except Exception: pass

    def attempt(self, fn):
        orm = self.orm
        try:
            with orm.db_session:
                return ('ok', fn())
        except Exception as e:
            return ('exc', type(e).__name__, str(e)[:200])

    def raw_value(self, spec, oid):
        try:
            tbl = self.W[spec['name']]._table_
            r = self.raw.execute('select typeof(v), v from "%s" where id = ?' % tbl, (oid,)).fetchone()
            return [r[0], repr(r[1])[:200]] if r else None
        except Exception as e:
            return 'raw read failed: %r' % e

    def one(self, spec, value):
        ctx, orm = self.ctx, self.orm
        t = spec['type']
        E, E2 = self.W[spec['name']], self.R[spec['name']]
        vr = repr(value)
        fpv = vr if len(vr) < 300 else vr[:100] + '#%d#' % len(vr) + vr[-100:]
        ctx.count('values.generated')

        # ---- write, flush, read the reference in the writing session
        def write():
            o = E(v=value)
            orm.flush()
            return o.id, unwrap(o.v)
        w = self.attempt(write)
        if w[0] == 'exc':
            ctx.case(('C07', spec['name'], type(value).__name__, fpv), nontrivial=False)
            ctx.count('outcome.not_accepted')
            ctx.count('outcome.not_accepted.%s.%s' % (t, w[1]))
            return
        oid, ref = w[1]
        ctx.count('events.after_flush')
        if has_nan(ref):
            ctx.case(('C07', spec['name'], type(value).__name__, fpv), nontrivial=False)
            ctx.count('outcome.no_reference_nan')
            return
        if t == 'Decimal' and isinstance(ref, Decimal) and beyond_precision(spec, ref):
            # DECIMAL(p, s) cannot hold it (pony does not validate precision; a real DBMS would refuse): outside the domain
            ctx.case(('C07', spec['name'], type(value).__name__, fpv), nontrivial=False)
            ctx.count('outcome.beyond_declared_precision')
            return
        ctx.case(('C07', spec['name'], type(value).__name__, fpv),
                 sample={'decl': spec['name'], 'value': fpv[:120], 'after_flush': repr(ref)[:120]})
        ctx.count('type.%s' % t)
        # information only: reference vs the assigned value (property does not constrain this)
        try: same_as_assigned = equal(spec, ref, value if not isinstance(value, tuple) else list(value))
        except Exception: same_as_assigned = False
        ctx.count('info.ref_equals_assigned' if same_as_assigned else 'info.ref_differs_from_assigned(normalised)')

        def witness(event, obs, extra=None):
            wt = {'decl': spec, 'value': vr if len(vr) <= 20000 else vr[:400], 'after_flush': repr(ref)[:400], 'event': event,
                  'observed': repr(obs)[:400], 'stored_raw': self.raw_value(spec, oid)}
            if len(vr) > 20000: wt['value_truncated_from'] = len(vr)
            if extra: wt.update(extra)
            return wt

        # ---- fresh session
        fr = self.attempt(lambda: unwrap(E2[oid].v))
        ctx.count('events.fresh_read')
        if fr[0] == 'exc':
            ctx.count('outcome.reload_raised')
            ctx.count('outcome.reload_raised.%s.%s' % (t, fr[1]))
            lst = ctx.extra.setdefault('loud_reload_samples', [])
            if len(lst) < 10: lst.append(witness('fresh_read', fr[1:]))
            return
        fresh = fr[1]
        classified = None
        if equal(spec, ref, fresh):
            ctx.count('outcome.fresh_equal')
            if t == 'Json' and type(ref) is not type(fresh): ctx.count('info.json_number_type_changed')
        else:
            classified = classify(spec, ref, fresh, self.aff)
            if classified:
                for fid in classified:
                    ctx.count('outcome.deviation.%s' % fid)
                    ctx.finding(fid, witness('fresh_read', fresh, {'deviation_rules': classified}))
            else:
                ctx.count('outcome.fresh_differs')
                ctx.violation(witness('fresh_read', fresh), mechanism='C07-fresh-read-differs-%s' % t)
                return

        # ---- projection query: same conversion as attribute load
        pr = self.attempt(lambda: [unwrap(x) for x in orm.select(p.v for p in E2 if p.id == oid)])
        ctx.count('events.projection')
        if pr[0] == 'exc':
            ctx.count('outcome.projection_raised.%s.%s' % (t, pr[1]))
        elif len(pr[1]) != 1:
            ctx.violation(witness('projection', pr[1]), mechanism='C07-projection-row-count')
        else:
            proj = pr[1][0]
            if equal(spec, fresh, proj) or equal(spec, ref, proj):
                ctx.count('outcome.projection_equal')
            else:
                c2 = classify(spec, ref, proj, self.aff, projection=True) or (not classified and classify(spec, ref, proj, self.aff))
                if c2:
                    for fid in c2:
                        ctx.count('outcome.deviation.%s' % fid)
                        ctx.finding(fid, witness('projection', proj, {'deviation_rules': c2, 'fresh': repr(fresh)[:400]}))
                else:
                    ctx.count('outcome.projection_differs')
                    ctx.violation(witness('projection', proj, {'fresh': repr(fresh)[:400]}), mechanism='C07-projection-differs-%s' % t)

        # ---- value as a query parameter (only when the stored value equals the reference)
        if classified:
            ctx.count('lookup.skipped_stored_value_differs')
            return
        if t == 'Json':
            ctx.count('lookup.skipped_json_equality_unsupported')
            return
        if isinstance(ref, float) and ref in (INF, -INF) or (isinstance(ref, list) and any(isinstance(i, float) and i in (INF, -INF) for i in ref)):
            ctx.count('lookup.skipped_non_finite')
            return
        lookups = (('get_kw', lambda: E2.get(id=oid, v=ref) is not None),
                   ('select_kw', lambda: oid in [x.id for x in E2.select(v=ref)]),
                   ('select_lambda', lambda: len(E2.select(lambda p: p.id == oid and p.v == ref)[:]) == 1),
                   ('exists_kw', lambda: bool(E2.exists(id=oid, v=ref))))
        for name, fn in lookups:
            lr = self.attempt(fn)
            ctx.count('events.lookup')
            if lr[0] == 'exc':
                ctx.count('lookup.raised.%s.%s.%s' % (t, name, lr[1]))
            elif lr[1]:
                ctx.count('lookup.found')
                ctx.count('lookup.found.%s' % name)
            else:
                ctx.count('lookup.not_found')
                ctx.violation(witness('lookup:' + name, False), mechanism='C07-param-lookup-misses-%s' % t)



# ----------------------------------------------------------------------------------------------------
# multi-step write patterns on Json / array attributes: the attribute value the program sees after the last
# flush() must be what a fresh session reads, whatever sequence of assignments (plain value, value read from
# another object's or another attribute's tracked value, re-assignment of the own tracked value), in-place
# mutations (through either object), scalar assignments, flushes and commits led to it.
TRACKED = {'j': 'json', 'j2': 'json', 'ia': 'int', 'ia2': 'int', 'sa': 'str', 'fa': 'float'}
TWIN = {'j': 'j2', 'j2': 'j', 'ia': 'ia2', 'ia2': 'ia'}
DOC_ATTRS = ('title', 'n', 'j', 'j2', 'ia', 'ia2', 'sa', 'fa')


def define_doc(db):
    from pony import orm
    from pony.orm import ormtypes as T
    return type('Doc', (db.Entity,), {
        'title': orm.Optional(str), 'n': orm.Optional(int),
        'j': orm.Optional(T.Json), 'j2': orm.Optional(T.Json),
        'ia': orm.Optional(T.IntArray), 'ia2': orm.Optional(T.IntArray),
        'sa': orm.Optional(T.StrArray), 'fa': orm.Optional(T.FloatArray)})


def doc_init(k, json_list=False):
    j = [k, {'a': 1, 'm': [k]}, [1, 2]] if json_list else {'k': k, 'l': [1, 2], 'd': {'x': [k], 'y': 'v'}}
    return {'title': 't%d' % k, 'n': k, 'j': j, 'j2': {'z': k, 'q': [k]}, 'ia': [k, 2, 3], 'ia2': [k + 10],
            'sa': ['s%d' % k, 'b'], 'fa': [k + 0.5, 2.0]}


def new_item(rng, kind, depth=0):
    if kind == 'int': return rng.randrange(-50, 50)
    if kind == 'str': return rng.choice(['a', 'b', 'zz', '', 'ü', "q'", 'k%d' % rng.randrange(9)])
    if kind == 'float': return rng.randrange(-20, 20) * 0.5
    r = rng.random()
    if depth > 1 or r < 0.5: return rng.choice([0, 1, -7, 2.5, 'v', '', None, True, False, 'w%d' % rng.randrange(5)])
    if r < 0.75: return [new_item(rng, 'json', depth + 1) for _ in range(rng.randrange(0, 3))]
    return {rng.choice(['a', 'b', 'c', 'k', 'l']): new_item(rng, 'json', depth + 1) for _ in range(rng.randrange(0, 3))}


def choose_mutation(rng, live, kind):
    """pick (path, op, args) applicable to the live value (plain view), or None"""
    path, cur = [], live
    if kind == 'json':
        while isinstance(cur, (dict, list)) and cur and rng.random() < 0.45:
            if isinstance(cur, dict):
                k = rng.choice(sorted(cur))
            else:
                k = rng.randrange(len(cur))
            if not isinstance(cur[k], (dict, list)): break
            path.append(k); cur = cur[k]
    if isinstance(cur, dict):
        keys = sorted(cur)
        ops = ['set_new', 'update', 'setdefault']
        if keys: ops += ['set_old', 'del', 'pop', 'set_old']
        if rng.random() < 0.05: ops.append('clear')
        op = rng.choice(ops)
        nk = rng.choice(['n1', 'n2', 'k', 'l', 'a'])
        if op == 'set_new': return path, '__setitem__', [nk, new_item(rng, 'json')]
        if op == 'set_old': return path, '__setitem__', [rng.choice(keys), new_item(rng, 'json')]
        if op == 'del': return path, '__delitem__', [rng.choice(keys)]
        if op == 'pop': return path, 'pop', [rng.choice(keys)]
        if op == 'update': return path, 'update', [{nk: new_item(rng, 'json'), 'u': new_item(rng, 'json')}]
        if op == 'setdefault': return path, 'setdefault', [nk, new_item(rng, 'json')]
        return path, 'clear', []
    if isinstance(cur, list):
        n = len(cur)
        ops = ['append', 'append', 'extend', 'insert']
        if n: ops += ['setitem', 'setitem', 'delitem', 'pop', 'reverse', 'slice_del', 'remove']
        if n and kind == 'json': ops.append('slice_set')       # TrackedArray refuses slice assignment (loud)
        if n > 1 and all(type(x) is type(cur[0]) and isinstance(x, (int, str, float)) and not isinstance(x, bool) for x in cur):
            ops.append('sort')
        if rng.random() < 0.05: ops.append('clear')
        op = rng.choice(ops)
        it = lambda: new_item(rng, kind)
        if op == 'append': return path, 'append', [it()]
        if op == 'extend': return path, 'extend', [[it() for _ in range(rng.randrange(0, 3))]]
        if op == 'insert': return path, 'insert', [rng.randrange(0, n + 1), it()]
        if op == 'setitem': return path, '__setitem__', [rng.randrange(n), it()]
        if op == 'delitem': return path, '__delitem__', [rng.randrange(n)]
        if op == 'pop': return path, 'pop', []
        if op == 'reverse': return path, 'reverse', []
        if op == 'sort': return path, 'sort', []
        if op == 'remove':
            c = [x for x in cur if not isinstance(x, (dict, list))]
            if not c: return path, 'append', [it()]
            return path, 'remove', [rng.choice(c)]
        if op == 'clear': return path, 'clear', []
        a = rng.randrange(0, n); b = rng.randrange(a, n + 1)
        if op == 'slice_set': return path, '__setitem__', [{'slice': [a, b]}, [it() for _ in range(rng.randrange(0, 3))]]
        if op == 'slice_del': return path, '__delitem__', [{'slice': [a, b]}]
        return path, 'clear', []
    return None


def fixed_mutations(live, kind):
    """two deterministic in-place changes for the enumerated patterns"""
    if isinstance(live, dict):
        scalars = [kk for kk in sorted(live) if not isinstance(live[kk], (dict, list))]
        muts = [([], '__setitem__', [scalars[0] if scalars else 'k', 'changed'])]
        for kk in sorted(live):
            if isinstance(live[kk], list): muts.append(([kk], 'append', [99])); break
        else: muts.append(([], '__setitem__', ['added', [1]]))
        return muts
    item = {'int': 99, 'str': 'changed', 'float': 99.5, 'json': 'changed'}[kind]
    muts = [([], 'append', [item])]
    if live: muts.append(([], '__setitem__', [0, item]))
    return muts


class MultiStep(object):
    def __init__(self, ctx, filename):
        from pony import orm
        self.ctx, self.orm = ctx, orm
        self.db = orm.Database(); self.W = define_doc(self.db)
        self.db.bind('sqlite', filename, create_db=True); self.db.generate_mapping(create_tables=True)
        self.db2 = orm.Database(); self.R = define_doc(self.db2)
        self.db2.bind('sqlite', filename); self.db2.generate_mapping(create_tables=False)

    def close(self):
        for d in (self.db, self.db2):
            try: d.disconnect()
            except Exception: pass

    @staticmethod
    def snapshot(objs):
        return [{a: unwrap(getattr(o, a)) for a in DOC_ATTRS} for o in objs]

    def apply(self, step, objs):
        orm = self.orm
        kind = step[0]
        if kind == 'flush': orm.flush(); return
        if kind == 'commit': orm.commit(); return
        if kind == 'scalar': setattr(objs[step[1]], step[2], step[3]); return
        if kind == 'plain': setattr(objs[step[1]], step[2], copy.deepcopy(step[3])); return
        if kind == 'from': setattr(objs[step[1]], step[2], getattr(objs[step[3]], step[4])); return
        if kind == 'read': getattr(objs[step[1]], step[2]); return
        if kind == 'mut':
            o = objs[step[1]]
            attr = type(o)._adict_[step[2]]
            if o._status_ == 'modified' and not (o._wbits_ & o._bits_[attr]): self.ctx.count('multistep.inplace_on_already_modified_object')
            tgt = getattr(o, step[2])
            for k in step[3]: tgt = tgt[k]
            args = [slice(*a['slice']) if isinstance(a, dict) and list(a) == ['slice'] else copy.deepcopy(a) for a in step[5]]
            getattr(tgt, step[4])(*args)
            return
        raise AssertionError(step)

    def run_program(self, prog, gen=None):
        """prog = {'objs': [{'state', 'init'}], 'steps': [...]}; gen(rng-driven callback) may append steps adaptively.
        Returns nothing; reports through ctx."""
        ctx, orm = self.ctx, self.orm
        W, R = self.W, self.R
        ids = [None] * len(prog['objs'])
        try:
            with orm.db_session:
                made = []
                for i, od in enumerate(prog['objs']):
                    if od['state'] == 'loaded': made.append((i, W(**copy.deepcopy(od['init']))))
                orm.flush()
                for i, o in made: ids[i] = o.id
            executed = []
            with orm.db_session:
                objs = []
                for i, od in enumerate(prog['objs']):
                    if od['state'] == 'loaded': objs.append(W[ids[i]])
                    else:
                        o = W(**copy.deepcopy(od['init']))
                        objs.append(o)
                if any(od['state'] == 'inserted' for od in prog['objs']): orm.flush()
                steps = prog['steps'] if gen is None else gen(objs)
                for st in steps:
                    executed.append(st)
                    self.apply(st, objs)
                orm.flush()
                ref = self.snapshot(objs)
                ids = [o.id for o in objs]
        except Exception as e:
            ctx.count('multistep.program_raised')
            ctx.count('multistep.program_raised.%s' % type(e).__name__)
            lst = ctx.extra.setdefault('multistep_loud_samples', [])
            if len(lst) < 6: lst.append({'program': prog if gen is None else dict(prog, steps=executed),
                                         'error': '%s: %s' % (type(e).__name__, str(e)[:200])})
            return
        if gen is not None: prog = dict(prog, steps=executed)
        ctx.count('multistep.programs')
        ctx.case(('C07-multistep', prog), sample={'multistep_program': prog} if ctx.counters.get('multistep.programs', 0) % 400 == 1 else None)
        for st in prog['steps']:
            if st[0] == 'from':
                ctx.count('multistep.assign_tracked_value_of_other_object' if st[1] != st[3] else
                          ('multistep.reassign_own_tracked_value' if st[2] == st[4] else 'multistep.assign_tracked_value_of_other_attribute'))
            elif st[0] == 'mut': ctx.count('multistep.inplace_mutations')
        try:
            with orm.db_session:
                fresh = self.snapshot([R[i] for i in ids])
                proj = [{a: [unwrap(x) for x in orm.select(getattr(d, a) for d in R if d.id == i)] for a in TRACKED} for i in ids]
        except Exception as e:
            ctx.count('multistep.reload_raised.%s' % type(e).__name__)
            return
        for oi in range(len(ids)):
            for a in DOC_ATTRS:
                ctx.count('multistep.values_compared')
                kind = TRACKED.get(a)
                eq = json_eq if kind == 'json' else strict_eq
                if not eq(ref[oi][a], fresh[oi][a]):
                    ctx.count('multistep.fresh_differs')
                    ctx.violation({'multistep_program': prog, 'object': oi, 'attr': a, 'after_flush': repr(ref[oi][a])[:300],
                                   'fresh_session': repr(fresh[oi][a])[:300], 'event': 'fresh_read'},
                                  mechanism='C07-multistep-fresh-read-differs-%s' % (kind or 'scalar'))
                elif kind and not (len(proj[oi][a]) == 1 and eq(fresh[oi][a], proj[oi][a][0])):
                    ctx.count('multistep.projection_differs')
                    ctx.violation({'multistep_program': prog, 'object': oi, 'attr': a, 'after_flush': repr(ref[oi][a])[:300],
                                   'projection': repr(proj[oi][a])[:300], 'event': 'projection'},
                                  mechanism='C07-multistep-projection-differs-%s' % kind)


def enumerated_programs():
    """small-scope exhaustive write patterns (see META rule)"""
    out = []
    for akind in ('j:dict', 'j:list', 'ia', 'sa', 'fa'):
        attr = akind.split(':')[0]
        kind = TRACKED[attr]
        twin = TWIN.get(attr)
        for state in ('loaded', 'created', 'inserted'):
            for pre in ('none', 'scalar', 'other_tracked', 'flush', 'scalar_flush', 'scalar_commit'):
                for source in ('keep', 'plain', 'alias_obj', 'alias_twin', 'alias_obj_twin', 'reassign'):
                    if source in ('alias_twin', 'alias_obj_twin') and not twin: continue
                    for mid in ('none', 'flush', 'commit'):
                        for through in ('target', 'source', 'both', 'none'):
                            aliased = source.startswith('alias')
                            if through in ('source', 'both') and not aliased: continue
                            if through == 'none' and source == 'keep': continue
                            if mid != 'none' and source == 'keep' and pre in ('flush', 'none'): continue
                            out.append(dict(akind=akind, attr=attr, kind=kind, state=state, pre=pre, source=source, mid=mid, through=through))
    return out


def pattern_steps(pat, objs):
    """steps of an enumerated pattern, built against the live objects (target = object 0, other = object 1)"""
    attr, kind, twin = pat['attr'], pat['kind'], TWIN.get(pat['attr'])
    steps = []
    def emit(st): steps.append(st); return st
    pre = pat['pre']
    if pre in ('scalar', 'scalar_flush', 'scalar_commit'): yield emit(['scalar', 0, 'title', 'changed title'])
    if pre == 'other_tracked': yield emit(['mut', 0, 'sa', [], 'append', ['pre']])
    if pre in ('flush', 'scalar_flush'): yield emit(['flush'])
    if pre == 'scalar_commit': yield emit(['commit'])
    if pre in ('scalar_flush', 'scalar_commit'): yield emit(['scalar', 0, 'n', 777])
    src = None
    s = pat['source']
    if s == 'plain':
        plain = {'json': {'p': 1, 'l': [5]}, 'int': [7, 8], 'str': ['p', 'q'], 'float': [7.5]}[kind]
        if pat['akind'] == 'j:list': plain = [5, {'p': 1}, [6]]
        yield emit(['plain', 0, attr, plain])
    elif s == 'alias_obj': src = (1, attr); yield emit(['from', 0, attr, 1, attr])
    elif s == 'alias_twin': src = (0, twin); yield emit(['from', 0, attr, 0, twin])
    elif s == 'alias_obj_twin': src = (1, twin); yield emit(['from', 0, attr, 1, twin])
    elif s == 'reassign': yield emit(['from', 0, attr, 0, attr])
    if pat['mid'] == 'flush': yield emit(['flush'])
    if pat['mid'] == 'commit': yield emit(['commit'])
    targets = {'target': [(0, attr)], 'source': [src], 'both': [(0, attr), src], 'none': []}[pat['through']]
    for n, (oi, a) in enumerate(targets):
        live = unwrap(getattr(objs[oi], a))
        for path, op, args in fixed_mutations(live, TRACKED[a])[: (2 if n == 0 else 1)]:
            yield emit(['mut', oi, a, path, op, args])


def random_program_steps(rng, objs, nsteps):
    nobj = len(objs)
    for _ in range(nsteps):
        r = rng.random()
        o = rng.randrange(nobj)
        a = rng.choice(sorted(TRACKED))
        if r < 0.08: yield ['scalar', o, 'title', rng.choice(['x', 'y', 'zz', ''])]
        elif r < 0.14: yield ['scalar', o, 'n', rng.choice([None, rng.randrange(100)])]
        elif r < 0.22: yield ['flush']
        elif r < 0.27: yield ['commit']
        elif r < 0.32: yield ['read', o, a]
        elif r < 0.40:
            kind = TRACKED[a]
            val = new_item(rng, 'json', 0) if kind == 'json' else [new_item(rng, kind) for _ in range(rng.randrange(0, 4))]
            if kind == 'json' and not isinstance(val, (dict, list)): val = {'v': val}
            yield ['plain', o, a, val]
        elif r < 0.58:
            so = rng.randrange(nobj)
            sa = rng.choice([x for x in TRACKED if TRACKED[x] == TRACKED[a]])
            yield ['from', o, a, so, sa]
        else:
            m = choose_mutation(rng, unwrap(getattr(objs[o], a)), TRACKED[a])
            if m is not None: yield ['mut', o, a, m[0], m[1], m[2]]


def multistep(ctx, nrandom):
    fn = os.path.join(ctx.tmp(), 'c07-multistep-%d.sqlite' % ctx.shard)
    ms = MultiStep(ctx, fn)
    try:
        pats = [p for i, p in enumerate(enumerated_programs()) if i % ctx.nshards == ctx.shard]
        for pat in pats:
            prog = {'pattern': pat, 'objs': [{'state': pat['state'], 'init': doc_init(1, pat['akind'] == 'j:list')},
                                             {'state': 'loaded', 'init': doc_init(2, pat['akind'] == 'j:list')}], 'steps': None}
            ms.run_program(prog, gen=lambda objs: pattern_steps(pat, objs))
            ctx.count('multistep.enumerated_patterns')
        rng = ctx.subrng('multistep', ctx.shard)
        for n in range(nrandom):
            nobj = rng.choice([2, 2, 3])
            prog = {'objs': [{'state': rng.choice(['loaded', 'loaded', 'created', 'inserted']), 'init': doc_init(k + 1, rng.random() < 0.3)}
                             for k in range(nobj)], 'steps': None}
            nsteps = rng.randrange(3, 14)
            ms.run_program(prog, gen=lambda objs: random_program_steps(rng, objs, nsteps))
            ctx.count('multistep.random_programs')
    finally:
        ms.close()

# ----------------------------------------------------------------------------------------------------
# codec round trips for providers that cannot execute here
def codec_roundtrips(ctx, rng, nrand):
    from pony import converting
    from pony.utils import datetime2timestamp, timestamp2datetime
    from pony.orm import dbapiprovider
    n = {'i': 0}
    def check(name, value, back, expect=None):
        expect = value if expect is None else expect
        ctx.count('codec.roundtrips')
        ctx.count('codec.' + name)
        fpk = ('C07-codec', name, repr(value))
        ctx.case(fpk, sample={'codec': name, 'value': repr(value)} if n['i'] % 97 == 0 else None)
        n['i'] += 1
        if type(back) is not type(expect) or back != expect:
            ctx.violation({'codec': name, 'value': repr(value), 'expected': repr(expect), 'got': repr(back)},
                          mechanism='C07-codec-' + name)
    def guarded(name, value, fn, expect=None):
        try: back = fn()
        except Exception as e:
            ctx.count('codec.roundtrips'); ctx.count('codec.raised.%s.%s' % (name, type(e).__name__))
            ctx.violation({'codec': name, 'value': repr(value), 'error': '%s: %s' % (type(e).__name__, e)},
                          mechanism='C07-codec-raised-' + name)
            return
        check(name, value, back, expect)

    tds = values_for({'type': 'timedelta', 'kind': 'Required', 'kwargs': {}, 'args': []}, rng, nrand, 'quick')
    tds = [v for v in tds if isinstance(v, timedelta)]
    dts = [v for v in values_for({'type': 'datetime', 'kind': 'Required', 'kwargs': {}, 'args': []}, rng, nrand, 'quick')
           if isinstance(v, datetime)]
    tms = [v for v in values_for({'type': 'time', 'kind': 'Required', 'kwargs': {}, 'args': []}, rng, nrand, 'quick')
           if isinstance(v, time)]

    def mysql_time_text(td):
        # documented MySQL text form of a TIME(6) value: [-]HH:MM:SS[.ffffff], zero padded
        neg = td < timedelta(0)
        a = -td if neg else td
        secs = a.days * 86400 + a.seconds
        s = '%s%02d:%02d:%02d' % ('-' if neg else '', secs // 3600, secs // 60 % 60, secs % 60)
        return s + ('.%06d' % a.microseconds if a.microseconds else '')

    # generic interval codec (also used for SQL literals on every dialect)
    for td in tds:
        guarded('timedelta2str/str2timedelta', td, lambda: converting.str2timedelta(converting.timedelta2str(td)))
        if td != timedelta.min:
            guarded('str2timedelta(mysql TIME text)', td, lambda: converting.str2timedelta(mysql_time_text(td)))
    # SQLite timestamp text
    for dt in dts:
        guarded('datetime2timestamp/timestamp2datetime', dt, lambda: timestamp2datetime(datetime2timestamp(dt)))
        guarded('str2datetime(iso text)', dt, lambda: converting.str2datetime(dt.isoformat(' ')))
    # precision rounding: result is the truncation to the declared number of digits and is stable
    conv = dbapiprovider.ConverterWithMicroseconds(None, time)
    for p in range(0, 7):
        for us in [0, 1, 9, 10, 99, 100, 999, 1000, 99999, 100000, 499999, 500000, 999999] + [rng.randrange(10 ** 6) for _ in range(nrand)]:
            def f():
                r = conv.round_microseconds_to_precision(us, p)
                r = us if r is None else r
                r2 = conv.round_microseconds_to_precision(r, p)
                return (r, r if r2 is None else r2)
            unit = 10 ** (6 - p)
            guarded('round_microseconds_to_precision', (us, p), f, expect=(us // unit * unit, us // unit * unit))

    # MySQL: the conversions pony installs into the driver
    try:
        from pony.orm.dbproviders import mysql
        from MySQLdb.constants import FIELD_TYPE
        prov = object.__new__(mysql.MySQLProvider)
        conv_map = mysql.MySQLProvider.get_pool(prov).kwargs['conv']
        enc, dec, dec_dt = conv_map[timedelta], conv_map[FIELD_TYPE.TIME], conv_map[FIELD_TYPE.DATETIME]
        tconv = mysql.MySQLTimeConverter(None, time)
        for td in tds:
            def f():
                lit = enc(td)
                assert lit[0] == "'" and lit[-1] == "'", lit
                return dec(lit[1:-1])
            guarded('mysql driver conv timedelta', td, f)
        for dt in dts:
            guarded('mysql driver conv DATETIME', dt, lambda: dec_dt(dt.isoformat(' ')))
        for tm in tms:
            guarded('MySQLTimeConverter.sql2py(TIME text)', tm, lambda: tconv.sql2py(dec(tm.isoformat())))
            guarded('MySQLTimeConverter.sql2py(time)', tm, lambda: tconv.sql2py(tm))
        ctx.count('codec.mysql_module_imported')
    except ImportError as e:
        ctx.count('codec.mysql_import_failed')
        ctx.extra['mysql_import_error'] = str(e)
    # Oracle
    try:
        from pony.orm.dbproviders import oracle
        oconv = oracle.OraTimeConverter(None, time)
        for tm in tms:
            guarded('OraTimeConverter.py2sql/sql2py', tm, lambda: oconv.sql2py(oconv.py2sql(tm)))
        for d in [Decimal('0'), Decimal('1.5'), Decimal('-123456789012345678901234567890.123456789'), Decimal('0.000001')]:
            guarded('oracle.to_decimal', d, lambda: oracle.to_decimal(str(d)))
            guarded('oracle.to_decimal(comma)', d, lambda: oracle.to_decimal(str(d).replace('.', ',')))
        for i in (0, -1, 2 ** 63, -10 ** 30):
            guarded('oracle.to_int_or_decimal', i, lambda: oracle.to_int_or_decimal(str(i)))
        ctx.count('codec.oracle_module_imported')
    except ImportError as e:
        ctx.count('codec.oracle_import_failed')
        ctx.extra['oracle_import_error'] = str(e)
    # base converters shared by PostgreSQL/MySQL/Oracle
    uconv = dbapiprovider.UuidConverter(None, UUID)
    for u in [UUID(int=0), UUID(int=2 ** 128 - 1), UUID(bytes=b'abcdefghijklmnop')] + [UUID(int=rng.getrandbits(128)) for _ in range(nrand)]:
        guarded('UuidConverter.py2sql/sql2py', u, lambda: uconv.sql2py(uconv.py2sql(u)))
    jconv = dbapiprovider.JsonConverter(None, dict)
    for j in [{}, [], {'a': [1, 2.5, None, True, 'ü\U0001F600', {'b': 2 ** 70}]}, 'abc', 5, 1.5, True, [5e-324, 1.7976931348623157e308]] + \
             [rand_json(rng) for _ in range(nrand)]:
        if has_nan(j): continue
        def f():
            r = jconv.dbval2val(jconv.val2dbval(j))
            return r if json_eq(r, j) else ('DIFF', r)
        guarded('JsonConverter.val2dbval/dbval2val', j, f)


# ----------------------------------------------------------------------------------------------------
def run(ctx):
    quick = ctx.tier == 'quick'
    nrand = 120 if quick else 300
    all_specs = specs()
    accepted = []
    for s in all_specs:
        err = probe_decl(s)
        if err:
            ctx.count('decl.rejected_by_pony')
            ctx.extra.setdefault('rejected_declarations', []).append({'decl': s['name'], 'error': err})
        else:
            accepted.append(s)
    ctx.count('decl.mapped', len(accepted))
    fn = os.path.join(ctx.tmp(), 'c07-%d.sqlite' % ctx.shard)
    r = Runner(ctx, accepted, fn)
    try:
        for i, s in enumerate(accepted):
            rng = ctx.subrng('values', s['name'], ctx.shard)
            vals = values_for(s, rng, nrand, ctx.tier)
            seen = set()
            for v in vals:
                k = (type(v).__name__, repr(v))
                if k in seen: continue
                seen.add(k)
                r.one(s, v)
    finally:
        r.close()
    multistep(ctx, 200 if quick else 1000)
    codec_roundtrips(ctx, ctx.subrng('codec', ctx.shard), nrand * 4)

    types = sorted({s['type'] for s in accepted})
    for t in types:
        ctx.floor('type.%s' % t, 4 if t == 'bool' else 25)
    ctx.floor('events.fresh_read', 4000)
    ctx.floor('events.projection', 4000)
    ctx.floor('lookup.found', 10000)
    ctx.floor('codec.roundtrips', 1500)
    ctx.floor('decl.mapped', 70)
    ctx.floor('multistep.programs', 300 if quick else 800)
    ctx.floor('multistep.values_compared', 4000)
    ctx.floor('multistep.inplace_on_already_modified_object', 100)
    ctx.floor('multistep.assign_tracked_value_of_other_object', 100)
    ctx.floor('multistep.assign_tracked_value_of_other_attribute', 40)
    ctx.floor('multistep.reassign_own_tracked_value', 40)


def replay(ctx, witness):
    if 'codec' in witness:
        codec_roundtrips(ctx, ctx.subrng('codec', 0), 4)
        return
    if 'multistep_program' in witness:
        ms = MultiStep(ctx, os.path.join(ctx.tmp(), 'c07-replay-ms.sqlite'))
        try: ms.run_program(witness['multistep_program'])
        finally: ms.close()
        return
    if witness.get('value_truncated_from'):
        print('witness value was truncated (%d chars); cannot be replayed from the file' % witness['value_truncated_from']); return
    spec = witness['decl']
    spec['args'] = list(spec.get('args') or [])
    value = eval(witness['value'], dict(EVAL_NS))
    fn = os.path.join(ctx.tmp(), 'c07-replay.sqlite')
    r = Runner(ctx, [spec], fn)
    try: r.one(spec, value)
    finally: r.close()

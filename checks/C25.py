"""C25 -- string indexing and slicing translate to Python semantics on every dialect.

Bounded exhaustive grid: string length 0..6 (plus two non-ASCII strings) x start, stop, index in
{omitted, -8..8} x bound kind {constant, parameter, column expression} (+ explicit None const/param).

  sqlite   real queries through the whole pipeline (select(...) on an SQLite database, py_string_slice).
  generic  base SQLTranslator/SQLBuilder (record-mode generic provider); the SQL is evaluated on SQLite
           with substr/length/greatest/least replaced by the MySQL model and, separately, the Oracle
           model (the two real dialects that take the generic code path).
  postgres / mysql / oracle
           the real PG*/MySQL*/Ora* translator+builder (shim-bound Database, record mode) produce the
           statement; it is rewritten (placeholders only) and evaluated on SQLite with that dialect's
           substr/length/greatest/least model registered as user-defined functions.

Oracle: Python s[i:j] / s[i]; index out of range (Python raises IndexError) => '' or NULL accepted.

Second workload (nested_run): every slice/index shape is also embedded in nested contexts -- exists(), count(),
IN-subqueries, an aggregate in the select list, correlated two-level subqueries, lambda select/filter/where, a query
over a query, a string attribute reached through a relationship -- and each such program is a real code object that
is executed REPEATEDLY on the warm Database with different parameter values (all (start, stop) pairs of the grid in a
seeded order, so consecutive executions change value, sign and None-ness); every single execution is compared with
Python (SQLite: real result; other dialects: generated SQL under the dialect model).  A string-source family puts
every kind combination of the grid (const / param / column / None) into exists / IN-subquery / select-list aggregate.
"""

META = {
    'level': 'exploration',
    'engine': 'E1+E5',
    'technique': 'differential oracle: Python s[i:j]/s[i] vs real pipeline on SQLite and vs generated dialect SQL '
                 'evaluated under small trusted substr models (bounded exhaustive grid)',
    'level_text': 'Every cell of the bounded grid (length 0..6 x start/stop/index in {omitted,-8..8} x '
                  '{constant, parameter, column expression}) is executed per dialect code path and compared with '
                  'Python; runtime monitoring cannot cover the unbounded quantifier, so the claim is exactly the grid.',
    'level_note': 'Trusted base: Python slicing; sqlite3; four ~8-line substr models (PostgreSQL, MySQL, Oracle) '
                  'plus length (MySQL: bytes)/greatest/least written from the vendors\' documentation; the '
                  'whitelist tokenizer that refuses statements outside the modelled fragment.',
    'rule': 'cases = (dialect path, form, start kind/value, stop kind/value | index kind/value, string); all '
            'combinations enumerated; a case is non-trivial when the string is non-empty or a bound is given; '
            'fingerprint = that tuple.  Nested/repeated workload: cases = (dialect path, program shape, start, stop '
            '[, kinds]); 22 code-object shapes x all (start, stop) pairs on SQLite (a seeded subset on the modelled '
            'dialects in the quick tier) executed consecutively from one code object, plus 3 string-source contexts x '
            'the kind grid',
    'assumptions': [
        'The unbounded/symbolic quantifier of C25 ("all integers") is out of reach of runtime monitoring; the run '
        'decides the bounded grid length 0..6 x bounds -8..8 (quick) resp. length 0..12 x bounds -15..15 (thorough) only '
        '(exhaustive on that grid).',
        'Only SQLite executes SQL here. PostgreSQL/MySQL/Oracle semantics come from small trusted models of '
        'substr/length/greatest/least (documented semantics), evaluated inside SQLite as user-defined functions; '
        'real servers are not contacted.',
        'The generic (base SQLBuilder) path is judged under the MySQL and Oracle models, the real dialects that use it.',
        'Column-expression bounds (p.s[p.a:p.b]) go beyond the property text ("constants or parameters") and are '
        'included because they are the only way to reach the non-constant branches of SQLBuilder.STRING_SLICE; '
        'NULL column bounds are not generated.',
        'Oracle stores \'\' as NULL: where Python yields \'\' (or raises IndexError) both \'\' and NULL are accepted.',
        'An explicit None bound (p.s[2:None], or a parameter whose value is None) may be rejected loudly by pony; '
        'that is counted (outcome.pony_raised), not a violation.',
        'The nested/repeated workload is exhaustive over (start, stop) only on SQLite; on the modelled dialects the quick '
        'tier runs a seeded subset of 48 parameter pairs per shape, the thorough tier 300 pairs per shape. Oracle statements using || '
        'are not evaluated (NULL/empty-string concatenation is not modelled) and counted as unsupported.',
    ],
    'shims': ['psycopg2', 'MySQLdb', 'cx_Oracle'],
    'exhaustive_tiers': ['quick', 'thorough'],
}
SHARDS = {'quick': 1, 'thorough': 12}
SHARD_TIMEOUT = {'quick': 300, 'thorough': 1500}

import re, sqlite3

GRIDS = {   # tier -> (strings, bound values); both tiers enumerate their grid completely
    'quick': (['', 'a', 'ab', 'abc', 'abcd', 'abcde', 'abcdef', 'é', 'aé€d'], list(range(-8, 9))),
    'thorough': (['abcdefghijkl'[:n] for n in range(13)] + ['é', 'aé€d', 'ü€ñßéà'], list(range(-15, 16))),
}
STRINGS, VALUES = GRIDS['quick']
OMIT = 'omitted'
OOR = '<IndexError>'
PATHS = ['sqlite', 'generic', 'postgres', 'mysql', 'oracle']
JUDGES = {'sqlite': ['native'], 'generic': ['mysql', 'oracle'], 'postgres': ['postgres'],
          'mysql': ['mysql'], 'oracle': ['oracle']}


# ----------------------------------------------------------------------------------------------
# trusted dialect models (NULL in => NULL out)
# ----------------------------------------------------------------------------------------------
class DialectError(Exception):
    pass


def pg_substr(s, start, count=None, _two=False):
    # PostgreSQL substr(string, start [, count]) = SQL substring(s FROM start FOR count):
    # the window is positions [start, start+count); positions < 1 count against the length; count < 0 is an error.
    if s is None or start is None or (count is None and not _two): return None
    s = str(s); start = int(start)
    if _two: return s[max(start, 1) - 1:]
    count = int(count)
    if count < 0: raise DialectError('negative substring length not allowed')
    end = start + count
    lo = max(start, 1)
    return s[lo - 1:max(end - 1, lo - 1)]


def mysql_substr(s, pos, n=None, _two=False):
    # MySQL SUBSTR(str,pos[,len]): pos<0 counts from the end; pos=0 or |pos|>length => ''; len<1 => ''.
    if s is None or pos is None or (n is None and not _two): return None
    s = str(s); pos = int(pos); L = len(s)
    start = L + pos if pos < 0 else pos - 1
    if start < 0 or start > L: return ''
    if _two: return s[start:]
    n = int(n)
    if n < 1: return ''
    return s[start:start + n]


def ora_substr(s, pos, n=None, _two=False):
    # Oracle SUBSTR(char,position[,len]): position 0 is treated as 1; negative counts backward from the end;
    # len<1 => NULL; '' is NULL.
    if s is None or s == '' or pos is None or (n is None and not _two): return None
    s = str(s); pos = int(pos); L = len(s)
    if pos == 0: pos = 1
    start = L + pos if pos < 0 else pos - 1
    if start < 0 or start >= L: return None
    if _two: r = s[start:]
    else:
        n = int(n)
        if n < 1: return None
        r = s[start:start + n]
    return r if r != '' else None


def _length_chars(s):
    return None if s is None else len(str(s))
def _length_bytes(s):          # MySQL LENGTH(): bytes (connection charset utf8)
    return None if s is None else len(str(s).encode('utf8'))
def _length_ora(s):            # Oracle: '' is NULL
    return None if s is None or s == '' else len(str(s))

def _extreme_null_if_any(f):   # MySQL / Oracle GREATEST/LEAST: NULL if any argument is NULL
    def g(*a):
        return None if any(x is None for x in a) else f(a)
    return g
def _extreme_skip_null(f):     # PostgreSQL GREATEST/LEAST ignore NULLs
    def g(*a):
        a = [x for x in a if x is not None]
        return f(a) if a else None
    return g

MODELS = {
    'postgres': dict(substr=pg_substr, length=_length_chars, wrap=_extreme_skip_null),
    'mysql': dict(substr=mysql_substr, length=_length_bytes, wrap=_extreme_null_if_any),
    'oracle': dict(substr=ora_substr, length=_length_ora, wrap=_extreme_null_if_any),
}


def register_model(con, model, length_override=None):
    m = MODELS[model]
    sub = m['substr']
    con.create_function('substr', 2, lambda s, p: sub(s, p, None, True))
    con.create_function('substr', 3, lambda s, p, n: sub(s, p, n))
    con.create_function('length', 1, length_override or m['length'])
    con.create_function('greatest', -1, m['wrap'](max))
    con.create_function('least', -1, m['wrap'](min))
    con.create_function('concat', -1, lambda *a: None if any(x is None for x in a) else ''.join(map(str, a)))


# ----------------------------------------------------------------------------------------------
# whitelist tokenizer + placeholder rewriter (nothing else is rewritten)
# ----------------------------------------------------------------------------------------------
TOKEN_RE = re.compile(r"""
    (?P<ws>\s+) | (?P<dq>"(?:[^"]|"")*") | (?P<bq>`(?:[^`]|``)*`) | (?P<str>'(?:[^'\\]|'')*')
  | (?P<pyf>%\((?P<pyname>\w+)\)s) | (?P<fmt>%s) | (?P<pct>%%) | (?P<named>:(?P<nname>[A-Za-z_]\w*)) | (?P<num>:(?P<nidx>\d+))
  | (?P<qm>\?) | (?P<int>\d+) | (?P<word>[A-Za-z_]\w*) | (?P<op><>|>=|<=|\|\||[-+*/=<>(),.])
""", re.X)
WORDS = {'select', 'distinct', 'from', 'where', 'and', 'or', 'not', 'case', 'when', 'then', 'else', 'end', 'is',
         'null', 'as', 'substr', 'length', 'greatest', 'least', 'coalesce',
         'exists', 'in', 'count', 'max', 'concat'}       # nested contexts: subqueries, aggregates, string concatenation


def rewrite(sql, args):
    """-> (sqlite_sql, sqlite_args) or None if the statement leaves the whitelisted fragment."""
    out, params, pos = [], [], 0
    while pos < len(sql):
        m = TOKEN_RE.match(sql, pos)
        if m is None: return None
        pos = m.end()
        k = m.lastgroup
        if k in ('pyname', 'nname', 'nidx'): k = {'pyname': 'pyf', 'nname': 'named', 'nidx': 'num'}[k]
        t = m.group(0)
        if k == 'word':
            if t.lower() not in WORDS: return None
            out.append(t)
        elif k == 'pyf':
            if not isinstance(args, dict) or m.group('pyname') not in args: return None
            out.append('?'); params.append(args[m.group('pyname')])
        elif k == 'named':
            if not isinstance(args, dict) or m.group('nname') not in args: return None
            out.append('?'); params.append(args[m.group('nname')])
        elif k == 'num':
            i = int(m.group('nidx')) - 1
            if not isinstance(args, (tuple, list)) or not 0 <= i < len(args): return None
            out.append('?'); params.append(args[i])
        elif k in ('fmt', 'qm'):
            if not isinstance(args, (tuple, list)) or len(params) >= len(args): return None
            out.append('?'); params.append(args[len(params)])
        elif k == 'pct':
            return None
        else:
            out.append(t)
    return ''.join(out), tuple(params)


# ----------------------------------------------------------------------------------------------
# reference
# ----------------------------------------------------------------------------------------------
def py_slice(s, start, stop):
    return s[start:stop]

def py_index(s, i):
    try: return s[i]
    except IndexError: return OOR

def dev_stop_minus_one(s, start, stop):
    """Deviation rule C25-SLICE-STOP-MINUS-ONE: a constant/parameter stop of -1 together with an omitted or
    zero start is taken for 'no slice at all' (sentinel -1 in StringMixin.__getitem__)."""
    if stop == -1 and start in (None, 0): return s
    return s[start:stop]


def dev_generic_negative_start(s, start, stop):
    """What the non-PostgreSQL branch of SQLBuilder.STRING_SLICE computes for a negative start under
    'negative position counts from the end, beyond the string => empty' (MySQL, Oracle):
    substr(s, start, greatest(stop + 1 - start, 0)) resp. substr(s, start, stop - start)."""
    L = len(s)
    if -start > L: return ''
    begin = L + start
    if stop is None: return s[begin:]
    n = (stop + 1 - start) if stop >= 0 else (stop - start)
    return s[begin:begin + n] if n >= 1 else ''


def same(got, exp, nullish):
    if exp == OOR: return got in ('', None)
    if got == exp: return True
    return nullish and exp == '' and got is None


# ----------------------------------------------------------------------------------------------
# query plan
# ----------------------------------------------------------------------------------------------
def bound_variants(with_none):
    """[(kind, value, source-text-template)]; the template gets the parameter/column name later."""
    out = [(OMIT, None)]
    for v in VALUES:
        out.append(('const', v)); out.append(('param', v))
    out.append(('expr', None))          # column p.a / p.b: all values -8..8 come from the rows
    if with_none:
        out.append(('none_const', None)); out.append(('none_param', None))
    return out


def bound_src(kind, value, pname, col):
    if kind == OMIT: return ''
    if kind == 'const': return str(value)
    if kind in ('param', 'none_param'): return pname
    if kind == 'expr': return 'p.' + col
    if kind == 'none_const': return 'None'
    raise AssertionError(kind)


def plan():
    """All query descriptions: dict(form, sk, sv, ek, ev) for slices, dict(form='index', ik, iv)."""
    qs = []
    bs = bound_variants(True)
    for sk, sv in bs:
        for ek, ev in bs:
            qs.append({'form': 'slice', 'sk': sk, 'sv': sv, 'ek': ek, 'ev': ev})
    for ik, iv in bound_variants(True):
        if ik == OMIT: continue
        qs.append({'form': 'index', 'ik': ik, 'iv': iv})
    return qs


def query_source(q, filter_value=None):
    conds = []
    if q['form'] == 'slice':
        expr = 'p.s[%s:%s]' % (bound_src(q['sk'], q['sv'], 'x', 'a'), bound_src(q['ek'], q['ev'], 'y', 'b'))
        if q['sk'] != 'expr': conds.append('p.a == 0')
        if q['ek'] != 'expr': conds.append('p.b == 0')
        g = {}
        if q['sk'] in ('param', 'none_param'): g['x'] = q['sv']
        if q['ek'] in ('param', 'none_param'): g['y'] = q['ev']
    else:
        expr = 'p.s[%s]' % bound_src(q['ik'], q['iv'], 'x', 'a')
        if q['ik'] != 'expr': conds.append('p.a == 0')
        conds.append('p.b == 0')
        g = {}
        if q['ik'] in ('param', 'none_param'): g['x'] = q['iv']
    if filter_value is None:
        src = '(p.id, %s) for p in E' % expr
    else:
        src = 'p.id for p in E'
        conds.append('%s == %r' % (expr, filter_value))
    if conds: src += ' if ' + ' and '.join(conds)
    return src, g



# ----------------------------------------------------------------------------------------------
# nested contexts + repeated execution from ONE code object on a warm Database
# ----------------------------------------------------------------------------------------------
def nested_shapes():
    """[(name, form, ncols, build(G, E, x, y, t, k) -> Query, ref(R) -> comparable)].
    Every `build` is a real Python code object (generator expression / lambda), so calling it again with other
    x / y re-executes the SAME query code with different parameter values (translator and SQL caches are warm).
    R: namespace with items [(id, s, gid)], by_g {gid: [(id, s)]}, tags, sl(s), ix(s), eq(a, b), t, tc, t2, k."""
    from pony.orm import select, exists, count, max as pmax
    S = []
    def add(name, form, ncols, build, ref): S.append((name, form, ncols, build, ref))
    ids_where = lambda R, pred: sorted(i for (i, s, g) in R.items if pred(i, s, g))
    groups_where = lambda R, pred: sorted(g for g in R.tags if pred(R.by_g.get(g, [])))
    # -- slices ---------------------------------------------------------------------------------
    add('top_proj', 'slice', 2, lambda G, E, x, y, t, k: select((p.id, p.s[x:y]) for p in E if p.g is not None),
        lambda R: sorted((i, R.sl(s)) for (i, s, g) in R.items))
    add('select_lambda', 'slice', 1, lambda G, E, x, y, t, k: E.select(lambda p: p.g is not None and p.s[x:y] == t),
        lambda R: ids_where(R, lambda i, s, g: R.eq(R.sl(s), R.t)))
    add('filter_lambda', 'slice', 1, lambda G, E, x, y, t, k: select(p for p in E if p.g is not None).filter(lambda p: p.s[x:y] == t),
        lambda R: ids_where(R, lambda i, s, g: R.eq(R.sl(s), R.t)))
    add('where_lambda', 'slice', 1, lambda G, E, x, y, t, k: select(p for p in E if p.g is not None).where(lambda p: p.s[x:y] == t),
        lambda R: ids_where(R, lambda i, s, g: R.eq(R.sl(s), R.t)))
    add('query_over_query', 'slice', 1,
        lambda G, E, x, y, t, k: select(p.id for p in select(q for q in E if q.g is not None and q.s[x:y] == t)),
        lambda R: ids_where(R, lambda i, s, g: R.eq(R.sl(s), R.t)))
    add('exists', 'slice', 1, lambda G, E, x, y, t, k: select(g.id for g in G if exists(p for p in g.items if p.s[x:y] == t)),
        lambda R: groups_where(R, lambda its: any(R.eq(R.sl(s), R.t) for i, s in its)))
    add('filter_exists', 'slice', 1, lambda G, E, x, y, t, k: G.select().filter(lambda g: exists(p for p in g.items if p.s[x:y] == t)),
        lambda R: groups_where(R, lambda its: any(R.eq(R.sl(s), R.t) for i, s in its)))
    add('count_ge', 'slice', 1, lambda G, E, x, y, t, k: select(g.id for g in G if count(p for p in g.items if p.s[x:y] == t) >= k),
        lambda R: groups_where(R, lambda its: sum(1 for i, s in its if R.eq(R.sl(s), R.t)) >= R.k))
    add('const_in_subquery', 'slice', 1, lambda G, E, x, y, t, k: select(g.id for g in G if t in (p.s[x:y] for p in g.items)),
        lambda R: groups_where(R, lambda its: any(R.eq(R.sl(s), R.t) for i, s in its)))
    add('slice_in_subquery', 'slice', 1,
        lambda G, E, x, y, t, k: select(p.id for p in E if p.g is not None and p.s[x:y] in (q.s[x:y] for q in E if q.g is not None and q.id != p.id)),
        lambda R: ids_where(R, lambda i, s, g: any(R.eq(R.sl(s), R.sl(s2)) for (i2, s2, g2) in R.items if i2 != i)))
    add('nested2', 'slice', 1,
        lambda G, E, x, y, t, k: select(g.id for g in G if exists(p for p in g.items if exists(
            q for q in E if q.g == g and q.id != p.id and q.s[x:y] == p.s[x:y]))),
        lambda R: groups_where(R, lambda its: any(R.eq(R.sl(s), R.sl(s2)) for i, s in its for i2, s2 in its if i2 != i)))
    add('lifted_to_one', 'slice', 1, lambda G, E, x, y, t, k: select(p.id for p in E if p.g.tag[x:y] == t),
        lambda R: ids_where(R, lambda i, s, g: R.eq(R.sl(R.tags[g]), R.t2)))
    add('max_in_select', 'slice', 2, lambda G, E, x, y, t, k: select((g.id, pmax(p.s[x:y] for p in g.items)) for g in G),
        lambda R: sorted((g, R.smax([R.sl(s) for i, s in R.by_g.get(g, [])])) for g in R.tags))
    add('len_of_slice', 'slice', 1, lambda G, E, x, y, t, k: select(g.id for g in G if exists(p for p in g.items if len(p.s[x:y]) == k)),
        lambda R: groups_where(R, lambda its: any(len(R.sl(s)) == R.k for i, s in its)))
    add('concat_const', 'slice', 1, lambda G, E, x, y, t, k: select(g.id for g in G if exists(p for p in g.items if p.s[x:y] + 'z' == t + 'z')),
        lambda R: groups_where(R, lambda its: any(R.sl(s) == R.t for i, s in its)))
    add('proj_with_correlated_exists', 'slice', 2,
        lambda G, E, x, y, t, k: select((p.id, p.s[x:y]) for p in E if p.g is not None and exists(
            q for q in p.g.items if q.id != p.id and q.s[x:y] == p.s[x:y])),
        lambda R: sorted((i, R.sl(s)) for (i, s, g) in R.items
                         if any(R.eq(R.sl(s), R.sl(s2)) for i2, s2 in R.by_g[g] if i2 != i)))
    # -- indexes --------------------------------------------------------------------------------
    add('ix_top_proj', 'index', 2, lambda G, E, x, y, t, k: select((p.id, p.s[x]) for p in E if p.g is not None),
        lambda R: sorted((i, R.ix(s)) for (i, s, g) in R.items))
    add('ix_select_lambda', 'index', 1, lambda G, E, x, y, t, k: E.select(lambda p: p.g is not None and p.s[x] == t),
        lambda R: ids_where(R, lambda i, s, g: R.ix(s) == R.tc))
    add('ix_exists', 'index', 1, lambda G, E, x, y, t, k: select(g.id for g in G if exists(p for p in g.items if p.s[x] == t)),
        lambda R: groups_where(R, lambda its: any(R.ix(s) == R.tc for i, s in its)))
    add('ix_count', 'index', 1, lambda G, E, x, y, t, k: select(g.id for g in G if count(p for p in g.items if p.s[x] == t) >= 1),
        lambda R: groups_where(R, lambda its: any(R.ix(s) == R.tc for i, s in its)))
    add('ix_const_in_subquery', 'index', 1, lambda G, E, x, y, t, k: select(g.id for g in G if t in (p.s[x] for p in g.items)),
        lambda R: groups_where(R, lambda its: any(R.ix(s) == R.tc for i, s in its)))
    add('ix_filter_exists', 'index', 1, lambda G, E, x, y, t, k: G.select().filter(lambda g: exists(p for p in g.items if p.s[x] == t)),
        lambda R: groups_where(R, lambda its: any(R.ix(s) == R.tc for i, s in its)))
    return S


class _R(object):
    pass


def nested_run(ctx, dbs, base, group_of, TAGS, eval_con, agg):
    """Every slice/index shape embedded in nested contexts (exists / count / in-subqueries / aggregates in the
    select list / lambda filters / query over query / attribute lifted through a relationship) and executed
    REPEATEDLY from the same code object with different parameter values (sign changes, None) on a warm
    Database; every single execution is compared with Python."""
    import collections
    from pony.orm import db_session
    shapes = nested_shapes()
    shapes = [sh for i, sh in enumerate(shapes) if i % ctx.nshards == ctx.shard % max(1, min(ctx.nshards, len(shapes)))] \
        if ctx.nshards > 1 else shapes
    items = [(i, s, group_of[i]) for (i, s) in base]
    by_g = {}
    for (i, s, g) in items: by_g.setdefault(g, []).append((i, s))
    rng = ctx.subrng('nested', ctx.shard)
    bounds = list(VALUES) + [None]
    pairs = [(x, y) for x in bounds for y in bounds]
    full = ctx.tier == 'thorough'
    ctx.extra['nested_shapes'] = [sh[0] for sh in nested_shapes()]

    def most_common(values, fallback):
        c = collections.Counter(v for v in values if v not in ('', OOR, None))
        return sorted(c.items(), key=lambda kv: (-kv[1], kv[0]))[0][0] if c else fallback

    def make_R(x, y, nullish, slfn):
        R = _R()
        R.items, R.by_g, R.tags, R.k = items, by_g, TAGS, 2
        R.sl = lambda s: slfn(s, x, y)
        R.ix = lambda s: py_index(s, x) if x is not None else OOR
        R.eq = (lambda a, b: a == b and a != '') if nullish else (lambda a, b: a == b)
        def smax(vals):
            vals = [v for v in vals if v is not None and not (nullish and v == '')]
            return max(vals) if vals else None
        R.smax = smax
        return R

    def targets(x, y):
        t = most_common([s[x:y] for i, s in base], 'zz')
        t2 = most_common([tg[x:y] for tg in TAGS.values()], 'zz')
        tc = most_common([py_index(s, x) for i, s in base], 'q') if x is not None else 'q'
        return t, t2, tc

    def norm(val, ncols, nullish, form):
        out = []
        for r in val:
            if ncols == 1: out.append(r[0] if isinstance(r, tuple) else r)
            else:
                v = r[1]
                if v == OOR: v = None
                if v == '' and (nullish or form == 'index'): v = None
                out.append((r[0], v))
        return sorted(out, key=repr)

    def signature(path, judge, name, x, y, err):
        sg = lambda v: 'none' if v is None else ('neg' if v < 0 else 'nonneg')
        return '%s/%s nested %s x=%s y=%s%s' % (path, judge, name, sg(x), sg(y), ' ERROR' if err else '')

    # ---- string-source family: every kind combination of the top-level grid (const / param / column / None) inside
    # ---- exists(), an IN-subquery and an aggregate in the select list --------------------------------------------------
    from pony.orm import select as _select, exists as _exists, max as _pmax, count as _count
    CONTEXTS = [('src_exists', 1, 'g.id for g in G if exists(p for p in g.items if %s == t)',
                 lambda R, f: sorted(g for g in R.tags if any(R.eq(f(R, s), R.tt) for i, s in R.by_g.get(g, [])))),
                ('src_in_subquery', 1, 'g.id for g in G if t in (%s for p in g.items)',
                 lambda R, f: sorted(g for g in R.tags if any(R.eq(f(R, s), R.tt) for i, s in R.by_g.get(g, [])))),
                ('src_max_in_select', 2, '(g.id, max(%s for p in g.items)) for g in G',
                 lambda R, f: sorted((g, R.smax([(None if f(R, s) == OOR else f(R, s)) for i, s in R.by_g.get(g, [])])) for g in R.tags))]
    src_shapes = []
    for cname, ncols, tmpl, cref in CONTEXTS:
        def build(G, E, x, y, t, k, meta, tmpl=tmpl):
            q = meta
            if q['form'] == 'slice':
                expr = 'p.s[%s:%s]' % (bound_src(q['sk'], q['sv'], 'x', 'a'), bound_src(q['ek'], q['ev'], 'y', 'b'))
            else:
                expr = 'p.s[%s]' % bound_src(q['ik'], q['iv'], 'x', 'a')
            g = {'G': G, 'E': E, 't': t, 'exists': _exists, 'max': _pmax, 'count': _count}
            if q.get('sk') in ('param', 'none_param') or q.get('ik') in ('param', 'none_param'): g['x'] = q.get('sv') if q['form'] == 'slice' else q['iv']
            if q.get('ek') in ('param', 'none_param'): g['y'] = q['ev']
            return _select(tmpl % expr, g)
        def ref(R, cref=cref):
            if R.form == 'slice': return cref(R, lambda R_, s_: R_.sl(s_))
            return cref(R, lambda R_, s_: R_.ix(s_))
        src_shapes.append((cname, 'src', ncols, build, ref))
    if ctx.nshards > 1:
        src_shapes = [sh for i, sh in enumerate(src_shapes) if i % ctx.nshards == (ctx.shard + 5) % ctx.nshards]
    src_plan = plan()

    for (name, form, ncols, build, ref) in shapes + src_shapes:
        if form == 'slice':
            sched = [(x, y, None) for (x, y) in pairs]; rng.shuffle(sched)
        elif form == 'index':
            sched = [(x, None, None) for x in bounds] * 3; rng.shuffle(sched)
        else:
            sched = []
            for q in src_plan:
                if q['form'] == 'slice':
                    sched.append((0 if q['sk'] == 'expr' else q['sv'], 0 if q['ek'] == 'expr' else q['ev'], q))
                elif name != 'src_max_in_select' or True:
                    sched.append((0 if q['ik'] == 'expr' else q['iv'], None, q))
            rng.shuffle(sched)
            if not full: sched = sched[:len(sched) // 3]      # quick: a seeded third of the kind grid per context
        for path in PATHS:
            db, E = dbs[path]
            G = db.G
            if form == 'src': todo = sched if path == 'sqlite' else sched[:400 if full else 40]
            else: todo = sched if path == 'sqlite' else sched[:300 if full else 48]
            prev = None
            for (x, y, meta) in todo:
                cform = form if meta is None else meta['form']
                t, t2, tc = targets(x, y)
                tval = tc if cform == 'index' else (t2 if name == 'lifted_to_one' else t)
                kval = 2 if name == 'count_ge' else 1
                none_kind = meta is not None and any(meta.get(kk) in ('none_const', 'none_param') for kk in ('sk', 'ek', 'ik'))
                ctx.count('nested.executions.%s' % path)
                before = prev
                if prev is not None and prev != (x, y): ctx.count('nested.reexecutions_with_changed_params')
                prev = (x, y)
                res = sql = args = None
                with db_session:
                    try:
                        query = build(G, E, x, y, tval, kval) if meta is None else build(G, E, x, y, tval, kval, meta)
                        sql, args, _, _ = query._construct_sql_and_arguments()
                        if path == 'sqlite':
                            res = [(r.id if hasattr(r, '_pkval_') else r) for r in query[:]]
                    except Exception as e:
                        if (cform == 'index' and x is None) or none_kind:
                            ctx.count('outcome.pony_raised'); ctx.count('outcome.pony_raised.' + type(e).__name__)
                            ctx.case((path, 'nested-raised', name, repr(meta)), nontrivial=False)
                            continue
                        ctx.count('outcome.pony_raised_unexpected')
                        ent = agg.setdefault('%s nested %s raised %s' % (path, name, type(e).__name__),
                                             [0, {'path': path, 'shape': name, 'x': x, 'y': y, 'kinds': meta, 'error': repr(e)[:300]}])
                        ent[0] += 1
                        continue
                if none_kind and cform == 'index':
                    ctx.count('outcome.unsupported'); continue
                for judge in JUDGES[path]:
                    nullish = judge == 'oracle'
                    err, got, rerun = None, None, None
                    if path == 'sqlite':
                        got = res
                    else:
                        rw = rewrite(sql, args)
                        if rw is None or (judge == 'oracle' and '||' in rw[0]):
                            ctx.count('outcome.unsupported'); ctx.count('outcome.unsupported.nested.%s' % path)
                            if ctx.counters.get('outcome.unsupported', 0) <= 3:
                                ctx.extra.setdefault('unsupported_examples', []).append({'path': path, 'sql': sql})
                            continue
                        try: got = eval_con(path, judge).execute(rw[0], rw[1]).fetchall()
                        except sqlite3.Error as e:
                            err = '%s: %s' % (type(e).__name__, e)
                            if 'user-defined function raised exception' in err:
                                err = probe_error(eval_con(path, judge), rw, judge) or err
                        if judge == 'mysql':
                            def rerun(rw=rw, path=path):
                                try: return eval_con(path, 'mysql', _length_chars).execute(rw[0], rw[1]).fetchall()
                                except sqlite3.Error: return None
                    def make(fn):
                        R = make_R(x, y, nullish, fn)
                        R.t, R.t2, R.tc, R.k, R.form = t, t2, tc, kval, cform
                        R.tt = tc if cform == 'index' else t
                        return R
                    exp = ref(make(py_slice))
                    ctx.case((path, judge, 'nested', name, x, y, repr(meta)), nontrivial=True,
                             sample=None if ctx.evaluations % 3001 else {'path': path, 'model': judge, 'shape': name, 'x': x, 'y': y,
                                                                          'target': tval, 'sql': sql, 'got': repr(got)[:200], 'python': repr(exp)[:200]})
                    ctx.count('nested.cells'); ctx.count('nested.cells.%s' % name)
                    w = {'path': path, 'model': judge, 'shape': name, 'context': 'nested/repeated', 'x': x, 'y': y, 'kinds': meta,
                         'target': tval, 'sql': sql, 'args': repr(args), 'got': repr(got)[:400], 'error': err, 'python': repr(exp)[:400],
                         'previous_params_of_this_code_object': before}
                    nf = 'index' if cform == 'index' else 'slice'
                    if err is None and norm(got, ncols, nullish, nf) == norm(exp, ncols, nullish, nf):
                        ctx.count('outcome.agree'); ctx.count('nested.agree')
                        if exp: ctx.count('nested.agree_nonempty')
                        continue
                    # deviation rules (same mechanisms as for the top-level grid), re-evaluated on the whole result
                    found = None
                    devs = []
                    CP = (OMIT, 'const', 'param')
                    mk = None if meta is None else {kk: (OMIT if vv in ('none_const', 'none_param') else vv) for kk, vv in meta.items()}
                    consts = mk is None or (mk.get('sk') in CP and mk.get('ek') in ('const', 'param'))
                    if cform == 'slice':
                        if consts and y == -1 and x in (None, 0): devs.append((['C25-SLICE-STOP-MINUS-ONE'], dev_stop_minus_one))
                        if mk is not None and mk.get('ek') == 'expr' and mk.get('sk') in CP and x in (None, 0) and ctx.is_open('C25-SLICE-EXPR-STOP-IGNORED'):
                            devs.append((['C25-SLICE-EXPR-STOP-IGNORED'], lambda s_, a_, b_: s_))
                        if judge in ('mysql', 'oracle') and x is not None and x < 0:
                            devs.append((['C25-GENERIC-NEG-START-BEYOND-LENGTH'], lambda s_, a_, b_: '' if -a_ > len(s_) else s_[a_:b_]))
                            devs.append((['C25-GENERIC-NEG-START-NONNEG-STOP'] if (y is not None and y >= 0) else
                                         ['C25-GENERIC-NEG-START-BEYOND-LENGTH'], dev_generic_negative_start))
                    def ref_with(fn):
                        return norm(ref(make(fn)), ncols, nullish, nf)
                    if err is None:
                        for fids, fn in devs:
                            if norm(got, ncols, nullish, nf) == ref_with(fn): found = fids; break
                        if found is None and rerun is not None:
                            got2 = rerun()
                            if got2 is not None:
                                g2 = norm(got2, ncols, nullish, nf)
                                for fids, fn in [([], py_slice)] + devs:
                                    if g2 == ref_with(fn): found = ['C25-MYSQL-LENGTH-BYTES'] + fids; break
                    elif judge == 'postgres' and 'negative substring length' in err and cform == 'slice' \
                            and (meta is None or (meta['sk'] in ('const', 'param') and meta['ek'] in ('const', 'param'))) \
                            and x is not None and y is not None and y < x and (x >= 0) == (y >= 0):
                        found = ['C25-PG-NEGATIVE-LENGTH']
                    if found:
                        for fid in found:
                            ctx.count('outcome.known_mechanism.' + fid)
                            ctx.finding(fid, w)
                    else:
                        ctx.count('outcome.disagree'); ctx.count('nested.disagree')
                        ent = agg.setdefault(signature(path, judge, name, x, y, err), [0, w])
                        ent[0] += 1


# ----------------------------------------------------------------------------------------------
def run(ctx):
    from pony.orm import Database, Required, Optional, db_session, select, flush
    from vlib import shimlib
    global STRINGS, VALUES
    STRINGS, VALUES = GRIDS[ctx.tier]
    ctx.extra['grid'] = {'string_lengths': sorted({len(x) for x in STRINGS}), 'non_ascii_strings': [x for x in STRINGS if not x.isascii()],
                         'bounds': [VALUES[0], VALUES[-1]], 'kinds': ['omitted', 'const', 'param', 'expr(column)', 'none_const', 'none_param']}

    rows = []          # (id, s, a, b)
    rid = 0
    for s in STRINGS:
        for a in VALUES:
            for b in VALUES:
                rid += 1
                rows.append((rid, s, a, b))
    by_id = {r[0]: r for r in rows}

    from pony.orm import PrimaryKey, Set
    def define(db):
        G = type('G', (db.Entity,), {'id': PrimaryKey(int), 'tag': Optional(str), 'items': Set('E')})
        a_s = Optional(str); a_a = Required(int); a_b = Required(int); a_g = Optional('G')
        E = type('E', (db.Entity,), {'s': a_s, 'a': a_a, 'b': a_b, 'g': a_g})
        return E

    # nested-context data: the rows with a == b == 0 (one per string) are spread over groups 1..4; group 5 stays empty
    base = [(i, s_) for (i, s_, a, b) in rows if a == 0 and b == 0]
    group_of = {i: k % 4 + 1 for k, (i, s_) in enumerate(base)}
    TAGS = {1: '', 2: 'x', 3: 'tuv', 4: 'tuvwxyz', 5: 'é€x'}

    # -- databases per path ---------------------------------------------------------------
    dbs = {}
    for path in PATHS:
        db = Database()
        if path == 'sqlite':
            db.bind('sqlite', ':memory:')
        elif path == 'generic':
            db.bind(shimlib.make_generic_provider_class('qmark'))
        else:
            shimlib.bind(db, path)
        E = define(db)
        db.generate_mapping(create_tables=(path == 'sqlite'), check_tables=False)
        dbs[path] = (db, E)
    # populate the real SQLite database through pony, in chunks
    db, E = dbs['sqlite']
    with db_session:
        Gs = {k: db.G(id=k, tag=t_) for k, t_ in TAGS.items()}
        for (i, s, a, b) in rows:
            if i in group_of: E(id=i, s=s, a=a, b=b, g=Gs[group_of[i]])
            else: E(id=i, s=s, a=a, b=b)

    # -- evaluation connections: one per (path, judge model) --------------------------------
    evals = {}
    def eval_con(path, model, length_override=None):
        key = (path, model, length_override is not None)
        if key in evals: return evals[key]
        _, E = dbs[path]
        con = sqlite3.connect(':memory:')
        register_model(con, model, length_override)
        q = lambda n: '"%s"' % n.replace('"', '""')
        t = E._table_
        t = t if isinstance(t, str) else t[-1]
        cols = [E.id.column, E.s.column, E.a.column, E.b.column, E.g.column]
        con.execute('create table %s (%s)' % (q(t), ', '.join(q(c) for c in cols)))
        nul = lambda v: None if (model == 'oracle' and v == '') else v
        data = [(i, nul(s), a, b, group_of.get(i)) for (i, s, a, b) in rows]
        con.executemany('insert into %s values (?,?,?,?,?)' % q(t), data)
        G = E._database_.G
        gt = G._table_ if isinstance(G._table_, str) else G._table_[-1]
        con.execute('create table %s (%s, %s)' % (q(gt), q(G.id.column), q(G.tag.column)))
        con.executemany('insert into %s values (?,?)' % q(gt), [(k, nul(t_)) for k, t_ in TAGS.items()])
        evals[key] = con
        return con

    all_q = plan()
    mine = [q for i, q in enumerate(all_q) if i % ctx.nshards == ctx.shard]
    ctx.extra['queries_planned'] = len(all_q)
    ctx.extra['executed_on'] = ['sqlite (real)', 'generic->mysql-model', 'generic->oracle-model',
                                'postgres-model', 'mysql-model', 'oracle-model']
    filter_every = 1 if ctx.tier == 'thorough' else 7
    agg = {}           # aggregated violations: key -> [count, first witness]

    def classify(path, judge, q, s, a, b, got, errtext, sql, rerun_length):
        """-> ('agree'|'finding'|'violation', id_or_signature)"""
        nullish = (judge == 'oracle')
        if q['form'] == 'slice':
            start = a if q['sk'] == 'expr' else q['sv']
            stop = b if q['ek'] == 'expr' else q['ev']
            exp = py_slice(s, start, stop)
        else:
            idx = a if q['ik'] == 'expr' else q['iv']
            start = stop = None
            exp = py_index(s, idx)
        if errtext is None and same(got, exp, nullish): return 'agree', None, exp
        # deviation rules -------------------------------------------------------------------
        CP = (OMIT, 'const', 'param')
        if errtext is None and q['form'] == 'slice' and q['sk'] in CP and start in (None, 0):
            # sentinel -1 in StringMixin.__getitem__: "start omitted/0 and stop_value == -1 => no slice"
            if q['ek'] in ('const', 'param') and stop == -1 and same(got, dev_stop_minus_one(s, start, stop), nullish):
                return 'finding', 'C25-SLICE-STOP-MINUS-ONE', exp
            if q['ek'] == 'expr' and ctx.is_open('C25-SLICE-EXPR-STOP-IGNORED') and same(got, s, nullish):
                return 'finding', 'C25-SLICE-EXPR-STOP-IGNORED', exp
        if errtext is not None and judge == 'postgres' and 'negative substring length' in errtext \
                and q['form'] == 'slice' and q['sk'] in ('const', 'param') and q['ek'] in ('const', 'param') \
                and stop < start and (start >= 0) == (stop >= 0):
            return 'finding', 'C25-PG-NEGATIVE-LENGTH', exp
        if errtext is None and judge in ('mysql', 'oracle') and q['form'] == 'slice' and start is not None and start < 0:
            if same(got, dev_generic_negative_start(s, start, stop), nullish):
                if -start > len(s): return 'finding', 'C25-GENERIC-NEG-START-BEYOND-LENGTH', exp
                if stop is not None and stop >= 0: return 'finding', 'C25-GENERIC-NEG-START-NONNEG-STOP', exp
        if errtext is None and judge in ('mysql', 'oracle') and q['form'] == 'index' and idx < 0 and -idx > len(s):
            pass   # index out of range: '' / NULL already accepted above
        if errtext is None and judge == 'mysql' and rerun_length is not None and len(s.encode('utf8')) != len(s):
            if same(rerun_length(), exp, nullish):
                return 'finding', 'C25-MYSQL-LENGTH-BYTES', exp
        # unclassified ------------------------------------------------------------------------
        def sg(v): return 'omit' if v is None else ('neg' if v < 0 else 'nonneg')
        if q['form'] == 'slice':
            sig = '%s/%s slice start=%s:%s stop=%s:%s%s' % (path, judge, q['sk'], sg(start), q['ek'], sg(stop),
                                                          ' ERROR' if errtext else '')
        else:
            sig = '%s/%s index %s:%s%s' % (path, judge, q['ik'], sg(idx), ' ERROR' if errtext else '')
        return 'violation', sig, exp

    def judge_rows(path, judge, q, src, g, result, errtext, sql, rerun=None):
        """result: {id: value} (projection form)."""
        ids = relevant_ids(q)
        for i in ids:
            _, s, a, b = by_id[i]
            got = None if errtext else result.get(i, '<missing row>')
            rl = None
            if rerun is not None:
                rl = (lambda i=i: rerun().get(i, '<missing row>'))
            verdict, what, exp = classify(path, judge, q, s, a, b, got, errtext, sql, rl)
            fpr = (path, judge, q['form'], q.get('sk'), q.get('sv'), q.get('ek'), q.get('ev'), q.get('ik'), q.get('iv'),
                   s, a if 'expr' in (q.get('sk'), q.get('ik')) else None, b if q.get('ek') == 'expr' else None)
            nontrivial = bool(s) or q['form'] == 'index' or q['sk'] != OMIT or q['ek'] != OMIT
            ctx.case(fpr, nontrivial=nontrivial,
                     sample=None if ctx.evaluations % 4001 else {'path': path, 'model': judge, 'query': src,
                                                                  'params': g, 'sql': sql, 's': s, 'got': got,
                                                                  'python': exp})
            ctx.count('cells.%s' % path)
            if verdict == 'agree':
                ctx.count('outcome.agree')
                if exp not in ('', OOR): ctx.count('outcome.agree_nonempty')
            elif verdict == 'finding':
                ctx.count('outcome.known_mechanism.' + what)
                ctx.finding(what, {'path': path, 'model': judge, 'query': src, 'params': g, 'sql': sql, 's': s,
                                   'a': a, 'b': b, 'got': got, 'error': errtext, 'python': exp, 'q': q})
            else:
                ctx.count('outcome.disagree')
                e = agg.setdefault(what, [0, {'path': path, 'model': judge, 'query': src, 'params': g, 'sql': sql,
                                              's': s, 'a': a, 'b': b, 'got': got, 'error': errtext, 'python': exp,
                                              'q': q}])
                e[0] += 1

    ids_cache = {}
    def relevant_ids(q):
        ua = 'expr' in (q.get('sk'), q.get('ik'))
        ub = q.get('ek') == 'expr'
        key = (ua, ub)
        if key not in ids_cache:
            ids_cache[key] = [i for (i, s, a, b) in rows if (ua or a == 0) and (ub or b == 0)]
        return ids_cache[key]

    sql_cache = {}     # (path, judge, sql, args) -> (result, errtext)
    qn = 0
    for q in mine:
        qn += 1
        src, g = query_source(q)
        for path in PATHS:
            db, E = dbs[path]
            glob = dict(g, E=E)
            ctx.count('queries.%s' % path)
            with db_session:
                try:
                    query = select(src, glob)
                    sql, args, _, _ = query._construct_sql_and_arguments()
                    if path == 'sqlite': res = dict(query[:])
                except Exception as e:
                    loud_ok = 'none_const' in (q.get('sk'), q.get('ek'), q.get('ik')) or \
                              'none_param' in (q.get('sk'), q.get('ek'), q.get('ik'))
                    if loud_ok:
                        ctx.count('outcome.pony_raised'); ctx.count('outcome.pony_raised.' + type(e).__name__)
                        ctx.case((path, 'raised', src, repr(sorted(g.items()))), nontrivial=False)
                        continue
                    ctx.count('outcome.pony_raised_unexpected')
                    e2 = agg.setdefault('%s translation raised %s' % (path, type(e).__name__),
                                        [0, {'path': path, 'query': src, 'params': g, 'error': repr(e)[:300], 'q': q}])
                    e2[0] += 1
                    continue
            if 'none_const' in (q.get('sk'), q.get('ek'), q.get('ik')) or 'none_param' in (q.get('sk'), q.get('ek'), q.get('ik')):
                # explicit None bound accepted by pony: must then mean "omitted"
                q2 = dict(q)
                for kk, vk in (('sk', 'sv'), ('ek', 'ev')):
                    if q2.get(kk) in ('none_const', 'none_param'): q2[kk], q2[vk] = OMIT, None
                if q2.get('ik') in ('none_const', 'none_param'):
                    ctx.count('outcome.unsupported'); continue
                qj = q2
                ctx.count('none_bound_accepted.%s' % path)
            else:
                qj = q
            if path == 'sqlite':
                judge_rows(path, 'native', qj, src, g, res, None, sql)
                if q['form'] == 'slice' and qn % filter_every == 0 and 'expr' not in (q['sk'], q['ek']) \
                        and qj is q:
                    check_filter_form(ctx, select, db_session, E, q, rows, agg)
                continue
            for judge in JUDGES[path]:
                rw = rewrite(sql, args)
                if rw is None:
                    ctx.count('outcome.unsupported'); ctx.count('outcome.unsupported.' + path)
                    if ctx.counters.get('outcome.unsupported', 0) <= 3:
                        ctx.extra.setdefault('unsupported_examples', []).append({'path': path, 'sql': sql})
                    continue
                key = (path, judge, rw[0], rw[1])
                if key not in sql_cache:
                    con = eval_con(path, judge)
                    try:
                        sql_cache[key] = (dict(con.execute(rw[0], rw[1]).fetchall()), None)
                    except sqlite3.Error as e:
                        sql_cache[key] = ({}, '%s: %s' % (type(e).__name__, e))
                    ctx.count('dialect_sql_evaluated.%s/%s' % (path, judge))
                result, err = sql_cache[key]
                if err is not None and 'user-defined function raised exception' in err:
                    # find which DialectError it was (sqlite3 hides the message): re-run once with a probe
                    err = probe_error(eval_con(path, judge), rw, judge) or err
                rerun = None
                if judge == 'mysql':
                    def rerun(rw=rw, path=path):
                        k2 = (path, 'mysql+charlength', rw[0], rw[1])
                        if k2 not in sql_cache:
                            c2 = eval_con(path, 'mysql', _length_chars)
                            try: sql_cache[k2] = (dict(c2.execute(rw[0], rw[1]).fetchall()), None)
                            except sqlite3.Error as e: sql_cache[k2] = ({}, str(e))
                        return sql_cache[k2][0]
                judge_rows(path, judge, qj, src, g, result, err, sql, rerun)
        if len(sql_cache) > 20000: sql_cache.clear()

    nested_run(ctx, dbs, base, group_of, TAGS, eval_con, agg)

    for sig, (n, w) in sorted(agg.items()):
        w = dict(w, cells_with_this_signature=n)
        ctx.violation(w, mechanism=sig[:120])
    ctx.extra['distinct_disagreement_signatures'] = len(agg)
    ctx.extra['disagreement_signatures'] = {sig: n for sig, (n, w) in sorted(agg.items())}
    # floors: the deciding monitors must have seen the bulk of the grid on every path
    per = max(1, len(mine))
    for path in PATHS:
        ctx.floor('cells.%s' % path, 5 * per)
        ctx.floor('nested.executions.%s' % path, 150)
    ctx.floor('nested.agree_nonempty', 300)
    ctx.floor('nested.reexecutions_with_changed_params', 300)
    ctx.floor('outcome.agree_nonempty', 10 * per)
    for c in evals.values(): c.close()


def probe_error(con, rw, judge):
    """sqlite3 reports UDF exceptions without text; run the model directly to recover the message."""
    holder = {}
    m = MODELS[judge]['substr']
    def s3(s, p, n):
        try: return m(s, p, n)
        except DialectError as e:
            holder['msg'] = str(e); raise
    con.create_function('substr', 3, s3)
    try:
        try: con.execute(rw[0], rw[1]).fetchall()
        except sqlite3.Error: pass
    finally:
        con.create_function('substr', 3, lambda s, p, n: m(s, p, n))
    return ('DialectError: ' + holder['msg']) if holder else None


def check_filter_form(ctx, select, db_session, E, q, rows, agg):
    """SQLite only: the slice inside a WHERE condition (p.s[i:j] == const) selects exactly Python's rows."""
    start, stop = q['sv'], q['ev']
    target = 'abcdef'[start:stop]
    if target == '': target = 'abcd'[start:stop]
    src, g = query_source(q, filter_value=target)
    with db_session:
        try:
            got = set(select(src, dict(g, E=E))[:])
        except Exception as e:
            ent = agg.setdefault('sqlite filter form raised %s' % type(e).__name__,
                                 [0, {'query': src, 'params': g, 'error': repr(e)[:300], 'q': q}])
            ent[0] += 1
            return
    exp = {i for (i, s, a, b) in rows if a == 0 and b == 0 and s[start:stop] == target}
    devexp = {i for (i, s, a, b) in rows if a == 0 and b == 0 and dev_stop_minus_one(s, start, stop) == target}
    ctx.case(('sqlite', 'filter', src, repr(sorted(g.items()))), nontrivial=bool(exp))
    ctx.count('cells.sqlite_filter_form')
    if got == exp:
        ctx.count('outcome.agree')
    elif got == devexp and stop == -1 and start in (None, 0):
        ctx.count('outcome.known_mechanism.C25-SLICE-STOP-MINUS-ONE')
        ctx.finding('C25-SLICE-STOP-MINUS-ONE', {'path': 'sqlite', 'form': 'filter', 'query': src, 'params': g,
                                                 'got_ids': sorted(got), 'python_ids': sorted(exp)})
    else:
        ctx.count('outcome.disagree')
        ent = agg.setdefault('sqlite filter form', [0, {'query': src, 'params': g, 'got_ids': sorted(got),
                                                         'python_ids': sorted(exp), 'q': q}])
        ent[0] += 1


def replay(ctx, witness):
    """Re-run the one query of a witness on its path and report whether it still disagrees."""
    q = witness.get('q')
    if not q:
        print('witness has no query description'); return
    import checks.C25 as me
    saved = me.plan
    me.plan = lambda: [q]
    try: run(ctx)
    finally: me.plan = saved

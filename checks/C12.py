META = {
    'level': 'exploration',
    'engine': 'E2+E3',
    'technique': 'reverse-attribute walker over live session caches + reference model',
    'level_text': 'Two workloads: random long histories and a small-scope exhaustive mode (all operation sequences up to length 3 / 4 over a focused alphabet per relationship and per key, each in a fresh session on a committed population). Walker over both ends of every loaded relationship in the session cache after every operation, plus link rows at commit. Held on the generated histories only: fixed templates covering every relationship kind alternate with random 2-4 entity diagrams; violating histories are shrunk by re-running the real code.',
    'level_note': 'Trusted: the reference model in vlib/hmodel.py (documented assignment / collection / cascade semantics, conflict timing free), SQLite as the only backend, single-threaded sessions. Loud unexpected errors are counted, not judged. One-to-one self links are out of scope.',
    'rule': 'one case = one generated history (diagram + operation list, up to N operations over several sessions); distinct = distinct (diagram, operation list); non-trivial = at least two applied modifications and at least one event judged by the deciding monitor',
    'assumptions': ['SQLite only', 'reference model semantics as documented in DESIGN.md 2.2', 'histories are single-threaded'],
    'design_ref': 'DESIGN.md 2.2, 3 C12',
}
SHARDS = {'quick': 4, 'thorough': 16}
SHARD_TIMEOUT = {'quick': 300, 'thorough': 1500}

CFG = {
    'monitors': 'reverse,cachemodel'.split(','),
    'deciding_counters': ['reverse.links_checked'],
    'n': {'quick': 500, 'thorough': 1000},
    'ops': {'quick': 30, 'thorough': 60},
}


SMALL = {
    'templates': ['m2m', 'o2m_opt', 'o2m_req', 'self', 'o2o_opt', 'o2o_req_cascade', 'mixed_cascade', 'pkref'],
    'budget': {'quick': 24000, 'thorough': 160000},
    'monitors': CFG['monitors'],
}


def run(ctx):
    from vlib import hcheck, hsmall
    hcheck.run_histories(ctx, CFG)
    hsmall.run_small_scope(ctx, dict(SMALL, stop_on_taint=CFG.get('stop_on_taint', True)))
    ctx.floor('reverse.links_checked', 500)


def replay(ctx, witness):
    from vlib import hcheck
    hcheck.replay(ctx, witness, CFG)

"""C03 — decompiling a generator or lambda preserves its meaning (engine E6).

For generated expressions e the running interpreter compiles `lambda ..: e`, `(e for a in T)`,
`(a for a in T if e)`, several-for, nested-generator, closure and tuple-target variants; pony's
decompile() is called on the real function / generator object and the result is judged by
  (a) well-formedness of the tree (every field holds a node of the kind the grammar allows),
  (b) value equivalence: ast.unparse(tree) re-compiled and evaluated equals the original on all truth
      assignments of the free names, with tracer values (vlib/exprgen.V) so equal value == equal term,
  (c) loop structure: number of for-clauses, targets, and per clause the iterable (value) and the
      conjunction of its conditions (truthiness) equal those of ast.parse(source),
  (d) cache transparency: same object decompiled twice; a second code object compiled from the same
      text; a twin with permuted free names (equal bytecode, different names).
An exception from decompile() is a loud rejection and accepted.
"""
import ast, copy, itertools, zlib

META = {
    'level': 'exploration',
    'engine': 'E6',
    'technique': 'runtime monitor: real decompile() on interpreter-compiled generators/lambdas, judged by '
                 'truth-table equivalence over tracer values, tree well-formedness and loop-structure comparison',
    'level_text': 'Bounded-exhaustive over all operator trees up to a node bound (reduced operator set, one '
                  'left-to-right naming of the leaves) in every query form, plus random larger expressions of the '
                  'full grammar; each case is decided exactly for its truth table (all assignments of <= 4 free names) '
                  'because tracer values make value equality equal to term equality. Nothing is claimed beyond the '
                  'enumerated/sampled expressions and the running CPython (3.12).',
    'level_note': 'Trusted: CPython compile/ast.parse/ast.unparse, the tracer algebra in vlib/exprgen.py (derived '
                  'truthiness is a salted hash bit of the term, so `in`/`not` results are compared through that bit over '
                  'all environments; cases whose source raises in every environment are counted separately). Known '
                  'findings are shape predicates on the SOURCE: inside a listed shape a failing case is attributed to the '
                  'shape (reduced power there); evidence states known_shape_cases vs checked_cases.',
    'rule': 'case = (scope, query text). Exhaustive part: every operator tree with <= N nodes over '
            '{and, or, not, ==, <, if-else, +, .attr, call} with leaves named a,b,c,d left to right, in the three basic '
            'forms lambda / (e for a in T) / (a for a in T if e) (quick N=7, thorough N=8), in 14 further forms (closure '
            'scope, element+condition, two conditions, two for-clauses, nested generators, tuple target; quick N=5, '
            'thorough N=6) and over an extended operator set (is None, in, unary -, subscript, chained comparison, keyword '
            'call, tuple; quick N=4, thorough N=5). `is None` family: every and/or/not tree with <= 4 (thorough 6) nodes over '
            '{x is None, y is not None, a comparison} in 20 positions (condition, element value, lambda body, test of a '
            'conditional expression in element / condition / lambda, comparison operand). Large part: and/or chains and '
            'trees of 18-300 comparison operands in 7 styles (code objects that need EXTENDED_ARG). Random part: expressions of 6-34 nodes over the full grammar in all '
            'forms; fixed corpus of 94 hand-written realistic queries x 2 scopes. Distinct = distinct (scope, query text); '
            'non-trivial = the query has at least 4 (lambda) / 6 (generator) nodes.',
    'assumptions': ['CPython 3.12 bytecode (the interpreter under /venv); other versions compile differently and are not covered',
                    'decompile() is deterministic for a given code object',
                    'ast.unparse renders a well-formed tree faithfully'],
    'shims': [],
    'exhaustive_tiers': [],
}
SHARDS = {'quick': 1, 'thorough': 16}
SHARD_TIMEOUT = {'quick': 300, 'thorough': 1500}

K1 = 'C03-IFEXP-IN-GENERATOR'
K1L = 'C03-IFEXP-IN-LAMBDA'
K2 = 'C03-BOOLOP-IN-COMPARE'
K3 = 'C03-BOOLOP-VALUE-IN-IF'
K4 = 'C03-CHAINED-COMPARE-IN-GENERATOR'
K5 = 'C03-CONSTANT-OPERAND-IN-CONDITION'
K6 = 'C03-STAR-ARGS-CALL'
K7 = 'C03-LAMBDA-CELL-PARAM-WITH-FREEVARS'
K8 = 'C03-DEEP-ANDOR-NESTING-IN-IF'

# --------------------------------------------------------------------------
# query forms.  {e} is always wrapped in parentheses (parentheses never change the code object).
#   kind: 'lambda' | 'gen';  scope: 'global' (free names are globals) | 'closure' (free names are cells)
#   bound: names of the expression bound by the form itself (not part of the truth assignment)
# --------------------------------------------------------------------------
FORMS = {
    'lam':        dict(kind='lambda', scope='global', src='lambda a, b, c, d: ({e})', bound=()),
    'elt':        dict(kind='gen', scope='global', src='(({e}) for a in T)', bound=('a',)),
    'if':         dict(kind='gen', scope='global', src='(a for a in T if ({e}))', bound=('a',)),
    'lam_c':      dict(kind='lambda', scope='closure', src='lambda a: ({e})', bound=()),
    'elt_c':      dict(kind='gen', scope='closure', src='(({e}) for a in T)', bound=('a',)),
    'if_c':       dict(kind='gen', scope='closure', src='(a for a in T if ({e}))', bound=('a',)),
    'elt_if':     dict(kind='gen', scope='global', src='(({e}) for a in T if a.p)', bound=('a',)),
    'if_elt':     dict(kind='gen', scope='global', src='(a.p + b for a in T if ({e}))', bound=('a',)),
    'if_if':      dict(kind='gen', scope='global', src='(a for a in T if b.q if ({e}))', bound=('a',)),
    'for2_if':    dict(kind='gen', scope='global', src='((a, y) for a in T for y in U if ({e}))', bound=('a',)),
    'if_for2':    dict(kind='gen', scope='global', src='((a, y) for a in T if ({e}) for y in a.kids)', bound=('a',)),
    'if_for2_if': dict(kind='gen', scope='closure',
                       src='((a, y) for a in T if ({e}) for y in a.kids if y.p == d)', bound=('a',)),
    'nest_if':    dict(kind='gen', scope='global', src='(a for a in T if a in (y for y in U if ({e})))', bound=('a',)),
    'nest_elt':   dict(kind='gen', scope='global', src='(a for a in T if b in (({e}) for y in U))', bound=('a',)),
    'nest_call':  dict(kind='gen', scope='global', src='(d(y for y in U if ({e})) for a in T)', bound=('a',)),
    'lam_nest':   dict(kind='lambda', scope='global', src='lambda a, b, c, d: a in (y for y in b.kids if ({e}))', bound=()),
    'unpack':     dict(kind='gen', scope='global', src='(({e}) for a, b in T)', bound=('a', 'b')),
}
BASIC = ('lam', 'elt', 'if')
OTHER = tuple(f for f in FORMS if f not in BASIC)
IF_SLOT = ('if', 'if_c', 'if_elt', 'if_if', 'for2_if', 'if_for2', 'if_for2_if', 'nest_if', 'lam_nest', 'nest_call')
ENV_NAMES = ('a', 'b', 'c', 'd')


# --------------------------------------------------------------------------
# (a) well-formedness
# --------------------------------------------------------------------------
def _schema():
    E, one, opt, many, some = ast.expr, '1', '?', '*', '+'
    return {
        ast.BoolOp: [('op', ast.boolop, one), ('values', E, '2+')],
        ast.BinOp: [('left', E, one), ('op', ast.operator, one), ('right', E, one)],
        ast.UnaryOp: [('op', ast.unaryop, one), ('operand', E, one)],
        ast.Lambda: [('args', ast.arguments, one), ('body', E, one)],
        ast.IfExp: [('test', E, one), ('body', E, one), ('orelse', E, one)],
        ast.Dict: [('keys', E, '*?'), ('values', E, many)],
        ast.Set: [('elts', E, many)],
        ast.GeneratorExp: [('elt', E, one), ('generators', ast.comprehension, some)],
        ast.Compare: [('left', E, one), ('ops', ast.cmpop, some), ('comparators', E, some)],
        ast.Call: [('func', E, one), ('args', E, many), ('keywords', ast.keyword, many)],
        ast.FormattedValue: [('value', E, one), ('conversion', int, 'v'), ('format_spec', E, opt)],
        ast.JoinedStr: [('values', E, many)],
        ast.Constant: [],
        ast.Attribute: [('value', E, one), ('attr', str, 'v')],
        ast.Subscript: [('value', E, one), ('slice', E, one)],
        ast.Starred: [('value', E, one)],
        ast.Name: [('id', str, 'v')],
        ast.List: [('elts', E, many)],
        ast.Tuple: [('elts', E, many)],
        ast.Slice: [('lower', E, opt), ('upper', E, opt), ('step', E, opt)],
        ast.comprehension: [('target', E, one), ('iter', E, one), ('ifs', E, many)],
        ast.keyword: [('arg', str, 'v?'), ('value', E, one)],
        ast.arguments: [('posonlyargs', ast.arg, many), ('args', ast.arg, many), ('vararg', ast.arg, opt),
                        ('kwonlyargs', ast.arg, many), ('kw_defaults', E, '*?'), ('kwarg', ast.arg, opt),
                        ('defaults', E, many)],
        ast.arg: [('arg', str, 'v')],
    }


SCHEMA = _schema()


def well_formed(node, stats, path='root', slice_ok=False, starred_ok=False):
    """Return None if the tree is well formed, else a description of the first problem.
    None where a list is expected is normalised to [] (pony writes Call(args=None, keywords=None) for f(*x));
    that is counted in stats, not judged."""
    t = type(node)
    spec = SCHEMA.get(t)
    if spec is None:
        return '%s: unexpected node type %s' % (path, t.__name__)
    if t is ast.Slice and not slice_ok: return '%s: Slice outside a subscript' % path
    if t is ast.Starred and not starred_ok: return '%s: Starred in illegal position' % path
    for fname, kind, mult in spec:
        try: val = getattr(node, fname)
        except AttributeError:
            if mult in ('?', 'v?'): val = None
            elif mult in ('*', '*?'):
                val = []; setattr(node, fname, val); stats['missing_list'] = stats.get('missing_list', 0) + 1
            else: return '%s.%s: missing field' % (path, fname)
        p = '%s.%s' % (path, fname)
        if mult in ('v', 'v?'):
            if val is None and mult == 'v?': continue
            if not isinstance(val, kind) or isinstance(val, bool): return '%s: %r is not %s' % (p, val, kind.__name__)
            continue
        if mult in ('1', '?'):
            if val is None:
                if mult == '?': continue
                return '%s: None' % p
            if not isinstance(val, kind): return '%s: %s where %s expected' % (p, type(val).__name__, kind.__name__)
            if kind in (ast.boolop, ast.operator, ast.unaryop): continue
            r = well_formed(val, stats, p, slice_ok=(t is ast.Subscript and fname == 'slice'),
                            starred_ok=False)
            if r: return r
            continue
        # list-valued
        if val is None:
            val = []; setattr(node, fname, val); stats['none_list'] = stats.get('none_list', 0) + 1
        if not isinstance(val, (list, tuple)): return '%s: %s where a list expected' % (p, type(val).__name__)
        if mult == '+' and len(val) < 1: return '%s: empty' % p
        if mult == '2+' and len(val) < 2: return '%s: BoolOp with %d value(s)' % (p, len(val))
        for i, v in enumerate(val):
            if v is None:
                if mult == '*?': continue
                return '%s[%d]: None' % (p, i)
            if not isinstance(v, kind): return '%s[%d]: %s where %s expected' % (p, i, type(v).__name__, kind.__name__)
            if kind is ast.cmpop: continue
            r = well_formed(v, stats, '%s[%d]' % (p, i),
                            slice_ok=(t is ast.Tuple and slice_ok),
                            starred_ok=(fname in ('args', 'elts')))
            if r: return r
    if t is ast.Compare and len(node.ops) != len(node.comparators): return '%s: ops/comparators length' % path
    if t is ast.Dict and len(node.keys) != len(node.values): return '%s: keys/values length' % path
    return None


# --------------------------------------------------------------------------
# shape predicates on the SOURCE (known findings).  They only say that a failing case lies inside a
# listed shape; they are evaluated on ast.parse(source of the whole query).
# --------------------------------------------------------------------------
def generators_of(tree):
    g = getattr(tree, '_c03_gens', None)
    if g is None:
        g = [n for n in ast.walk(tree) if isinstance(n, ast.GeneratorExp)]
        try: tree._c03_gens = g
        except AttributeError: pass
    return g


def shape_ifexp_in_generator(qtree):
    """K1: a conditional expression anywhere inside a generator expression of the query."""
    for g in generators_of(qtree):
        for n in ast.walk(g):
            if isinstance(n, ast.IfExp): return True
    return False


def shape_ifexp_in_lambda(qtree):
    """K1L: lambda query with a conditional expression in its body (outside nested generators)."""
    if not isinstance(qtree, ast.Lambda): return False

    def walk(n):
        if isinstance(n, ast.GeneratorExp): return False
        if isinstance(n, ast.IfExp): return True
        return any(walk(ch) for ch in ast.iter_child_nodes(n))
    return walk(qtree.body)


def shape_chained_compare_in_generator(qtree):
    """K4: a chained comparison (a < b < c) anywhere inside a generator expression."""
    for g in generators_of(qtree):
        for n in ast.walk(g):
            if isinstance(n, ast.Compare) and len(n.ops) > 1: return True
    return False


def value_boolops_in_if(qtree):
    """`and`/`or` nodes used as a VALUE inside an `if` clause of a generator: the node is not in boolean
    context (boolean context = the condition itself, operands of and/or/not that are themselves in boolean
    context, and the test of a conditional expression).  Returns [(boolop, parent)] where parent is the nearest
    enclosing node that is not `not`."""
    out = []

    def walk(n, boolctx, parent):
        if isinstance(n, ast.GeneratorExp): return        # nested generators are visited on their own
        if isinstance(n, ast.BoolOp):
            if not boolctx: out.append((n, parent))
            for v in n.values: walk(v, boolctx, n)
        elif isinstance(n, ast.UnaryOp) and isinstance(n.op, ast.Not):
            walk(n.operand, boolctx, parent)     # `not` in value context computes its operand as a value first
        elif isinstance(n, ast.IfExp):
            walk(n.test, True, n); walk(n.body, boolctx, n); walk(n.orelse, boolctx, n)
        else:
            for ch in ast.iter_child_nodes(n):
                if isinstance(ch, (ast.expr, ast.keyword, ast.comprehension)): walk(ch, False, n)
    for g in generators_of(qtree):
        for comp in g.generators:
            for cond in comp.ifs: walk(cond, True, comp)
    return out


def is_compile_time_constant(n):
    if isinstance(n, ast.Constant): return True
    if isinstance(n, ast.UnaryOp): return is_compile_time_constant(n.operand)
    if isinstance(n, ast.BinOp): return is_compile_time_constant(n.left) and is_compile_time_constant(n.right)
    if isinstance(n, ast.Tuple): return all(is_compile_time_constant(e) for e in n.elts)
    if isinstance(n, ast.JoinedStr): return not any(isinstance(v, ast.FormattedValue) for v in n.values)
    if isinstance(n, ast.Subscript): return is_compile_time_constant(n.value) and is_compile_time_constant(n.slice)
    return False


def shape_constant_operand_in_condition(qtree):
    """K5: inside a generator `if`, an and/or in boolean context has an operand whose truthiness the compiler
    knows (a constant, `not <constant>`, folded constant arithmetic): the compiler then drops/rewrites jumps."""
    found = []

    def walk(n, boolctx):
        if isinstance(n, ast.GeneratorExp): return
        if isinstance(n, ast.BoolOp):
            if boolctx and any(is_compile_time_constant(v) for v in n.values): found.append(n)
            for v in n.values: walk(v, boolctx)
        elif isinstance(n, ast.UnaryOp) and isinstance(n.op, ast.Not):
            walk(n.operand, boolctx)
        elif isinstance(n, ast.IfExp):
            walk(n.test, True); walk(n.body, boolctx); walk(n.orelse, boolctx)
        else:
            for ch in ast.iter_child_nodes(n):
                if isinstance(ch, (ast.expr, ast.keyword, ast.comprehension)): walk(ch, False)
    for g in generators_of(qtree):
        for comp in g.generators:
            for cond in comp.ifs: walk(cond, True)
    return bool(found)


def shape_star_args_call(qtree):
    """K6: a call with a *args argument anywhere in the query."""
    for n in ast.walk(qtree):
        if isinstance(n, ast.Call) and any(isinstance(a, ast.Starred) for a in n.args): return True
    return False


def _bound_here(scope_node):
    """Names bound by a lambda (parameters) or a generator expression (targets)."""
    if isinstance(scope_node, ast.Lambda):
        a = scope_node.args
        return {x.arg for x in a.posonlyargs + a.args + a.kwonlyargs} | \
               {x.arg for x in (a.vararg, a.kwarg) if x is not None}
    out = set()
    for comp in scope_node.generators:
        for m in ast.walk(comp.target):
            if isinstance(m, ast.Name): out.add(m.id)
    return out


def shape_lambda_cell_param(qtree, scope, outer_free=()):
    """K7: some lambda of the query (the query itself or a nested one) has a parameter that is captured by a
    generator/lambda nested inside it (the parameter becomes a cell variable) AND also reads a variable of an
    enclosing function scope (a free variable: an enclosing lambda parameter / generator target, or - when the
    query is written inside a function, scope == 'closure' - any outer name)."""
    def visit(node, enclosing_bound):
        hit = False
        if isinstance(node, ast.Lambda):
            params = _bound_here(node)
            captured = False
            for inner in ast.walk(node.body):
                if isinstance(inner, (ast.GeneratorExp, ast.Lambda)):
                    if any(isinstance(m, ast.Name) and m.id in params for m in ast.walk(inner)): captured = True
            if captured:
                for m in ast.walk(node.body):
                    if isinstance(m, ast.Name) and m.id not in params and m.id in enclosing_bound: hit = True
        if isinstance(node, (ast.Lambda, ast.GeneratorExp)):
            enclosing_bound = enclosing_bound | _bound_here(node)
        return hit or any(visit(ch, enclosing_bound) for ch in ast.iter_child_nodes(node))
    return visit(qtree, set(outer_free) if scope == 'closure' else set())


def andor_depth(n, neg=False):
    """(depth, top operator) of the and/or alternation of a condition: `not` is pushed inwards (it flips the
    operator), directly nested equal operators merge.  a -> 0; a and b -> 1; a and (b or c) -> 2; ..."""
    if isinstance(n, ast.UnaryOp) and isinstance(n.op, ast.Not): return andor_depth(n.operand, not neg)
    if not isinstance(n, ast.BoolOp): return 0, None
    op = 'and' if isinstance(n.op, ast.And) != neg else 'or'
    d = 1
    for v in n.values:
        dv, ov = andor_depth(v, neg)
        d = max(d, dv if ov == op else dv + 1)
    return d, op


def shape_deep_andor_in_if(qtree):
    """K8: the condition of one for-clause of a generator (all its `if`s together, i.e. joined by `and`) nests and/or
    alternately at least 5 levels deep, e.g. `a and ((b or (c and d)) and e or f)`."""
    for g in generators_of(qtree):
        for comp in g.generators:
            if comp.ifs and andor_depth(conj(comp.ifs))[0] >= 5: return True
    return False


def conj(ifs):
    if not ifs: return ast.Constant(value=True)
    if len(ifs) == 1: return ifs[0]
    return ast.BoolOp(op=ast.And(), values=list(ifs))


def _none_test_in_jump_context(test):
    """Does `test`, compiled as a branch condition, contain an `x is None` / `x is not None` check that becomes a
    POP_JUMP_IF_(NOT_)NONE instruction (reached through and/or/not/nested conditional expressions only)?"""
    if isinstance(test, ast.BoolOp): return any(_none_test_in_jump_context(v) for v in test.values)
    if isinstance(test, ast.UnaryOp) and isinstance(test.op, ast.Not): return _none_test_in_jump_context(test.operand)
    if isinstance(test, ast.IfExp):
        return any(_none_test_in_jump_context(x) for x in (test.test, test.body, test.orelse))
    return isinstance(test, ast.Compare) and len(test.ops) == 1 and isinstance(test.ops[0], (ast.Is, ast.IsNot)) \
        and isinstance(test.comparators[0], ast.Constant) and test.comparators[0].value is None


def shape_none_jump_in_yield_part(qtree):
    """LOUD-ONLY sub-shape (not a finding): a conditional expression whose test branches on `is None` / `is not
    None`, located in the part of a code object after its last loop condition - the element of a generator
    expression or the body of a lambda (outermost or nested).  decompiling.py conditional_jump_none_impl asserts
    `pos < conditions_end` there, so on the unchanged tree every such query is rejected (AssertionError).  The
    known-finding shapes for conditional expressions therefore do NOT cover it: a wrong tree here is a violation."""
    def walk(n, in_yield_part):
        if isinstance(n, ast.GeneratorExp):
            if walk(n.generators[0].iter, in_yield_part): return True     # evaluated by the enclosing code object
            if walk(n.elt, True): return True
            for i, comp in enumerate(n.generators):
                parts = [comp.target] + comp.ifs + ([comp.iter] if i else [])
                if any(walk(x, False) for x in parts): return True
            return False
        if isinstance(n, ast.Lambda):
            return walk(n.body, True) or any(walk(d, in_yield_part) for d in n.args.defaults)
        if isinstance(n, ast.IfExp) and in_yield_part and _none_test_in_jump_context(n.test): return True
        return any(walk(ch, in_yield_part) for ch in ast.iter_child_nodes(n))
    return walk(qtree, False)


def shape_boolop_in_compare(qtree):
    """K2: and/or as a direct operand of a comparison, in value context inside a generator `if`."""
    return any(isinstance(p, ast.Compare) for _, p in value_boolops_in_if(qtree))


def shape_boolop_value_in_if(qtree):
    """K3: and/or used as a value (operand of any non-boolean construct other than a comparison) inside a
    generator `if`."""
    return any(not isinstance(p, ast.Compare) for _, p in value_boolops_in_if(qtree))


# --------------------------------------------------------------------------
# building and evaluating a case
# --------------------------------------------------------------------------
import re
ITER_RE = re.compile(r'^(T|U)\d*$')


def clone(n):
    """Structural copy of an AST (fields only; much faster than copy.deepcopy)."""
    if isinstance(n, ast.AST):
        new = n.__class__()
        for f in n._fields:
            try: v = getattr(n, f)
            except AttributeError: continue
            setattr(new, f, clone(v))
        return new
    if isinstance(n, list): return [clone(x) for x in n]
    return n


class Case(object):
    """One query text (lambda or generator expression), compiled by the running interpreter either at
    'global' scope (free names are globals) or inside a function ('closure': free names are cells)."""
    def __init__(self, G, query_src, scope, label, e=None):
        self.query_src, self.scope, self.label, self.e = query_src, scope, label, e
        self.qtree = q = ast.parse(query_src, mode='eval').body
        self.kind = 'lambda' if isinstance(q, ast.Lambda) else 'gen'
        if not isinstance(q, (ast.Lambda, ast.GeneratorExp)): raise ValueError('not a query: ' + query_src)
        loaded, stored = G.loaded_names(q), G.stored_names(q)
        self.params = [a.arg for a in q.args.args] if self.kind == 'lambda' else []
        outer = sorted(loaded - stored)
        self.iters = [n for n in outer if ITER_RE.match(n)]
        self.free = [n for n in outer if not ITER_RE.match(n)]
        self.assign_names = self.params + self.free          # names that receive a truth assignment

    def build(self):
        """Returns maker(env) -> function / generator object."""
        if self.scope == 'global':
            code = compile(self.query_src, '<c03>', 'eval')
            return lambda env: eval(code, dict(env))
        outer = self.free + self.iters
        text = 'def _mk(%s):\n    return %s\n' % (', '.join(outer), self.query_src)
        ns = {}
        exec(compile(text, '<c03-closure>', 'exec'), ns)
        mk = ns['_mk']
        return lambda env: mk(*[env[n] for n in outer])

    def env(self, G, assign=None):
        t = dict.fromkeys(self.assign_names, True)
        if assign: t.update(assign)
        env = G.make_env(t)
        for it in self.iters:
            env[it] = [G.leaf(it + '0', True), G.leaf(it + '1', False)]
        return env

    def original(self, maker, env):
        if self.kind == 'lambda':
            fn = maker(env)
            return lambda: fn(*[env[p] for p in self.params])
        return lambda: maker(env)

    def twin_source(self):
        """The same query with its free names rotated (a bijection)."""
        if len(self.free) < 2: return None, None
        m = dict(zip(self.free, self.free[1:] + self.free[:1]))
        return ast.unparse(rename(self.qtree, m)), m


def rename(tree, m):
    tree = clone(tree)
    for n in ast.walk(tree):
        if isinstance(n, ast.Name) and n.id in m: n.id = m[n.id]
    return tree


def rename_dot0(tree, name):
    return rename(tree, {'.0': name})


def compile_expr(node):
    """Compile an expression tree directly (no detour through text: ast.unparse mis-renders a few negative
    constants, e.g. Constant(-2j) and Constant(-5) ** x).  Falls back to the unparsed text if CPython's AST
    validator rejects a tree that the schema walker accepted."""
    try:
        return compile(ast.fix_missing_locations(ast.Expression(body=node)), '<c03-dec>', 'eval')
    except (TypeError, ValueError):
        return compile(ast.unparse(node), '<c03-dec-text>', 'eval')


def sem_equal(G, n1, n2, truth_only):
    """Compare two expression ASTs on all truth assignments of their free names (tracer values)."""
    try:
        c1 = compile_expr(n1)
    except Exception as e:
        return True, 'source-side compile failed %s' % type(e).__name__      # cannot judge: not pony's fault
    try:
        c2 = compile_expr(n2)
    except Exception as e:
        return False, 'decompiled part does not compile: %s' % type(e).__name__
    names = (set(G.loaded_names(n1)) | set(G.loaded_names(n2))) - set(G.stored_names(n1))
    iters = sorted(n for n in names if ITER_RE.match(n))
    names = sorted(n for n in names if not ITER_RE.match(n))
    for i, asg in enumerate(G.assignments(names)):
        G.set_salt(1000 + i)
        env = G.make_env(asg)
        for it in iters: env[it] = [G.leaf(it + '0', True), G.leaf(it + '1', False)]
        if truth_only:
            r1 = G.truthkey(lambda: eval(c1, dict(env))); r2 = G.truthkey(lambda: eval(c2, dict(env)))
        else:
            r1 = G.run(lambda: eval(c1, dict(env))); r2 = G.run(lambda: eval(c2, dict(env)))
        if r1 != r2:
            return False, {'assignment': asg, 'source_gives': repr(r1)[:300], 'decompiled_gives': repr(r2)[:300]}
    return True, None


def loop_structure(G, src_gen, dec_gen):
    """(c): compare for-clauses of the decompiled GeneratorExp with those of ast.parse(source)."""
    if not isinstance(dec_gen, ast.GeneratorExp): return 'decompiled root is %s, not GeneratorExp' % type(dec_gen).__name__
    if len(src_gen.generators) != len(dec_gen.generators):
        return 'number of for-clauses: source %d, decompiled %d' % (len(src_gen.generators), len(dec_gen.generators))
    for i, (s, d) in enumerate(zip(src_gen.generators, dec_gen.generators)):
        if ast.dump(s.target) != ast.dump(d.target):
            return 'clause %d target: %s vs %s' % (i, ast.dump(s.target), ast.dump(d.target))
        ok, why = sem_equal(G, s.iter, d.iter, False)
        if not ok: return {'clause': i, 'part': 'iterable', 'why': why}
        ok, why = sem_equal(G, conj(s.ifs), conj(d.ifs), True)
        if not ok: return {'clause': i, 'part': 'conditions', 'why': why}
    return None


def judge(ctx, G, decompile, case, do_cache=True):
    """Run one case. Returns (outcome, detail); outcome in
    agree | loud | malformed | differ | structure | cache | unsupported."""
    maker = case.build()
    obj = maker(case.env(G))
    try:
        tree = decompile(obj)[0]
    except RecursionError:
        return 'unsupported', 'RecursionError'
    except Exception as ex:
        ctx.count('outcome.loud.' + type(ex).__name__)
        return 'loud', type(ex).__name__
    dump0 = ast.dump(tree)
    first_iter = case.qtree.generators[0].iter if case.kind == 'gen' else None
    dot0 = None if case.kind == 'lambda' else first_iter.id if isinstance(first_iter, ast.Name) else '_dot0'

    # (a) well-formedness
    wf_stats = {}
    work = rename_dot0(tree, dot0) if dot0 else clone(tree)
    if not isinstance(work, ast.expr):
        return 'malformed', 'root is %s' % type(work).__name__
    why = well_formed(work, wf_stats)
    for k, v in wf_stats.items(): ctx.count('wf.normalised_' + k, v)
    if why: return 'malformed', why
    try:
        text2 = ast.unparse(work)
        code2 = compile_expr(work)
    except RecursionError:
        return 'unsupported', 'RecursionError'
    except Exception as ex:
        return 'malformed', 'unparse/compile of the decompiled tree failed: %s: %s' % (type(ex).__name__, str(ex)[:200])
    ctx.count('monitor.wellformed_trees')

    # (b) value equivalence on all truth assignments of the free names (and lambda parameters)
    nenv = nraised = 0
    for i, asg in enumerate(G.assignments(case.assign_names, rng=ctx.subrng('asg', case.query_src))):
        G.set_salt(i)
        env = case.env(G, asg)
        if dot0 == '_dot0': env['_dot0'] = maker(env).gi_frame.f_locals['.0']
        r1 = G.run(case.original(maker, env))
        r2 = G.run(lambda: eval(code2, dict(env)))
        nenv += 1
        if r1[0] == 'EXC': nraised += 1
        if r1 != r2:
            ctx.count('monitor.environments', nenv)
            return 'differ', {'assignment': asg, 'decompiled': text2, 'source_gives': repr(r1)[:400],
                              'decompiled_gives': repr(r2)[:400]}
    ctx.count('monitor.environments', nenv)
    if nraised: ctx.count('monitor.environments_where_source_raised', nraised)
    if nraised == nenv: ctx.count('monitor.cases_where_source_always_raised')

    # (c) loop structure
    if case.kind == 'gen':
        why = loop_structure(G, case.qtree, work)
        ctx.count('monitor.loop_structures_compared')
        if why: return 'structure', {'decompiled': text2, 'why': why}

    # (d) cache transparency
    if do_cache:
        try: again = decompile(obj)[0]
        except Exception as ex: return 'cache', 'second decompile of the same object raised %s' % type(ex).__name__
        if ast.dump(again) != dump0: return 'cache', 'same object decompiled twice gives different trees'
        ctx.count('cache.same_object_twice')
        obj2 = Case(G, case.query_src, case.scope, case.label).build()(case.env(G))   # new code object, equal bytecode
        try: t2 = decompile(obj2)[0]
        except Exception as ex: return 'cache', 'equal code object raised %s' % type(ex).__name__
        if ast.dump(t2) != dump0: return 'cache', 'two code objects from the same text give different trees'
        ctx.count('cache.equal_code_objects')
        twin_src, m = case.twin_source()
        if twin_src is not None:
            twin = Case(G, twin_src, case.scope, case.label)
            obj3 = twin.build()(twin.env(G))
            try: t3 = decompile(obj3)[0]
            except Exception as ex: return 'cache', 'renamed twin raised %s' % type(ex).__name__
            if ast.dump(t3) != ast.dump(rename(tree, m)):
                try: shown = ast.unparse(t3)[:300]
                except Exception as e: shown = '<malformed tree: %s>' % type(e).__name__     # the witness text only
                return 'cache', {'twin': twin_src, 'twin_decompiled': shown}
            ctx.count('cache.renamed_twins')
    return 'agree', None


KNOWN_ORDER = (K7, K6, K4, K1, K1L, K2, K3, K5, K8)


def classify(qtree, scope, outer_free=()):
    """Known-shape membership of a query (source level), in attribution order."""
    shapes = []
    if shape_lambda_cell_param(qtree, scope, outer_free): shapes.append(K7)
    if shape_star_args_call(qtree): shapes.append(K6)
    if shape_chained_compare_in_generator(qtree): shapes.append(K4)
    if shape_ifexp_in_generator(qtree): shapes.append(K1)
    if shape_ifexp_in_lambda(qtree): shapes.append(K1L)
    if shape_boolop_in_compare(qtree): shapes.append(K2)
    if shape_boolop_value_in_if(qtree): shapes.append(K3)
    if shape_constant_operand_in_condition(qtree): shapes.append(K5)
    if shape_deep_andor_in_if(qtree): shapes.append(K8)
    return shapes


def run_case(ctx, G, decompile, query_src, scope, label, origin, e=None):
    try:
        case = Case(G, query_src, scope, label, e)
    except (SyntaxError, ValueError):
        ctx.count('outcome.unsupported_source'); return 'unsupported'
    nontrivial = G.count_nodes(case.qtree) >= (4 if case.kind == 'lambda' else 6) or origin == 'corpus'
    ctx.case([scope, query_src], nontrivial=nontrivial,
             sample={'form': label, 'scope': scope, 'query': query_src} if ctx.evaluations % 1499 == 0 else None)
    ctx.count('cases.' + origin)
    ctx.count('form.' + label)
    shapes = classify(case.qtree, scope, case.free + case.iters)
    loud_only = shape_none_jump_in_yield_part(case.qtree)
    if loud_only:
        # always rejected on the unchanged tree, so no listed finding can explain a silent failure here
        shapes = []
        ctx.count('loud_only_shape.cases')
    if shapes: ctx.count('known_shape_cases')
    else: ctx.count('checked_cases')
    try:
        outcome, detail = judge(ctx, G, decompile, case, do_cache=(origin in ('corpus', 'large') or zlib.crc32(query_src.encode()) % 3 == 0))
    except RecursionError:
        outcome, detail = 'unsupported', 'RecursionError'
    ctx.count('outcome.' + outcome)
    if loud_only: ctx.count('loud_only_shape.' + outcome)
    if outcome in ('agree', 'loud', 'unsupported'):
        if shapes and outcome == 'agree': ctx.count('known_shape_cases_that_agree')
        if not shapes and outcome == 'agree': ctx.count('checked_cases_that_agree')
        return outcome
    witness = {'query': query_src, 'scope': scope, 'form': label, 'outcome': outcome, 'detail': detail,
               'shapes': shapes}
    if shapes and (outcome != 'cache' or shapes[0] == K7):
        ctx.count('known_shape_failures')
        ctx.count('known_shape_failures.' + shapes[0])
        if len(shapes) > 1: ctx.count('known_shape_failures.in_several_shapes')
        ctx.finding(shapes[0], witness)
    else:
        ctx.violation(witness, mechanism='decompile-' + outcome)
    return outcome


# --------------------------------------------------------------------------
# workload
# --------------------------------------------------------------------------
EXT_OPS = ('and', 'or', 'not', 'eq', 'ifexp', 'add', 'attr', 'call', 'isnone', 'notnone', 'in', 'neg', 'index',
           'chain', 'kwcall', 'call0', 'tuple2')

# hand-written realistic queries (pony's own decompiler examples + common query shapes) and one canonical
# instance of every listed finding, so each run exercises them deterministically
CORPUS = """
(a for b in T)
(a for b, c in T)
(a for b in T1 for c in T2)
(a for b in T1 for c in T2 for d in T3)
(a for b in T if f)
(a for b in T if f and h)
(a for b in T if f and h or t)
(a for b in T if f == 5 and r or t)
(a for b in T if f and r and t)
(a for b in T if x and not y and z)
(a for b in T if not x and y)
(a for b in T if not x and y and z)
(a for b in T if not x and y or z)
(a**2 for b in T if t * r > y / 3)
(a + 2 for b in T if t + r > y // 3)
(a[2,v] for b in T if t - r > y[3])
((a + 2) * 3 for b in T if t[r, e] > y[3, r * 4, t])
(a<<2 for b in T if t>>e > r & (y & u))
(a|b for c in T1 if t^e > r | (y & (u & (w % z))))
([a, b, c] for d in T)
([a, b, 4] for d in T if a[4, b] > b[1,v,3])
((a, b, c) for d in T)
({} for d in T)
({'a' : x, 'b' : y} for a, b in T)
(({'a' : x, 'b' : y}, {'c' : x1, 'd' : 1}) for a, b, c, d in T)
([{'a' : x, 'b' : y}, {'c' : x1, 'd' : 1}] for a, b, c, d in T)
(a[1:2] for b in T)
(a[:2] for b in T)
(a[2:] for b in T)
(a[:] for b in T)
(a[1:2:3] for b in T)
(a[1:2, 3:4] for b in T)
(a[2:4:6,6:8] for a, y in T)
(a.b.c for d in T)
((s,d,w) for t in T if (4 != x.a or a*3 > 20) and a * 2 < 5)
([s,d,w] for t in T if (4 != x.amount or amount * 3 > 20 or amount * 2 < 5) and amount*8 == 20)
([s,d,w] for t in T if (4 != x.a or a*3 > 20 or a*2 < 5 or 4 == 5) and a * 8 == 20)
(s for s in T if s.a > 20 and (s.x.y == 123 or 'ABC' in s.p.q.r))
(a for b in T1 if c > d for e in T2 if f < g)
(func1(a, a.attr, x=123) for s in T)
(func1(a, b, a.attr1, a.b.c, x=123, y='foo') for s in T)
((x or y) and (p or q) for a in T if (a or b) and (c or d))
(x.y for x in T if (a and (b or (c and d))) or X)
(a for a in T1 if a in (b for b in T2))
(a for a in T1 if a in (b for b in T2 if b == a))
(a for a in T1 if a in select(b for b in T2))
(a for a in T1 if a in (b for b in T2 if b in (c for c in T3 if c == a)))
(a for a in T1 if a > x and a in (b for b in T1 if b < y) and a < z)
(a for a in T if a.b is None)
(a for a in T if a.b is not None)
(a for a in T if a.b is None or a.b == c)
(a for a in T if a.b is not None or a.b == c)
(a for a in T if a.b is None and a.c == d)
(a for a in T if a.b is not None and a.c == d)
(p for p in T if p.name.startswith(prefix) and p.age >= lo and p.age < hi)
(p for p in T if p.name == name or p.email == name)
((p.name, p.age) for p in T if p.age > x and (p.city == c or p.country == k) and not p.deleted)
(p for p in T if p.age in (x, y, z))
(p for p in T if p.age not in ages and p.name != n)
((p, count(p.orders)) for p in T if count(p.orders) > n)
(o for o in T if o.total > x * (1 + rate) and o.date >= d)
(p for p in T if f'{p.first} {p.last}' == full)
(p for p in T if p.name[1:n] == s or p.name[-1] == t)
(o.customer for o in T if o.price * o.qty - disc > lim)
(p for p in T if (p.a, p.b) == (x, y))
(p for p in T if not (p.a or p.b) and not (p.c and p.d))
(p for p in T for o in p.orders if o.total > x)
(p for p in T for o in U if o.customer == p and o.total > x)
((p, o) for p in T if p.age > x for o in p.orders if o.total > y if o.paid)
(p for p in T if getattr(p, n) == v)
(p for p in T if p.data[k] == v and p.tags[0] == t)
lambda p: p.age > x
lambda p: p.age > x and p.name == n
lambda p: p.age > x or p.name == n and not p.deleted
lambda p: (p.a or p.b) and (p.c or p.d)
lambda p: p.name.startswith(s) and (p.age < lo or p.age > hi)
lambda p: p.a is None or p.b is not None and p.c == x
lambda p: p in (o.customer for o in T if o.total > x)
lambda p: p.age + 1 > x * 2 and p.name[:2] == s
lambda p: not (p.a == x and p.b != y)
lambda p, q: p.a == q.b and p.c > x
lambda p: f(p.a, k=x) == y
lambda p: f'{p.a}-{x}' == s
lambda p: p.a if p.b else x
(a if b else c for x in T)
(x for x in T if (d if e else f))
(x for x in T if x.a == (b and c))
(x for x in T if (x.a or b).c > 1)
(x for x in T if x.a < b < c)
(x.a < b < c for x in T)
(x for x in T if x.a or 1)
(f(*x) for x in T)
lambda p: a and (not (b if c else d))
lambda p: (p, b, c, (p for z in T if c))
(x for x in T if a and ((b or (c and d)) and e or f))
(p.name if p.nick is None or p.age > 60 else p.nick for p in T)
(p for p in T if p.nick is None or p.age > lim and p.boss is not None)
lambda p: p.a is None and (p.b is not None or p.c == x) and not p.d is None
(p for p in T if (p.a is None or p.b == x) and (p.c is not None or p.d != y) and (p.e is None or p.f < z))
"""


def plan(tier):
    if tier == 'quick':
        return dict(basic_n=7, other_n=5, ext_n=4, random=3000, rmin=6, rmax=26, none_n=4, none_atoms=3, large_reps=4)
    return dict(basic_n=8, other_n=6, ext_n=5, random=100000, rmin=6, rmax=34, none_n=6, none_atoms=3, large_reps=40)


def exhaustive_cases(G, p):
    for n in range(1, p['basic_n'] + 1):
        for sh in G.enum_shapes(n, G.QUICK_OPS):
            e = G.instantiate(sh)
            for form in BASIC: yield form, e, 'exhaustive_basic'
            if n <= p['other_n']:
                for form in OTHER: yield form, e, 'exhaustive_other_forms'
    for n in range(2, p['ext_n'] + 1):
        for sh in G.enum_shapes(n, EXT_OPS):
            e = G.instantiate(sh)
            for form in ('lam', 'elt', 'if', 'if_c', 'lam_c', 'if_for2'):
                yield form, e, 'exhaustive_extended_ops'


NONE_POSITIONS = (   # (form, template for the expression slot of the form; {c} = the condition)
    ('lam', '{c}'), ('lam_c', '{c}'), ('if', '{c}'), ('if_c', '{c}'), ('if_if', '{c}'), ('if_for2', '{c}'),
    ('nest_if', '{c}'), ('for2_if', '{c}'), ('elt', '{c}'), ('elt_if', '{c}'), ('lam_nest', '{c}'),
    ('elt', 'a.p if ({c}) else d'), ('elt_if', 'a.p if ({c}) else d'), ('elt_c', 'b if ({c}) else a.q'),
    ('lam', 'a.p if ({c}) else d'), ('if', 'a.p if ({c}) else d'), ('nest_elt', 'y if ({c}) else d'),
    ('elt', '({c}) == d'), ('lam', '(({c}) and a.q > d) or c'), ('if', 'a.q > d and ({c})'),
)


def none_family_cases(G, p):
    """`is None` / `is not None` tests in every position: alone, under and/or/not, combined with comparisons, as
    condition, as element value, as test of a conditional expression in element / condition / lambda."""
    for cond in G.none_conditions(p['none_n'], p['none_atoms']):
        for form, tmpl in NONE_POSITIONS:
            yield form, tmpl.format(c=cond), 'none_family'


LARGE_STYLES = ('or', 'and', 'and_of_or', 'or_of_and', 'mixed', 'not_groups', 'arith')
LARGE_FORMS = ('lam', 'if', 'elt', 'lam_c', 'if_c', 'if_for2', 'elt_if', 'nest_if')


def large_cases(G, rng, p):
    """Long and/or chains and other big expressions: code objects whose jumps, names and constants need
    EXTENDED_ARG.  Sizes and styles are drawn from rng; every style x basic form occurs at least once."""
    k = 0
    for rep in range(p['large_reps']):
        for style in LARGE_STYLES:
            for form in (BASIC if rep == 0 else (LARGE_FORMS[(k + rep) % len(LARGE_FORMS)],)):
                k += 1
                n = rng.choice((18, 22, 26, 30, 40, 60)) if rng.random() < 0.85 else rng.choice((140, 300))
                yield form, G.large_expr(rng, n, style), 'large'


def random_opts(G, rng, form):
    o = G.Opts()
    x = rng.random()
    if form in IF_SLOT and x < 0.55:
        o = o.but(ifexp=False, boolop_value=False, compare_chain=False)   # stays outside the known shapes: full power
    elif FORMS[form]['kind'] == 'gen' and x < 0.8:
        o = o.but(ifexp=False, compare_chain=rng.random() < 0.3)
    elif FORMS[form]['kind'] == 'lambda' and x < 0.7:
        o = o.but(ifexp=False)
    if rng.random() < 0.8: o = o.but(star=False)
    if rng.random() < 0.5: o = o.but(lambdas=False, genexp=False)
    if rng.random() < 0.3: o = o.but(fstring=False)
    if rng.random() < 0.5: o = o.but(consts=False)
    return o


def run(ctx):
    import warnings
    warnings.simplefilter('ignore', SyntaxWarning)
    from vlib import exprgen as G
    from pony.orm.decompiling import decompile
    p = plan(ctx.tier)
    idx = 0
    for line in CORPUS.strip().splitlines():
        for scope in ('global', 'closure'):
            idx += 1
            if idx % ctx.nshards != ctx.shard: continue
            run_case(ctx, G, decompile, line.strip(), scope, 'corpus', 'corpus')
    import itertools as _it
    big = large_cases(G, ctx.subrng('large'), p)          # same list in every shard; sliced by index
    for form, e, origin in _it.chain(big, none_family_cases(G, p), exhaustive_cases(G, p)):
        idx += 1
        if idx % ctx.nshards != ctx.shard: continue
        run_case(ctx, G, decompile, FORMS[form]['src'].format(e=e), FORMS[form]['scope'], form, origin, e)
    ctx.extra['exhaustive_bounds'] = {'basic_forms_nodes': p['basic_n'], 'other_forms_nodes': p['other_n'],
                                      'extended_ops_nodes': p['ext_n'], 'operator_set': list(G.QUICK_OPS),
                                      'extended_operator_set': list(EXT_OPS)}
    forms = list(FORMS)
    nrand = p['random'] // ctx.nshards
    rng = ctx.rng
    for i in range(nrand):
        form = forms[i % len(forms)] if rng.random() < 0.5 else rng.choice(BASIC)
        n = rng.randint(p['rmin'], p['rmax'])
        src, tree = G.rand_source(rng, n, random_opts(G, rng, form))
        run_case(ctx, G, decompile, FORMS[form]['src'].format(e=src), FORMS[form]['scope'], form, 'random', src)
    ctx.extra['known_shapes'] = {
        K1: 'conditional expression anywhere inside a generator expression',
        K1L: 'conditional expression in the body of a lambda query',
        K2: 'and/or used as a value, direct operand of a comparison, inside a generator `if`',
        K3: 'and/or used as a value (operand of any other non-boolean construct) inside a generator `if`',
        K4: 'chained comparison inside a generator expression',
        K5: 'and/or in a generator `if` with an operand of compile-time-known truthiness',
        K6: 'call with *args anywhere in the query',
        K8: 'condition of a for-clause with and/or alternation nested 5 or more levels deep',
        K7: 'a lambda (query or nested) that reads an enclosing function-scope variable and whose parameter is captured by a nested generator/lambda'}
    ctx.extra['loud_only_shape'] = ('conditional expression branching on `is None`/`is not None` in a generator element or '
                                    'lambda body: rejected (AssertionError) by the unchanged tree; any silent failure there is '
                                    'a violation, the IfExp findings do not apply')
    ctx.extra['note'] = ('known_shape_cases = cases whose SOURCE lies in a listed shape (reduced power: a failure there is '
                         'attributed to the first listed shape); checked_cases = all others (any failure is a violation)')
    scale = 1.0 / ctx.nshards
    q = ctx.tier == 'quick'
    # floors are per shard (each shard judges its own slice), chosen at about a third of what the unchanged tree gives
    ctx.floor('checked_cases_that_agree', int((20000 if q else 80000) * scale))
    ctx.floor('monitor.environments', int((80000 if q else 400000) * scale))
    ctx.floor('monitor.loop_structures_compared', int((10000 if q else 50000) * scale))
    ctx.floor('cases.large', int((30 if q else 160) * scale))
    ctx.floor('cases.none_family', int((1000 if q else 20000) * scale))
    ctx.floor('cache.renamed_twins', int((4000 if q else 8000) * scale))


def replay(ctx, witness):
    import warnings
    warnings.simplefilter('ignore', SyntaxWarning)
    from vlib import exprgen as G
    from pony.orm.decompiling import decompile
    run_case(ctx, G, decompile, witness['query'], witness['scope'], witness.get('form', 'replay'), 'replay')

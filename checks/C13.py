META = {
    'level': 'exploration',
    'engine': 'E2+E3',
    'technique': 'session snapshot equality across failing calls + cache-vs-model walker + commit observer',
    'level_text': 'Two workloads: random long histories and a small-scope exhaustive mode (all operation sequences up to length 3 / 4 over a focused alphabet per relationship and per key, each in a fresh session on a committed population). Session snapshot (object status, loaded values, collections with pending added/removed, key indexes, pending writes) taken before every modification call and compared after every call that raises, plus a cache-vs-model walker; later commits are compared with a reference that ignored the failed call. Held on the generated histories only: fixed templates covering every relationship kind alternate with random 2-4 entity diagrams; violating histories are shrunk by re-running the real code.',
    'level_note': 'Trusted: the reference model in vlib/hmodel.py (documented assignment / collection / cascade semantics, conflict timing free), SQLite as the only backend, single-threaded sessions. Loud unexpected errors are counted, not judged. One-to-one self links are out of scope.',
    'rule': 'one case = one generated history (diagram + operation list, up to N operations over several sessions); distinct = distinct (diagram, operation list); non-trivial = at least two applied modifications and at least one event judged by the deciding monitor',
    'assumptions': ['SQLite only', 'reference model semantics as documented in DESIGN.md 2.2', 'histories are single-threaded'],
    'design_ref': 'DESIGN.md 2.2, 3 C13',
}
SHARDS = {'quick': 4, 'thorough': 16}
SHARD_TIMEOUT = {'quick': 300, 'thorough': 1500}

CFG = {
    'monitors': ['atomic', 'commit'],
    'deciding_counters': ['atomic.failed_calls_judged'],
    'n': {'quick': 500, 'thorough': 1000},
    'ops': {'quick': 30, 'thorough': 60},
    'invalid_rate': 0.45,
    'stale_rate': 0.08,
    'weights': {'create': 12, 'set': 14, 'setmany': 10, 'add': 8, 'remove': 6, 'assign': 5, 'clear': 3, 'delete': 10, 'read': 3, 'coll': 4, 'bypk': 1, 'bykey': 1, 'selectall': 1, 'selectcmp': 0, 'count': 1, 'todict': 0},
}


SMALL = {
    'templates': ['m2m', 'composite', 'mixed_cascade', 'o2m_req_nocascade', 'o2o_req'],
    'budget': {'quick': 24000, 'thorough': 160000},
    'monitors': CFG['monitors'],
}


def run(ctx):
    from vlib import hcheck, hsmall
    hcheck.run_histories(ctx, CFG)
    hsmall.run_small_scope(ctx, dict(SMALL, stop_on_taint=CFG.get('stop_on_taint', True)))
    ctx.floor('atomic.failed_calls_judged', 300)


def replay(ctx, witness):
    from vlib import hcheck
    hcheck.replay(ctx, witness, CFG)

META = {
    'level': 'exploration',
    'engine': 'E2+E3',
    'technique': 'cascade predictor + foreign_key_check + commit observer over delete-heavy histories',
    'level_text': 'Two workloads: random long histories and a small-scope exhaustive mode (all operation sequences up to length 3 / 4 over a focused alphabet per relationship and per key, each in a fresh session on a committed population). Every delete is compared with the cascade predictor of the reference model (cascade to dependents, clear optional references, refuse on a required dependent without cascade); PRAGMA foreign_key_check and a row comparison run on the raw file after every commit. Held on the generated histories only: fixed templates covering every relationship kind alternate with random 2-4 entity diagrams; violating histories are shrunk by re-running the real code.',
    'level_note': 'Trusted: the reference model in vlib/hmodel.py (documented assignment / collection / cascade semantics, conflict timing free), SQLite as the only backend, single-threaded sessions. Loud unexpected errors are counted, not judged. One-to-one self links are out of scope.',
    'rule': 'one case = one generated history (diagram + operation list, up to N operations over several sessions); distinct = distinct (diagram, operation list); non-trivial = at least two applied modifications and at least one event judged by the deciding monitor',
    'assumptions': ['SQLite only', 'reference model semantics as documented in DESIGN.md 2.2', 'histories are single-threaded'],
    'design_ref': 'DESIGN.md 2.2, 3 C15',
}
SHARDS = {'quick': 4, 'thorough': 16}
SHARD_TIMEOUT = {'quick': 300, 'thorough': 1500}

CFG = {
    'monitors': ['cascade', 'commit', 'atomic', 'index'],
    'deciding_counters': ['cascade.deletes_judged'],
    'n': {'quick': 500, 'thorough': 1000},
    'ops': {'quick': 30, 'thorough': 60},
    'seed_objects': 10,
    'weights': {'create': 8, 'set': 6, 'setmany': 2, 'add': 8, 'remove': 4, 'assign': 2, 'clear': 2, 'delete': 22, 'flush': 6, 'commit': 5, 'read': 2, 'coll': 4},
}


SMALL = {
    'templates': ['mixed_cascade', 'o2m_req', 'o2m_req_nocascade', 'o2o_req_cascade', 'self', 'pkref'],
    'budget': {'quick': 24000, 'thorough': 160000},
    'monitors': CFG['monitors'],
}


def run(ctx):
    from vlib import hcheck, hsmall
    hcheck.run_histories(ctx, CFG)
    hsmall.run_small_scope(ctx, dict(SMALL, stop_on_taint=CFG.get('stop_on_taint', True)))
    ctx.floor('cascade.deletes_judged', 200)


def replay(ctx, witness):
    from vlib import hcheck
    hcheck.replay(ctx, witness, CFG)

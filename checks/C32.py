"""C32 -- objects from a finished db_session are read-only snapshots.

Runtime monitor over an enumerated matrix:

    object state (how the object was obtained/changed inside the session; what the session did before ending:
                  nothing at all, only created objects, only unpickled objects -- these never open a connection --,
                  only reads, flushed writes, unflushed writes)
  x session ending (commit, manual commit, rollback(), exception, allowed exception, failing commit,
                    nested db_session ended by the outer exit normally / by an exception)
  x strict / non-strict  x  decorator / context-manager form
  x context of the later use (outside any session | inside a NEW, unrelated db_session)
  x operation (every read, write, load, flush, collection and module-level call of the public API, plus the object
               used by the current context as a query argument or as relationship value of a new object)

For every cell the REAL code runs on a SQLite file behind the DB-API recorder (E3).  Just before the session ends
the harness records which attribute values / collections are loaded and their values (without triggering loads).
After the session the operation is applied and judged by the property:

  * a value that was loaded must still be readable and equal to the recorded value (non-strict);
  * anything that would need the database -- assignment, set(), collection change, delete, flush of pending
    changes, load, read of something that was not loaded -- must raise DatabaseSessionIsOver;
  * in every case the recorder must show no statement caused by the operation, the raw dump of the database
    (plain sqlite3) must be unchanged, and the object's recorded values must be unchanged afterwards.

Bracketed (both accepted, counted separately, never guessed): operations that do not need the database
(assigning the same value, set() without arguments, flush() of an object with nothing to save, load() with
everything loaded, add([]), ...) may be silent no-ops or raise; strict sessions promise nothing about reads;
values changed by a session that was then rolled back may read as the changed or the committed value or raise;
deleted objects may report the deletion instead; the generic TransactionError "db_session is required ..." /
"An attempt to mix objects ..." is accepted as a session-is-over error where the check is made by the *current*
context (create(), queries, unpickling); collection.select()/filter()/... inside a new session are new queries of
that session (SELECT only, result must equal the database).
"""
import os, sys, json, pickle, sqlite3

META = {
    'level': 'exploration',
    'engine': 'E2-lite+E3',
    'technique': 'runtime monitor: detached-object operation matrix; value recorded in-session or '
                 'DatabaseSessionIsOver, empty DB-API log, unchanged raw dump and unchanged snapshot',
    'level_text': 'The finite matrix state x ending x strict x form x context x operation is enumerated completely '
                  'on the real code (no sampling inside a tier); each cell is judged from the property text with '
                  'the ambiguous cells bracketed.  Exploration: one schema (scalars, lazy, unique, many-to-one, '
                  'one-to-one, one-to-many, many-to-many), SQLite, a fixed list of states; nothing is proved about '
                  'other schemas.',
    'level_note': 'Trusted: the in-session recording reads obj._vals_/SetData.is_fully_loaded (documented by use) to '
                  'know what is loaded without loading; sqlite3 raw dumps; the DB-API recorder.',
    'rule': 'cells of the matrix (state incl. never-connected sessions, ending incl. nested sessions, strict, form, '
            'context, operation); a cell is distinct by that tuple '
            'and non-trivial when the operation touches the object (module-level calls without an object are '
            'trivial); the seed permutes the order of operations applied to one detached object (quick) and the '
            'fixture values',
    'assumptions': [
        'SQLite only, single thread, one schema of five entities.',
        'Quick tier: all operations of one (state, ending, strict, form, context) are applied to the same detached '
        'object in a seed-dependent order, with a snapshot comparison after every operation (a changed snapshot is '
        'a violation and forces a rebuild); thorough tier: three different orders, and additionally every operation '
        'is applied to a freshly built object.',
        'to_json(), make_proxy() and permission-dependent calls are outside the matrix (they resolve objects in the '
        'current session by design).',
        'Accepted as session-is-over error: DatabaseSessionIsOver everywhere; plain TransactionError with the '
        'messages "db_session is required when working with the database" (outside any session) or "An attempt to '
        'mix objects belonging to different transactions" (inside a new session) only for operations whose check is '
        'made by the current context; counted under bracket.*.',
    ],
    'shims': [],
    'exhaustive_tiers': ['quick', 'thorough'],
}
SHARDS = {'quick': 1, 'thorough': 16}
SHARD_TIMEOUT = {'quick': 300, 'thorough': 1500}

F_ISEMPTY = 'C32-ISEMPTY-NO-LIVENESS-CHECK'
F_FLUSH = 'C32-OBJ-FLUSH-ASSERTS'

NOSESSION_MSG = 'db_session is required when working with the database'
MIX_MSG = 'An attempt to mix objects belonging to different transactions'

# ---------------------------------------------------------------------------------------------------------------

class Env(object):
    def __init__(self, ctx, suffix=''):
        from pony.orm import Database, PrimaryKey, Required, Optional, Set, db_session
        from vlib.dbapi import Recorder, raw_dump
        self.file = os.path.join(ctx.tmp(), 'c32%s.sqlite' % suffix)
        self.rec = Recorder()
        self.db = db = Database()
        sfx = suffix

        class Group(db.Entity):
            id = PrimaryKey(int)
            name = Required(str)
            note = Optional(str, lazy=True)
            members = Set('Person')
        class Person(db.Entity):
            id = PrimaryKey(int)
            name = Required(str)
            age = Optional(int)
            bio = Optional(str, lazy=True)
            code = Optional(str, unique=True)
            group = Optional(Group)
            tags = Set('Tag')
            passport = Optional('Passport')
        class Passport(db.Entity):
            id = PrimaryKey(int)
            number = Required(str)
            owner = Required(Person)
        class Tag(db.Entity):
            id = PrimaryKey(int)
            label = Required(str)
            people = Set(Person)
        class Misc(db.Entity):
            id = PrimaryKey(int)
            v = Optional(str)
        self.Group, self.Person, self.Passport, self.Tag, self.Misc = Group, Person, Passport, Tag, Misc
        for cls in (Group, Person, Passport, Tag, Misc):     # pickle finds classes by module + qualified name
            cls.__module__, cls.__qualname__ = __name__, cls.__name__
            setattr(sys.modules[__name__], cls.__name__, cls)
        db.bind('sqlite', self.file, create_db=True, factory=self.rec.factory())
        db.generate_mapping(create_tables=True)
        with db_session:
            g1 = Group(id=1, name='g1' + sfx, note='n1' + sfx); g2 = Group(id=2, name='g2' + sfx)
            t1 = Tag(id=1, label='t1' + sfx); t2 = Tag(id=2, label='t2' + sfx); t3 = Tag(id=3, label='t3' + sfx)
            p1 = Person(id=1, name='p1' + sfx, age=10, bio='b1' + sfx, code='c1' + sfx, group=g1, tags=[t1, t2])
            Person(id=2, name='p2' + sfx, group=g1)
            Person(id=3, name='p3' + sfx)
            Person(id=4, name='p4' + sfx, age=40, group=g2, tags=[t2])
            Passport(id=1, number='x1' + sfx, owner=p1)
            Misc(id=1, v='m')
        self.raw_dump = raw_dump
        self.base = raw_dump(self.file)
        assert set(self.base) == {'Group', 'Person', 'Passport', 'Tag', 'Misc', 'Person_Tag'}, sorted(self.base)
        assert self.base['Person_Tag']['cols'] == ['person', 'tag'] and 'group' in self.base['Person']['cols']
        self.raw = sqlite3.connect(self.file, isolation_level=None)

    def restore(self):
        """Put the database back to the fixture state through a raw connection (Pony keeps nothing between sessions)."""
        cur = self.raw.cursor()
        cur.execute('begin')
        for t, d in self.base.items():
            cur.execute('delete from "%s"' % t)
            if d['rows']:
                cur.executemany('insert into "%s" values (%s)' % (t, ','.join('?' * len(d['cols']))), d['rows'])
        cur.execute('commit')

    def dump(self):
        return self.raw_dump(self.file)


def pkof(x): return x._pkval_

def norm(v):
    """Normal form of a result for comparison (objects by class and primary key)."""
    from pony.orm.core import Entity, SetInstance
    if isinstance(v, Entity): return ['E', type(v).__name__, pkof(v)]
    if isinstance(v, SetInstance): return ['SetInstance', v._attr_.name]
    if isinstance(v, (set, frozenset)): return ['set', sorted((norm(i) for i in v), key=repr)]
    if isinstance(v, (list, tuple)): return [norm(i) for i in v]
    if isinstance(v, dict): return {k: norm(x) for k, x in sorted(v.items())}
    if isinstance(v, bytes): return ['bytes']
    return v

def eset(cls, pks): return ['set', [['E', cls, k] for k in sorted(pks)]]


class Truth(object):
    """What the database says (from a raw dump) about every attribute of every object."""
    def __init__(self, dump):
        self.rows = {t: [dict(zip(d['cols'], r)) for r in d['rows']] for t, d in dump.items()}
    def row(self, cls, pk):
        for r in self.rows[cls]:
            if r['id'] == pk: return r
        return None
    def attr(self, cls, pk, name):
        if (cls, name) == ('Person', 'tags'): return sorted(q['tag'] for q in self.rows['Person_Tag'] if q['person'] == pk)
        if (cls, name) == ('Tag', 'people'): return sorted(q['person'] for q in self.rows['Person_Tag'] if q['tag'] == pk)
        if (cls, name) == ('Group', 'members'): return sorted(q['id'] for q in self.rows['Person'] if q['group'] == pk)
        r = self.row(cls, pk)
        if r is None: raise KeyError('no row')
        if (cls, name) == ('Person', 'group'): return None if r['group'] is None else ['E', 'Group', r['group']]
        if (cls, name) == ('Person', 'passport'):
            x = [q['id'] for q in self.rows['Passport'] if q['owner'] == pk]
            return ['E', 'Passport', x[0]] if x else None
        if (cls, name) == ('Passport', 'owner'): return ['E', 'Person', r['owner']]
        return r[name]

# ---------------------------------------------------------------------------------------------------------------
# object states: functions run INSIDE the session; return (main object, names of attributes changed in-session)

def _states():
    S = {}
    def state(f): S[f.__name__[3:]] = f; return f
    @state
    def st_created(E):
        p = E.Person(id=10, name='n10', age=5, bio='bb', code='c10', group=E.Group[1], tags=[E.Tag[1], E.Tag[2]])
        return p, 'ALL'
    @state
    def st_created_flushed(E):
        from pony.orm import flush
        p = E.Person(id=10, name='n10', age=5, bio='bb', code='c10', group=E.Group[1], tags=[E.Tag[1]]); flush()
        return p, 'ALL'
    @state
    def st_created_minimal(E):
        return E.Person(id=11, name='n11'), 'ALL'
    @state
    def st_loaded(E):
        return E.Person[1], ()
    @state
    def st_loaded_lazy_and_one2one(E):
        p = E.Person[1]; p.bio; p.passport
        return p, ()
    @state
    def st_from_query(E):
        from pony.orm import select
        return select(p for p in E.Person if p.id == 4).first(), ()
    @state
    def st_seed_only_pk(E):
        return E.Person[1].group, ()
    @state
    def st_group_loaded(E):
        return E.Group[2], ()
    @state
    def st_group_lazy_loaded(E):
        g = E.Group[1]; g.note
        return g, ()
    @state
    def st_tags_loaded(E):
        p = E.Person[1]; list(p.tags)
        return p, ()
    @state
    def st_tags_loaded_empty(E):
        p = E.Person[3]; list(p.tags)
        return p, ()
    @state
    def st_members_loaded(E):
        g = E.Group[1]; list(g.members)
        return g, ()
    @state
    def st_tags_partial_by_contains(E):
        p = E.Person[1]; E.Tag[1] in p.tags
        return p, ()
    @state
    def st_tags_count_only(E):
        p = E.Person[1]; p.tags.count()
        return p, ()
    @state
    def st_tags_partial_by_is_empty(E):
        p = E.Person[1]; p.tags.is_empty()
        return p, ()
    @state
    def st_members_partial(E):
        E.Person[1]; g = E.Group[1]; g.name
        return g, ()
    @state
    def st_deleted(E):
        p = E.Person[3]; p.delete()
        return p, 'ALL'
    @state
    def st_deleted_flushed(E):
        from pony.orm import flush
        p = E.Person[3]; p.delete(); flush()
        return p, 'ALL'
    @state
    def st_modified(E):
        p = E.Person[1]; p.name = 'changed'; p.age = 11
        return p, ('name', 'age')
    @state
    def st_modified_flushed(E):
        from pony.orm import flush
        p = E.Person[1]; p.name = 'changed'; flush()
        return p, ('name',)
    @state
    def st_reference_modified(E):
        p = E.Person[1]; p.group = E.Group[2]
        return p, ('group',)
    @state
    def st_collection_modified(E):
        p = E.Person[1]; p.tags.add(E.Tag[3]); p.tags.remove(E.Tag[1])
        return p, ('tags',)
    @state
    def st_passport_required_ref(E):
        return E.Passport[1], ()
    # --- sessions that never touch the database before they end (no query, no flush: no connection is opened) ---
    @state
    def st_nc_created(E):
        E.same = {'Tag': [E.Tag(id=31, label='t31'), E.Tag(id=33, label='t33')], 'Group': [E.Group(id=22, name='g22')],
                  'Person': [E.Person(id=13, name='n13')]}
        p = E.Person(id=10, name='n10', age=5, bio='bb', code='c10', group=E.Group(id=21, name='g21'),
                     tags=[E.same['Tag'][0]])
        return p, 'ALL'
    @state
    def st_nc_created_minimal(E):
        E.same = {'Tag': [E.Tag(id=31, label='t31')], 'Group': [E.Group(id=22, name='g22')],
                  'Person': [E.Person(id=13, name='n13')]}
        return E.Person(id=11, name='n11'), 'ALL'
    @state
    def st_nc_created_group(E):
        E.same = {'Tag': [E.Tag(id=31, label='t31')], 'Group': [E.Group(id=22, name='g22')],
                  'Person': [E.Person(id=13, name='n13')]}
        g = E.Group(id=21, name='g21', note='nn', members=[E.Person(id=12, name='n12')])
        return g, 'ALL'
    @state
    def st_nc_unpickled(E):
        E.same = {k: [pickle.loads(b) for b in v] for k, v in E.blobs['same'].items()}
        return pickle.loads(E.blobs['main']), ()
    @state
    def st_nc_nothing(E):
        E.same = {'Tag': [], 'Group': [], 'Person': []}
        return None, ()
    return S

NEVER_CONNECTS = ('nc_created', 'nc_created_minimal', 'nc_created_group', 'nc_unpickled', 'nc_nothing')

ENDINGS = ['commit', 'manual_commit', 'rollback', 'exception', 'allowed_exception', 'commit_error',
           'nested_commit', 'nested_exception']
COMMITTED = ('commit', 'manual_commit', 'allowed_exception', 'nested_commit')

class BodyError(Exception):
    pass

def _try(f):
    try: f(); return 'ok'
    except Exception as e: return type(e).__name__

def record(obj):
    """Inside the live session: what is loaded, and its value -- without loading anything."""
    vals = obj._vals_
    out = {}
    for attr in type(obj)._attrs_:
        if attr.is_collection:
            sd = vals.get(attr)
            loaded = sd is not None and sd.is_fully_loaded
            out[attr.name] = [loaded, sorted(pkof(i) for i in sd) if loaded else None]
        else:
            loaded = attr in vals
            out[attr.name] = [loaded, norm(vals[attr]) if loaded else None]
    return out

def snapshot(obj):
    """After the session: the loaded values the detached object still carries (never triggers anything).
    Collections that are not fully loaded are not readable values and are left out."""
    vals = obj._vals_
    if vals is None: return None
    out = {'_status_': obj._status_}
    for attr, v in vals.items():
        if attr.is_collection:
            if v is not None and v.is_fully_loaded: out[attr.name] = sorted(pkof(i) for i in v)
        else: out[attr.name] = norm(v)
    return out


class Subject(object):
    pass

def build(env, state, ending, strict, form):
    """Run one session that leaves a detached object behind; returns a Subject."""
    from pony.orm import db_session, commit, rollback
    env.restore()
    fn = _STATES[state]
    S = Subject()
    S.state, S.ending, S.strict, S.form = state, ending, strict, form
    holder = {}
    def body():
        if state in NEVER_CONNECTS:
            obj, dirty = fn(env)                   # companions are made by the state itself, without the database
            holder['same'] = env.same
        else:
            # companions from the same session (arguments of the operations); none of them touches a collection
            holder['same'] = {'Tag': [env.Tag[1], env.Tag[3]], 'Group': [env.Group[2]], 'Person': [env.Person[3]]}
            obj, dirty = fn(env)
        if ending == 'manual_commit': commit()
        if ending == 'commit_error': env.Misc(id=1, v='dup')
        live = {}                                  # outcome of pure (non-loading) serialisation while alive
        if obj is None:
            holder.update(obj=None, dirty=(), rec={}, repr=None, pk=None, live_status=None, live=live)
        else:
            rec = record(obj)
            live['obj.pickle_dumps'] = _try(lambda: pickle.dumps(obj))
            for a in type(obj)._attrs_:
                if a.is_collection and rec[a.name][0] and obj._status_ not in ('marked_to_delete', 'deleted'):
                    live['coll.pickle.' + a.name] = _try(lambda: pickle.dumps(getattr(obj, a.name)))
            holder.update(obj=obj, dirty=dirty, rec=rec, repr=repr(obj), pk=obj.get_pk(),
                          live_status=obj._status_, live=live)
        if ending == 'rollback': rollback()
        if ending in ('exception', 'allowed_exception', 'nested_exception'): raise BodyError()
    kw = {'strict': strict}
    if ending == 'allowed_exception': kw['allowed_exceptions'] = [BodyError]
    nested = ending.startswith('nested_')
    env.rec.clear()
    try:
        if form == 'ctx':
            with db_session(**kw):
                if nested:
                    with db_session(**kw): body()  # the object's session is the inner one; only the outer exit ends it
                else: body()
        else:
            inner = db_session(**kw)(body)
            (db_session(**kw)(lambda: inner()) if nested else inner)()
        S.end_exc = None
    except BaseException as e:
        S.end_exc = type(e).__name__
    if 'obj' not in holder: raise AssertionError('state builder failed: %s %r' % (state, S.end_exc))
    expected_exc = {'exception': 'BodyError', 'allowed_exception': 'BodyError', 'nested_exception': 'BodyError',
                    'commit_error': 'TransactionIntegrityError'}.get(ending)
    assert S.end_exc == expected_exc, (state, ending, S.end_exc)
    S.connected = any(e['kind'] == 'connect' or e['kind'] in ('execute', 'executemany') for e in env.rec.events)
    S.obj, S.rec, S.repr, S.pk = holder['obj'], holder['rec'], holder['repr'], holder['pk']
    S.cls = type(S.obj).__name__ if S.obj is not None else None
    S.same = holder['same']
    S.committed = ending in COMMITTED
    S.status = S.obj._status_ if S.obj is not None else None
    S.live_status = holder['live_status']
    S.live = holder['live']
    d = holder['dirty']
    S.dirty = set() if S.obj is None else (set(a.name for a in type(S.obj)._attrs_) if d == 'ALL' else set(d))
    S.deleted = S.status in ('deleted', 'marked_to_delete', 'cancelled')
    # Recording happens before the flush that an implicit commit performs at exit.  By design the INSERT of a created
    # object forgets attributes whose value is None ("the value may be changed in the DB"), so these are not loaded
    # any more when the session ends: reading them may need the database.
    S.maybe_unloaded = set()
    if S.live_status == 'created' and S.committed and S.obj is not None:
        S.maybe_unloaded = set(a.name for a in type(S.obj)._attrs_ if not a.is_collection and a.columns
                               and a.pk_offset is None and S.rec[a.name] == [True, None])
    S.dump = env.dump()
    S.truth = Truth(S.dump)
    S.snap = snapshot(S.obj) if S.obj is not None else None
    return S

def donors(env):
    """Detached objects of another (committed, non-strict) session, fully loaded: arguments for operations."""
    from pony.orm import db_session
    env.restore()
    with db_session:
        d = {'Person': [env.Person[i] for i in (1, 2, 3, 4)], 'Passport': [env.Passport[1]]}
    with db_session:      # pickles of loaded objects: a later session can obtain objects from them without any query
        env.blobs = {'main': pickle.dumps(env.Person[4]),
                     'same': {'Tag': [pickle.dumps(env.Tag[1]), pickle.dumps(env.Tag[3])],
                              'Group': [pickle.dumps(env.Group[1])], 'Person': [pickle.dumps(env.Person[3])]}}
    return d

# ---------------------------------------------------------------------------------------------------------------
# operations

class Op(object):
    def __init__(self, id, cat, run, needs=(), expect=None, coll=None, nontrivial=True):
        self.id, self.cat, self.run, self.needs, self.expect, self.coll = id, cat, run, tuple(needs), expect, coll
        self.nontrivial = nontrivial
        self.arg_unloaded = False

def coll_truth(S, name):
    try: return S.truth.attr(S.cls, S.pk, name)
    except KeyError: return []

def ops_for(S, env, D):
    """Every operation for this subject (a session that left no object behind only gets the module-level calls)."""
    ops = []
    if S.obj is not None: _object_ops(S, env, D, ops)
    _module_ops(env, ops)
    return ops

def _object_ops(S, env, D, ops):
    """Arguments that must be objects are taken from the subject's own session (S.same), from its loaded
    collections, or from the donor session D."""
    o = S.obj
    entity = type(o)
    item_cls = {'tags': 'Tag', 'members': 'Person', 'people': 'Person'}
    for attr in entity._attrs_:
        n = attr.name
        loaded, val = S.rec[n]
        if not attr.is_collection:
            ops.append(Op('get.' + n, 'read', lambda n=n: getattr(o, n), needs=[n], expect=('attr', n)))
            if attr.pk_offset is not None:
                ops.append(Op('assign_pk_same.' + n, 'noop_write', lambda n=n: setattr(o, n, S.pk)))
                ops.append(Op('assign_pk_new.' + n, 'write', lambda n=n: setattr(o, n, 999)))
                continue
            if attr.py_type is int: new = 77
            elif attr.py_type is str: new = 'new-' + n
            elif n == 'group': new = S.same['Group'][0] if val != ['E', 'Group', 2] else None
            elif n == 'passport': new = None if val is not None else D['Passport'][0]
            elif n == 'owner': new = D['Person'][1]
            else: raise AssertionError(n)
            ops.append(Op('assign_new.' + n, 'write', lambda n=n, new=new: setattr(o, n, new)))
            ops.append(Op('set_new.' + n, 'write', lambda n=n, new=new: o.set(**{n: new})))
            if not attr.is_required:
                ops.append(Op('assign_none.' + n, 'write' if (not loaded or val not in (None, '')) else 'noop_write',
                              lambda n=n: setattr(o, n, None)))
            if loaded and not S.strict and not S.deleted and attr in o._vals_:
                same = o._vals_[attr]
                ops.append(Op('assign_same.' + n, 'noop_write', lambda n=n, same=same: setattr(o, n, same)))
                ops.append(Op('set_same.' + n, 'noop_write', lambda n=n, same=same: o.set(**{n: same})))
            if attr.lazy or n == 'passport':
                ops.append(Op('load_attr.' + n, 'write' if not loaded else 'noop_write', lambda n=n: o.load(n)))
        else:
            icls = item_cls[n]
            truth = coll_truth(S, n)
            items_loaded = list(o._vals_[attr]) if (loaded and o._vals_ is not None and o._vals_.get(attr) is not None) else []
            # items come from the subject's own session only (objects of different sessions are never mixed)
            known = set(val) if loaded else set(truth)
            member = items_loaded[0] if items_loaded else next(
                (d for d in S.same[icls] if pkof(d) in known and pkof(d) in truth), None)
            nonmember = next((d for d in S.same[icls] if pkof(d) not in known and pkof(d) not in truth), None)
            c = lambda n=n: getattr(o, n)
            R = lambda name, f, expect, cat='read': ops.append(
                Op('coll.%s.%s' % (name, n), cat, f, needs=[n], expect=expect, coll=n))
            ops.append(Op('get.' + n, 'read_pk', lambda n=n: getattr(o, n), expect=('const', ['SetInstance', n])))
            R('iter', lambda: sorted(pkof(i) for i in c()), ('collpks', n))
            R('len', lambda: len(c()), ('colllen', n))
            R('count', lambda: c().count(), ('colllen', n))
            R('is_empty', lambda: c().is_empty(), ('collempty', n))
            R('bool', lambda: bool(c()), ('collbool', n))
            R('copy', lambda: sorted(pkof(i) for i in c().copy()), ('collpks', n))
            R('eq_set', lambda: c() == set(c().copy()), ('const', True))
            R('plus', lambda: len(c() + []), ('colllen', n))
            R('minus', lambda: len(c() - []), ('colllen', n))
            R('pickle', lambda: pickle.dumps(c()), ('const', ['bytes']))
            # for a one-to-many collection the answer is read from the ITEM's reference attribute: if that is not
            # loaded on the item (e.g. a None forgotten by the item's INSERT) the read needs the database
            def ready(m):
                r = attr.reverse
                return r.is_collection or (m._vals_ is not None and r in m._vals_)
            if member is not None:
                R('contains_member', lambda m=member: m in c(), ('const', True))
                ops[-1].arg_unloaded = not ready(member)
            if nonmember is not None:
                R('contains_nonmember', lambda m=nonmember: m in c(), ('const', False))
                ops[-1].arg_unloaded = not ready(nonmember)
            ops.append(Op('coll.str.' + n, 'read_pk', lambda: type(str(c())).__name__, expect=('const', 'str')))
            ops.append(Op('coll.repr.' + n, 'read_pk', lambda: type(repr(c())).__name__, expect=('const', 'str')))
            # queries built from the collection
            Q = lambda name, f: ops.append(Op('coll.%s.%s' % (name, n), 'query', f, expect=('collpks_truth', n), coll=n))
            Q('select', lambda: sorted(pkof(i) for i in c().select()))
            Q('select_lambda', lambda: sorted(pkof(i) for i in c().select(lambda x: x.id > 0)))
            Q('filter', lambda: sorted(pkof(i) for i in c().filter(lambda x: x.id > 0)))
            Q('order_by', lambda: sorted(pkof(i) for i in c().order_by(lambda x: x.id)))
            Q('sort_by', lambda: sorted(pkof(i) for i in c().sort_by(lambda x: x.id)))
            Q('page', lambda: sorted(pkof(i) for i in c().page(1, 50)))
            Q('limit', lambda: sorted(pkof(i) for i in c().limit(50)))
            Q('random', lambda: sorted(pkof(i) for i in c().random(50)))
            Q('select_count', lambda: c().select().count())
            ops[-1].expect = ('colllen_truth', n)
            # changes
            W = lambda name, f, cat='write': ops.append(Op('coll.%s.%s' % (name, n), cat, f, coll=n))
            if nonmember is not None:
                W('add_new', lambda m=nonmember: c().add(m))
                W('iadd_new', lambda m=nonmember, n=n: _iadd(o, n, m))
                W('remove_absent', lambda m=nonmember: c().remove(m), 'noop_write' if loaded else 'write')
                W('assign_list', lambda m=nonmember, n=n: setattr(o, n, [m]))
            if member is not None:
                W('add_present', lambda m=member: c().add(m), 'noop_write' if loaded else 'write')
                W('remove_member', lambda m=member: c().remove(m))
                W('isub_member', lambda m=member, n=n: _isub(o, n, m))
            W('add_nothing', lambda: c().add([]), 'noop_write')
            W('remove_nothing', lambda: c().remove([]), 'noop_write')
            W('clear', lambda: c().clear(), 'write' if (not loaded or val) else 'noop_write')
            W('assign_empty', lambda n=n: setattr(o, n, []), 'write' if (not loaded or val) else 'noop_write')
            if loaded and not S.strict and not S.deleted:
                W('assign_same_items', lambda n=n, it=tuple(items_loaded): setattr(o, n, list(it)), 'noop_write')
            W('assign_same_instance', lambda n=n: setattr(o, n, getattr(o, n)), 'noop_write')
            W('load', lambda: c().load(), 'write' if not loaded else 'noop_write')
            if n == 'members': W('create', lambda: c().create(id=50, name='made'))
            elif n == 'tags': W('create', lambda: c().create(id=50, label='made'))
    # whole-object operations
    P = lambda id, f, expect: ops.append(Op(id, 'read_pk', f, expect=expect))
    P('obj.get_pk', lambda: o.get_pk(), ('const', S.pk))
    P('obj.repr', lambda: repr(o), ('const', S.repr))
    P('obj.str', lambda: str(o), ('const', S.repr))
    P('obj.eq_self', lambda: (o == o, o != o, hash(o) == hash(o)), ('const', [True, False, True]))
    other = D['Person'][2]
    P('obj.cmp_other', lambda: (o == other, o != other, sorted([o, other]) == sorted([other, o])),
      ('const', [False, True, True]))
    default_attrs = [a.name for a in entity._attrs_ if not a.is_collection and not a.lazy]
    lazy_attrs = [a.name for a in entity._attrs_ if a.lazy]
    coll_attrs = [a.name for a in entity._attrs_ if a.is_collection]
    ops.append(Op('obj.to_dict', 'read', lambda: o.to_dict(), needs=default_attrs, expect=('dict', default_attrs)))
    ops.append(Op('obj.to_dict_with_lazy', 'read', lambda: o.to_dict(with_lazy=True), needs=default_attrs + lazy_attrs,
                  expect=('dict', default_attrs + lazy_attrs)))
    ops.append(Op('obj.to_dict_with_collections', 'read', lambda: o.to_dict(with_collections=True),
                  needs=default_attrs + coll_attrs, expect=('dict', default_attrs + coll_attrs)))
    ops.append(Op('obj.to_dict_only_pk_name', 'read', lambda: o.to_dict(only=['id', default_attrs[1]]),
                  needs=['id', default_attrs[1]], expect=('dict', ['id', default_attrs[1]])))
    ops.append(Op('obj.to_dict_related', 'read', lambda: o.to_dict(related_objects=True), needs=default_attrs,
                  expect=('dict_related', default_attrs)))
    ops.append(Op('obj.pickle_dumps', 'read', lambda: pickle.dumps(o), expect=('const', ['bytes'])))
    ops.append(Op('obj.pickle_roundtrip', 'query', lambda: pickle.loads(pickle.dumps(o)).get_pk(), expect=('const', S.pk)))
    everything = all(S.rec[a.name][0] for a in entity._attrs_ if not a.is_collection)
    pending = S.status in ('created', 'modified', 'marked_to_delete')
    ops.append(Op('obj.set_nothing', 'noop_write', lambda: o.set()))
    ops.append(Op('obj.set_two', 'write', lambda: o.set(**{default_attrs[1]: 'two', lazy_attrs[0]: 'lz'} if lazy_attrs
                                                         else {default_attrs[1]: 'two'})))
    ops.append(Op('obj.delete', 'write', lambda: o.delete()))
    ops.append(Op('obj.flush', 'write' if pending else 'noop_write', lambda: o.flush()))
    ops.append(Op('obj.load', 'write' if not everything else 'noop_write', lambda: o.load()))
    ops.append(Op('obj.load_loaded_attr', 'noop_write', lambda: o.load(default_attrs[1])))
    # the object used by the CURRENT context: as a query argument (a new query of that context, like the collection
    # queries) and as a relationship value of a new object (which would change the detached object's reverse side)
    from pony.orm import select
    E_ = entity
    Q = lambda id, f, expect: ops.append(Op(id, 'query', f, expect=expect))
    Q('use.query_arg_eq', lambda: sorted(pkof(x) for x in select(x for x in E_ if x == o)), ('rowpk', None))
    Q('use.query_arg_get', lambda: sorted(pkof(x) for x in E_.select(lambda x: x == o)), ('rowpk', None))
    if S.cls == 'Group':
        Q('use.query_ref', lambda: sorted(pkof(x) for x in select(x for x in env.Person if x.group == o)),
          ('refpks', ('Person', 'group')))
        Q('use.query_kwarg', lambda: sorted(pkof(x) for x in env.Person.select(group=o)), ('refpks', ('Person', 'group')))
        ops.append(Op('use.new_object_ref', 'write', lambda: env.Person(id=61, name='n61', group=o)))
    elif S.cls == 'Person':
        Q('use.query_ref', lambda: sorted(pkof(x) for x in select(x for x in env.Passport if x.owner == o)),
          ('refpks', ('Passport', 'owner')))
        Q('use.query_kwarg', lambda: sorted(pkof(x) for x in env.Passport.select(owner=o)), ('refpks', ('Passport', 'owner')))
        ops.append(Op('use.new_object_ref', 'write', lambda: env.Passport(id=60, number='n60', owner=o)))
        ops.append(Op('use.new_object_coll', 'write', lambda: env.Tag(id=63, label='l63', people=[o])))
    elif S.cls == 'Passport':
        ops.append(Op('use.new_object_ref', 'write', lambda: env.Person(id=62, name='n62', passport=o)))

def _module_ops(env, ops):
    from pony.orm import flush, commit, rollback
    # module level / database level
    M = lambda id, f: ops.append(Op(id, 'module', f, nontrivial=False))
    M('module.flush', lambda: flush())
    M('module.commit', lambda: commit())
    M('module.rollback', lambda: rollback())
    M('db.flush', lambda: env.db.flush())
    M('db.commit', lambda: env.db.commit())
    M('db.rollback', lambda: env.db.rollback())

def _iadd(o, n, m):
    c = getattr(o, n); c += m

def _isub(o, n, m):
    c = getattr(o, n); c -= m

# ---------------------------------------------------------------------------------------------------------------
# expected values

def expected(S, op, source):
    """source 'rec': the value recorded while the session was alive; 'truth': what the database holds now."""
    kind, arg = op.expect
    def attr_val(n):
        if source == 'rec':
            if not S.rec[n][0]: raise KeyError(n)
            v = S.rec[n][1]
        else: v = S.truth.attr(S.cls, S.pk, n)
        return v
    if kind == 'const': return norm(arg)
    if kind == 'rowpk': return [S.pk] if S.truth.row(S.cls, S.pk) is not None else []
    if kind == 'refpks': return sorted(r['id'] for r in S.truth.rows[arg[0]] if r[arg[1]] == S.pk)
    if kind == 'attr': return attr_val(arg)
    if kind in ('collpks', 'collpks_truth'): return attr_val(arg) if kind == 'collpks' else S.truth.attr(S.cls, S.pk, arg)
    if kind in ('colllen', 'colllen_truth'):
        return len(attr_val(arg)) if kind == 'colllen' else len(S.truth.attr(S.cls, S.pk, arg))
    if kind == 'collempty': return not attr_val(arg)
    if kind == 'collbool': return bool(attr_val(arg))
    if kind in ('dict', 'dict_related'):
        d = {}
        for n in arg:
            v = attr_val(n)
            if isinstance(v, list) and v and v[0] == 'E' and kind == 'dict': v = v[2]
            d[n] = v
        return d
    raise AssertionError(kind)

# ---------------------------------------------------------------------------------------------------------------
# judging one cell

def is_over(e):
    from pony.orm.core import DatabaseSessionIsOver
    return isinstance(e, DatabaseSessionIsOver)

def generic_refusal(e, where):
    """The current context (not the object's session) refused: plain TransactionError with one of two messages."""
    from pony.orm.core import TransactionError
    if type(e) is not TransactionError: return None
    msg = str(e)
    if where == 'outside' and msg == NOSESSION_MSG: return 'db_session_required'
    if where != 'outside' and msg == MIX_MSG: return 'mixed_transactions'
    return None

def judge(ctx, S, op, where, outcome, stmts, nevents, db_changed, snap_after):
    """Returns None (fine) or a mechanism string; counts what was seen."""
    from pony.orm.core import OperationWithDeletedObjectError
    kind, res = outcome
    cell = {'state': S.state, 'ending': S.ending, 'strict': S.strict, 'form': S.form, 'where': where, 'op': op.id,
            'status': S.status, 'outcome': [kind, res if kind == 'val' else '%s: %s' % (type(res).__name__, res)],
            'statements': [s['sql'] for s in stmts][:4]}
    def bad(mech): return mech, cell
    if db_changed: return bad('database-changed')
    select_only = all(s['sql'].lstrip().upper().startswith('SELECT') for s in stmts)
    coll_loaded = op.coll is not None and S.rec[op.coll][0]

    if stmts and not (op.cat == 'query' and where != 'outside' and select_only):
        if (op.id.startswith('coll.is_empty.') and where != 'outside' and not S.strict and not coll_loaded and select_only
                and kind == 'val'):
            ctx.count('finding.is_empty_ran_query_for_detached_object')
            return bad(F_ISEMPTY)
        return bad('statement-executed')
    if snap_after != S.snap:
        cell['snapshot_before'], cell['snapshot_after'] = S.snap, snap_after
        return bad('snapshot-changed')

    exc = res if kind == 'exc' else None
    if exc is not None:
        over = is_over(exc)
        gen = generic_refusal(exc, where)
        deleted_err = S.deleted and isinstance(exc, OperationWithDeletedObjectError)
        ctx.count('exc.%s' % type(exc).__name__)
    cat = op.cat

    if cat == 'module':
        if exc is None: ctx.count('module.noop'); return None
        if over or type(exc).__name__ == 'TransactionError': ctx.count('module.refused'); return None
        return bad('unexpected-exception')

    if cat in ('read', 'read_pk'):
        needs_loaded = all(S.rec[n][0] and n not in S.maybe_unloaded for n in op.needs) and not op.arg_unloaded
        maybe = [n for n in op.needs if n in S.maybe_unloaded]
        dirty = bool(set(op.needs) & S.dirty)
        if 'pickle' in op.id and S.status in ('created', 'modified'): dirty = True   # pending object: not storable
        special = S.deleted or (not S.committed and dirty)
        if exc is None:
            val = res
            acceptable = []
            if needs_loaded or maybe:
                try: acceptable.append(expected(S, op, 'rec'))
                except KeyError: pass
            if not needs_loaded or (not S.committed and dirty):
                try: acceptable.append(expected(S, op, 'truth'))
                except KeyError: pass
            if val in acceptable:
                ctx.count('read.value_ok' if needs_loaded else 'read.answered_although_not_recorded_as_loaded')
                if S.strict: ctx.count('strict.read_answered')
                return None
            if S.deleted: ctx.count('bracket.deleted_object_value'); return None
            cell['acceptable'] = acceptable
            return bad('wrong-value')
        if S.live.get(op.id, 'ok') == type(exc).__name__ and not over:
            ctx.count('bracket.same_exception_as_in_live_session.' + type(exc).__name__); return None
        if needs_loaded and not S.strict and not special:
            return bad('loaded-value-unreadable')
        if over:
            ctx.count('read.session_is_over' + ('.strict' if S.strict and needs_loaded else ''))
            if maybe and not S.strict: ctx.count('bracket.null_after_insert_not_loaded')
            return None
        if S.strict: ctx.count('bracket.strict_read_other_exception.' + type(exc).__name__); return None
        if special: ctx.count('bracket.special_status_read_exception.' + type(exc).__name__); return None
        if gen and where == 'outside' and op.id.startswith('coll.is_empty.'):
            ctx.count('bracket.db_session_required.is_empty'); return None
        return bad('unexpected-exception')

    if cat == 'query':
        if exc is None:
            if where == 'outside': return bad('query-answered-without-session')
            want = expected(S, op, 'truth') if op.expect[0] != 'const' else norm(op.expect[1])
            ok = (set(res) <= set(want) if op.id.startswith('coll.random.') else res == want)
            if not ok:
                cell['acceptable'] = [want]
                return bad('wrong-value')
            ctx.count('bracket.query_in_new_session_answered'); return None
        if over: ctx.count('query.session_is_over'); return None
        if gen: ctx.count('bracket.%s.query' % gen); return None
        if op.id == 'obj.pickle_roundtrip' and S.live.get('obj.pickle_dumps') == type(exc).__name__:
            ctx.count('bracket.same_exception_as_in_live_session.' + type(exc).__name__); return None
        if S.deleted or S.strict or (not S.committed and S.dirty):
            ctx.count('bracket.query_other_exception.' + type(exc).__name__); return None
        return bad('unexpected-exception')

    # write / noop_write
    if exc is None:
        if cat == 'noop_write': ctx.count('bracket.noop_silent'); return None
        return bad('write-not-refused')
    if over:
        ctx.count('write.session_is_over' if cat == 'write' else 'bracket.noop_refused'); return None
    if deleted_err: ctx.count('bracket.deleted_object_error'); return None
    if gen and (op.id.startswith('coll.create.') or op.id.startswith('use.new_object')):
        ctx.count('bracket.%s.%s' % (gen, 'create' if op.id.startswith('coll.') else 'new_object')); return None
    if (op.id == 'obj.flush' and isinstance(exc, AssertionError)
            and S.status in ('created', 'modified', 'marked_to_delete')):
        ctx.count('finding.obj_flush_assertion')
        return bad(F_FLUSH)
    return bad('unexpected-exception')

# ---------------------------------------------------------------------------------------------------------------

def apply(env, S, op, where):
    from pony.orm import db_session
    rec = env.rec
    rec.clear()
    try:
        if where != 'outside':
            with db_session:
                if where == 'new_active':        # the new session already works with the database
                    env.Misc[1]
                    rec.clear()
                r = norm(op.run())
        else:
            r = norm(op.run())
        outcome = ('val', r)
    except BaseException as e:
        if isinstance(e, (KeyboardInterrupt, SystemExit)): raise
        outcome = ('exc', e)
    stmts = rec.statements(0)
    # every route to the database goes through the recorder: without execute/commit calls nothing can have changed
    nevents = sum(1 for e in rec.events if e['kind'] in ('execute', 'executemany', 'commit'))
    return outcome, stmts, nevents

def session_state_clean():
    from pony.orm import core
    L = core.local
    return not L.db_context_counter and L.db_session is None and not L.db2cache

def run_cell(ctx, env, S, op, where):
    outcome, stmts, nevents = apply(env, S, op, where)
    db_changed = False
    if nevents:                      # every route to the database goes through the recorder
        db_changed = env.dump() != S.dump
        ctx.count('dumps_after_dbapi_activity')
    snap_after = snapshot(S.obj) if S.obj is not None else None
    ctx.case(['cell', S.state, S.ending, S.strict, S.form, where, op.id], nontrivial=op.nontrivial,
             sample={'state': S.state, 'ending': S.ending, 'strict': S.strict, 'where': where, 'op': op.id,
                     'outcome': outcome[1] if outcome[0] == 'val' else type(outcome[1]).__name__})
    ctx.count('cells'); ctx.count('where.' + where); ctx.count('cat.' + op.cat)
    ctx.count('strict' if S.strict else 'nonstrict')
    verdict = judge(ctx, S, op, where, outcome, stmts, nevents, db_changed, snap_after)
    if not session_state_clean():
        from pony.orm import rollback, core
        try: rollback()
        except Exception: pass
        core.local.db_context_counter = 0; core.local.db_session = None; core.local.db2cache.clear()
        verdict = verdict or ('session-state-leak', {'state': S.state, 'op': op.id, 'where': where})
    if verdict is None:
        ctx.count('outcome.ok')
        return True
    mech, cell = verdict
    if mech in (F_ISEMPTY, F_FLUSH): ctx.finding(mech, cell)
    else: ctx.violation(cell, mechanism=mech)
    return False

_STATES = _states()

def scenarios():
    for state in sorted(_STATES):
        for ending in ENDINGS:
            for strict in (False, True):
                for form in ('ctx', 'deco'):
                    yield state, ending, strict, form

def run(ctx):
    quick = ctx.tier == 'quick'
    env = Env(ctx, suffix='' if ctx.seed == 0 else '-%d' % ctx.seed)
    D = donors(env)
    all_sc = list(scenarios())
    ctx.subrng('scenario-order').shuffle(all_sc)       # every shard gets a mix of states/endings/strictness
    mine = [sc for i, sc in enumerate(all_sc) if i % ctx.nshards == ctx.shard]
    for sc in mine:
        for where, rnd in [(w, r) for w in ('outside', 'new', 'new_active') for r in range(1 if quick else 3)]:
            S = build(env, *sc)
            ops = ops_for(S, env, D)
            order = list(range(len(ops)))
            ctx.subrng('order', rnd, *sc, where).shuffle(order)
            ctx.count('scenarios')
            ctx.count('status.%s' % S.status)
            ctx.count('session.connected' if S.connected else 'session.never_connected')
            ctx.count('ending.' + S.ending)
            final_dump_needed = True
            for i in order:
                ok = run_cell(ctx, env, S, ops[i], where)
                if not ok:           # never continue on a possibly damaged object / database
                    S = build(env, *sc); ops = ops_for(S, env, D)
            if env.dump() != S.dump:
                ctx.violation({'scenario': sc, 'where': where}, mechanism='database-changed-after-batch')
            ctx.count('batch_dumps_compared')
            if not quick and rnd == 0:
                # isolation pass: every operation on a freshly built detached object
                for i in range(len(ops)):
                    S = build(env, *sc); ops = ops_for(S, env, D)
                    run_cell(ctx, env, S, ops[i], where)
                    if env.dump() != S.dump:
                        ctx.violation({'scenario': sc, 'where': where, 'op': ops[i].id}, mechanism='database-changed')
    env.raw.close()
    per = len(mine) / float(len(all_sc))
    # floors are evaluated per shard; a shard holds `per` of the scenarios (in a seed-dependent mix), so sharded
    # runs get half of the proportional floor as margin for the mix
    k = 1.0 if ctx.nshards == 1 else 0.5
    if not quick: k *= 4
    ctx.floor('cells', int(100000 * per * k))
    ctx.floor('read.value_ok', int(15000 * per * k))
    ctx.floor('write.session_is_over', int(30000 * per * k))
    ctx.floor('read.session_is_over', int(10000 * per * k))
    ctx.floor('where.new_active', int(30000 * per * k))
    ctx.floor('session.never_connected', int(150 * per * (1.0 if ctx.nshards == 1 else 0.5)))
    ctx.floor('batch_dumps_compared', int(1500 * per * (1.0 if quick else 2.7)))


def replay(ctx, witness):
    env = Env(ctx)
    D = donors(env)
    sc = (witness['state'], witness['ending'], witness['strict'], witness['form'])
    S = build(env, *sc)
    for op in ops_for(S, env, D):
        if op.id == witness['op']:
            run_cell(ctx, env, S, op, witness['where'])
    env.raw.close()

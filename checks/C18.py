"""C18 -- a db_session commits exactly when its body succeeds.

Runtime monitor: generated session programs are executed by the REAL db_session machinery (decorator, context
manager, generator function, coroutine function, pony.flask and the Bottle plugin running against protocol stubs
in /verif/shims) on a SQLite file; an independent ~60-line model of the documented contract predicts, for the same
program, which uniquely tagged rows must be in the database afterwards, how often the body ran and which exception
class reaches the caller.  The database is read back through a raw sqlite3 connection (never through Pony).

A case is
    {'form': deco|ctx|gen|coro|bottle|flask, 'opts': {...}, 'body': [step...], 'consumer': [...]}
step := ['w'] | ['flush'] | ['commit'] | ['rollback'] | ['raise', E, nfail] | ['dup', nfail] | ['yield']
      | ['nest', 'ctx'|'deco', opts, [step...]]
Every write carries the tag '<attempt>:<path>' so the raw rows say exactly which attempts' writes were committed.
'raise'/'dup' fire only in attempts < nfail, so a retried body can eventually succeed.  'dup' writes a row whose
primary key already exists: the failure then comes from flush()/commit() (TransactionIntegrityError), i.e. from the
session's own commit, not from the body's code.
"""
import os, sys, json, sqlite3, logging, warnings

META = {
    'level': 'exploration',
    'engine': 'E3+stubs',
    'technique': 'runtime monitor: executable contract model of db_session (commit/retry/nesting) vs raw database '
                 'contents, body execution count and propagated exception, incl. Flask/Bottle protocol stubs',
    'level_text': 'Each generated session program is executed by the real db_session code in every calling form and '
                  'judged against an independent model of the documented contract; a bounded grid of option '
                  'combinations is enumerated completely and several thousand random programs (nesting, manual '
                  'commits, failing commits, generator suspension with foreign work in between) are added. '
                  'Exploration is the right level: the option/program space is unbounded and nothing is proved.',
    'level_note': 'Trusted: the contract model (function predict), Python issubclass on the test exception classes, '
                  'sqlite3 for reading rows back, and the flask/bottle stubs, which reproduce only the documented '
                  'hook protocol (before_request/teardown_request(exc); HTTPResponse/HTTPError, plugin api 2).',
    'rule': 'grid: retry 0..3 x allowed spec x retry_exceptions spec (class tuple/list or callable, overlap included) '
            'x raised class x failing-attempt count x body shape; random: step programs of 1..7 steps with nesting '
            'depth <= 3 and per-level options, generator/coroutine forms with consumer scripts (next/send/throw/'
            'close/abandon) and an unrelated session committing between resumptions; flask/bottle: simulated '
            'requests whose view finishes, raises, or raises HTTPResponse/HTTPError with several status codes. '
            'A case is distinct by its full JSON; it is non-trivial when its body writes at least one row.',
    'assumptions': [
        'SQLite only; file database in /dev/shm; single thread.',
        'flask and bottle are not installed: pony.flask and the Bottle plugin run against stub modules that '
        'reproduce only the documented call protocol; handled-error paths of real Flask (errorhandler -> teardown '
        'gets None) are outside the stubbed protocol cases.',
        'Bracketed (both outcomes accepted, counted): an exception that is both retryable and allowed (possible '
        'through callables or subclass relations); an allowed exception in generator/coroutine form (Pony rolls back, '
        'the property only says "commits only if").',
        'Documented restrictions are modelled as loud outcomes: retry with context manager/generator, serializable or '
        'ddl with generator, overlap of class lists, non-int/negative retry -> TypeError before the body runs; '
        'suspending a generator with uncommitted changes -> TransactionError and those changes are not committed.',
        'db_session options ddl in nested position and the should_retry attribute of driver errors are not generated.',
    ],
    'shims': ['flask', 'bottle'],
    'exhaustive_tiers': [],
}
SHARDS = {'quick': 1, 'thorough': 8}
SHARD_TIMEOUT = {'quick': 300, 'thorough': 900}

FINDING_FLASK = 'C18-FLASK-COMMITS-FAILED-REQUEST'
TIE = 'TransactionIntegrityError'

# ---------------------------------------------------------------------------------------------------------------
# exception universe (names are what cases carry; classes are resolved lazily because pony is imported in run())

_EXC = {}

def exc_table():
    if _EXC: return _EXC
    from pony.orm import core
    import bottle
    class EA(Exception): pass
    class EB(EA): pass
    class EC(Exception): pass
    class EX(BaseException): pass
    _EXC.update({'EA': EA, 'EB': EB, 'EC': EC, 'EX': EX, 'ValueError': ValueError, 'KeyError': KeyError,
                 'LookupError': LookupError, 'Exception': Exception, 'TypeError': TypeError,
                 'TransactionError': core.TransactionError, 'OptimisticCheckError': core.OptimisticCheckError,
                 TIE: core.TransactionIntegrityError, 'OrmError': core.OrmError,
                 'CacheIndexError': core.CacheIndexError,
                 'HTTPResponse': bottle.HTTPResponse, 'HTTPError': bottle.HTTPError})
    return _EXC

RAISABLE = ['EA', 'EB', 'EC', 'EX', 'ValueError', 'KeyError', 'TransactionError', 'OptimisticCheckError']
LISTABLE = ['EA', 'EB', 'EC', 'EX', 'ValueError', 'KeyError', 'LookupError', 'Exception', 'TransactionError',
            'OptimisticCheckError', TIE, 'OrmError']

def base_name(e):                 # 'HTTPError:404' -> 'HTTPError'
    return e.split(':')[0]

def matches(spec, e, default):
    """Does exception name e fall under an allowed/retry spec?  spec: None (option not given) |
    {'kind': 'classes'|'callable', 'names': [...]}"""
    T = exc_table()
    if spec is not None and spec['kind'] == 'bottle':
        # what the property calls "an exception the session allows" for the Bottle integration (documented rule:
        # an HTTPResponse that is not an HTTPError).  The model evaluates this copy, Pony evaluates its own predicate.
        c = T[base_name(e)]
        return issubclass(c, T['HTTPResponse']) and not issubclass(c, T['HTTPError'])
    names = default if spec is None else spec['names']
    return issubclass(T[base_name(e)], tuple(T[n] for n in names)) if names else False

# ---------------------------------------------------------------------------------------------------------------
# the contract model

class _Raised(Exception):
    def __init__(self, name): Exception.__init__(self, name); self.name = name

ANY = '*'     # some exception, class not prescribed (loud is not wrong)

class _State(object):
    def __init__(self): self.committed = set(); self.pending = []; self.poison = self.broken = False
    def discard(self): self.pending = []; self.poison = self.broken = False
    def try_commit(self):
        """The session (or the body) asks the database to commit; a poisoned pending set is refused.  After an
        explicit flush() has already failed on it the class of the second refusal is not prescribed."""
        if self.poison:
            err = ANY if self.broken else TIE
            self.discard(); return err
        self.committed.update(self.pending); self.pending = []
        return None

def declaration_error(opts, form):
    """Option combinations the documentation rejects before any body code runs."""
    r = opts.get('retry', 0)
    if type(r) is not int or r < 0: return True
    if r and opts.get('ddl'): return True
    a, x = opts.get('allowed'), opts.get('retryx')
    if (a is None or a['kind'] == 'classes') and (x is None or x['kind'] == 'classes'):
        xs = ['TransactionError'] if x is None else x['names']
        if a is not None and set(a['names']) & set(xs): return True
    if form in ('gen', 'coro') and (r or opts.get('serializable') or opts.get('ddl')): return True
    return False

def model_steps(steps, attempt, path, st):
    """Generator: runs the body model; yields at suspension points; raises _Raised for body exceptions."""
    for i, step in enumerate(steps):
        k, tag = step[0], '%d:%s%d' % (attempt, path, i)
        if k == 'w': st.pending.append(tag)
        elif k == 'dup':
            if attempt < step[1]:
                # conflict timing is free: a second conflicting object is already refused by the session cache
                if st.poison: raise _Raised('CacheIndexError')
                st.poison = True
            st.pending.append(tag)
        elif k == 'flush':
            if st.poison: st.broken = True; raise _Raised(TIE)
        elif k == 'commit':
            err = st.try_commit()
            if err: raise _Raised(err)
        elif k == 'rollback': st.discard()
        elif k == 'raise':
            if attempt < step[2]: raise _Raised(step[1])
        elif k == 'yield': yield tag
        elif k == 'nest':
            form, opts, body = step[1], step[2], step[3]
            if declaration_error(opts, form): raise _Raised('TypeError')
            if form == 'ctx' and opts.get('retry', 0): raise _Raised('TypeError')
            # an inner session neither commits nor rolls back: same pending set, exceptions pass through
            for _ in model_steps(body, attempt, '%s%d.' % (path, i), st): raise AssertionError('yield in nested')
        else: raise AssertionError(step)

def _out(st, runs, exc):
    return {'committed': sorted(st.committed), 'runs': runs, 'exc': base_name(exc) if exc else None}

def same(obs, pred):
    return obs['committed'] == pred['committed'] and obs['runs'] == pred['runs'] and (
        obs['exc'] == pred['exc'] or (pred['exc'] == ANY and obs['exc'] is not None))

def predict(case, overlap='retry', gen_allowed='rollback', deviation=None):
    form, opts = case['form'], case['opts']
    st = _State()
    notes = set()
    if declaration_error(opts, form): return _out(st, 0, 'TypeError'), notes
    retry = opts.get('retry', 0)
    if form == 'ctx' and retry: return _out(st, 0, 'TypeError'), notes

    if form in ('gen', 'coro'):
        g = model_steps(case['body'], 0, '', st)
        consumer = case.get('consumer', [])
        action, sus, exc = 'next', 0, None
        while True:
            try:
                if isinstance(action, list): g.throw(_Raised(action[1]))
                else: next(g)
            except StopIteration:
                exc = st.try_commit(); break
            except _Raised as r:
                exc = r.name
                if matches(opts.get('allowed'), exc, []) and st.pending and not st.poison:
                    notes.add('gen_allowed')
                    if gen_allowed == 'commit': st.try_commit()
                st.discard(); break
            if st.pending:                       # suspension with uncommitted changes: loud, changes dropped
                st.discard(); exc = 'TransactionError'; break
            sus += 1
            st.committed.add('other.%d' % sus)   # unrelated session run by the consumer while suspended
            action = consumer[sus - 1] if sus <= len(consumer) else 'next'
            if action in ('close', 'abandon'): break
        return _out(st, 1, exc), notes

    # decorator / context manager / bottle (= decorator) / flask (= context manager spread over two hooks)
    runs = 0
    for attempt in range(retry + 1 if form in ('deco', 'bottle') else 1):
        runs += 1
        st.discard()
        try:
            for _ in model_steps(case['body'], attempt, '', st): raise AssertionError('yield outside generator')
            exc = st.try_commit()
            if exc is None: return _out(st, runs, None), notes
        except _Raised as r:
            exc = r.name
        if deviation == 'FLASK_EXIT_IGNORES_EXC' and form == 'flask':
            err = st.try_commit()                # exit hook behaves as if the view had finished normally
            return _out(st, runs, err or exc), notes
        allowed = matches(opts.get('allowed'), exc, [])
        retryable = form in ('deco', 'bottle') and matches(opts.get('retryx'), exc, ['TransactionError'])
        if retryable and allowed: notes.add('overlap')
        if retryable and not (allowed and overlap == 'allowed'):
            st.discard()
            if attempt < retry: continue
            return _out(st, runs, exc), notes
        if allowed:
            err = st.try_commit()
            return _out(st, runs, err or exc), notes
        st.discard()
        return _out(st, runs, exc), notes
    raise AssertionError('unreachable')

def admissible(case):
    """Primary prediction first, then the bracket alternatives."""
    outs = []
    for kw in ({}, {'overlap': 'allowed'}, {'gen_allowed': 'commit'}):
        o, notes = predict(case, **kw)
        if o not in outs: outs.append(o)
    return outs, predict(case)[1]

# ---------------------------------------------------------------------------------------------------------------
# executing a case with the real code

class Env(object):
    def __init__(self, ctx):
        from pony.orm import Database, PrimaryKey, Required
        from vlib.dbapi import Recorder
        self.ctx = ctx
        self.file = os.path.join(ctx.tmp(), 'c18.sqlite')
        self.rec = Recorder()
        self.db = db = Database()
        class Row(db.Entity):
            id = PrimaryKey(int)
            tag = Required(str)
        self.Row = Row
        db.bind('sqlite', self.file, create_db=True, factory=self.rec.factory())
        db.generate_mapping(create_tables=True)
        self.raw = sqlite3.connect(self.file, isolation_level=None)
        self.raw.execute("insert into row values (1, 'base')")
        self.ids = 1
        self.runs = 0
        self.loghandler = _CountingHandler()
        for name in ('pony.orm', 'pony.orm.sql'):
            lg = logging.getLogger(name); lg.addHandler(self.loghandler); lg.propagate = False
            lg.setLevel(logging.INFO)
        self._web = None

    def reset(self):
        self.raw.execute('delete from row where id <> 1')
        self.runs = 0
        self.rec.clear()

    def rows(self):
        return sorted(r[0] for r in self.raw.execute("select tag from row where id <> 1"))

    def next_id(self):
        self.ids += 1
        return self.ids

    def start(self):
        self.runs += 1
        return self.runs - 1

    def web(self):
        if self._web is None:
            import flask, bottle
            from pony.flask import Pony
            from pony.orm.integration.bottle_plugin import PonyPlugin
            fapp = flask.Flask('c18'); Pony(fapp)
            seen = []
            def spy(callback):              # outermost plugin: sees what the pony-wrapped callback raises
                def wrapper(*a, **kw):
                    try: return callback(*a, **kw)
                    except BaseException as e: seen.append(e); raise
                return wrapper
            bapp = bottle.Bottle()
            bapp.install(spy); bapp.install(PonyPlugin())
            self._web = (fapp, bapp, seen)
        return self._web


class _CountingHandler(logging.Handler):
    def __init__(self): logging.Handler.__init__(self); self.n = 0
    def emit(self, record): self.n += 1


def make_exc(name):
    T = exc_table()
    if ':' in name:
        b, status = name.split(':')
        return T[b](status=int(status)) if b == 'HTTPError' else T[b]('', status=int(status))
    return T[name]()

def build_spec(spec):
    T = exc_table()
    classes = tuple(T[n] for n in spec['names'])
    if spec['kind'] == 'classes':
        return list(classes) if spec.get('container') == 'list' else classes
    ret = spec.get('ret', 'bool')
    if ret == 'bool': return lambda e: isinstance(e, classes)
    if ret == 'int': return lambda e: 1 if isinstance(e, classes) else 0
    return lambda e: (e if isinstance(e, classes) else None)      # truthy object / None

def build_kwargs(opts):
    kw = {}
    for k, v in opts.items():
        if k == 'allowed': kw['allowed_exceptions'] = build_spec(v)
        elif k == 'retryx': kw['retry_exceptions'] = build_spec(v)
        elif k == 'bare': pass
        else: kw[k] = v
    return kw

def session_for(opts):
    from pony.orm import db_session
    kw = build_kwargs(opts)
    if not kw and opts.get('bare'): return db_session          # the bare global object: `with db_session:`
    return db_session(**kw) if kw else db_session()

def exec_steps(steps, attempt, path, env, base=0):
    """The body: a generator so that 'yield' steps can suspend (only generator forms contain them)."""
    from pony.orm import flush, commit, rollback
    for j, step in enumerate(steps):
        i = base + j
        k, tag = step[0], '%d:%s%d' % (attempt, path, i)
        if k == 'w': env.Row(id=env.next_id(), tag=tag)
        elif k == 'dup': env.Row(id=(1 if attempt < step[1] else env.next_id()), tag=tag)
        elif k == 'flush': flush()
        elif k == 'commit': commit()
        elif k == 'rollback': rollback()
        elif k == 'raise':
            if attempt < step[2]: raise make_exc(step[1])
        elif k == 'yield': yield tag
        elif k == 'nest':
            form, opts, body = step[1], step[2], step[3]
            sub = '%s%d.' % (path, i)
            if form == 'ctx':
                with session_for(opts):
                    for _ in exec_steps(body, attempt, sub, env): raise AssertionError('yield in nested')
            else:
                def inner():
                    for _ in exec_steps(body, attempt, sub, env): raise AssertionError('yield in nested')
                session_for(opts)(inner)()
        else: raise AssertionError(step)

def other_work(env, k):
    """What the consumer does while the generator session is suspended: an unrelated committing session."""
    from pony.orm import db_session
    with db_session:
        env.Row(id=env.next_id(), tag='other.%d' % k)

class Suspend(object):
    def __init__(self, tag): self.tag = tag
    def __await__(self):
        return (yield self.tag)

def execute(case, env):
    """Run the case with the real code; return {'committed', 'runs', 'exc'}."""
    form, opts, body = case['form'], case['opts'], case['body']
    exc = None
    try:
        if form == 'deco':
            def f():
                attempt = env.start()
                for _ in exec_steps(body, attempt, '', env): raise AssertionError('yield outside generator')
            session_for(opts)(f)()
        elif form == 'ctx':
            with session_for(opts):
                attempt = env.start()
                for _ in exec_steps(body, attempt, '', env): raise AssertionError('yield outside generator')
        elif form in ('gen', 'coro'):
            if form == 'gen':
                def gf():
                    attempt = env.start()
                    yield from exec_steps(body, attempt, '', env)
            else:
                segs, cur, start = [], [], 0
                for idx, s in enumerate(body):
                    if s[0] == 'yield': segs.append((start, cur, '0:%d' % idx)); cur, start = [], idx + 1
                    else: cur.append(s)
                segs.append((start, cur, None))
                async def gf():
                    attempt = env.start()
                    for b, seg, ytag in segs:
                        for _ in exec_steps(seg, attempt, '', env, base=b): raise AssertionError('yield in segment')
                        if ytag is not None: await Suspend(ytag)
            it = session_for(opts)(gf)()
            consumer = case.get('consumer', [])
            action, sus = 'next', 0
            while True:
                try:
                    if isinstance(action, list): it.throw(make_exc(action[1]))
                    elif action == 'send': it.send('v%d' % sus)
                    elif form == 'coro': it.send(None)
                    else: next(it)
                except StopIteration: break
                sus += 1
                if env.db.provider.transaction_lock.locked():
                    # the suspended session still holds SQLite's write transaction (state, not time: any other
                    # session of the process would now block on this lock): its changes are neither committed
                    # nor rolled back although control is back with the caller
                    env.suspended_in_transaction = True
                    it.close(); break
                other_work(env, sus)
                action = consumer[sus - 1] if sus <= len(consumer) else 'next'
                if action == 'close': it.close(); break
                if action == 'abandon': del it; break
        elif form == 'bottle':
            fapp, bapp, seen = env.web()
            del seen[:]
            def view():
                attempt = env.start()
                for _ in exec_steps(body, attempt, '', env): raise AssertionError('yield outside generator')
                return 'ok'
            bapp.routes.clear(); bapp.route('/v')(view)
            resp = bapp.handle('/v')
            if seen: exc = type(seen[-1]).__name__
        elif form == 'flask':
            fapp, bapp, seen = env.web()
            def view():
                attempt = env.start()
                for _ in exec_steps(body, attempt, '', env): raise AssertionError('yield outside generator')
                return 'ok'
            fapp.view_functions['/v'] = view
            resp = fapp.handle('/v')
            if resp.exception is not None: exc = type(resp.exception).__name__
        else: raise AssertionError(form)
    except BaseException as e:
        if isinstance(e, Watchdog): raise
        if isinstance(e, (KeyboardInterrupt, SystemExit, AssertionError)) and not _from_pony(e): raise
        exc = type(e).__name__
    return {'committed': env.rows(), 'runs': env.runs, 'exc': exc}

def _from_pony(e):
    """Was the exception raised by Pony's code (innermost frame), as opposed to the harness itself?"""
    tb = e.__traceback__
    if tb is None: return False
    while tb.tb_next is not None: tb = tb.tb_next
    return os.sep + 'pony' + os.sep in tb.tb_frame.f_code.co_filename

def session_state_leak():
    """The thread's session bookkeeping after a case; anything left over would make the NEXT session misbehave
    (a leaked depth counter means its exit is not the outermost one and never commits)."""
    from pony.orm import core
    L = core.local
    bad = {}
    if L.db_context_counter: bad['db_context_counter'] = L.db_context_counter
    if L.db_session is not None: bad['db_session'] = repr(L.db_session)
    if L.db2cache: bad['db2cache'] = len(L.db2cache)
    if L.debug_stack: bad['debug_stack'] = len(L.debug_stack)
    if L.debug: bad['debug'] = L.debug
    return bad

def force_clean_state():
    from pony.orm import core
    L = core.local
    for cache in list(L.db2cache.values()):
        try: cache.rollback()
        except Exception: pass
    L.db2cache.clear(); L.db_context_counter = 0; L.db_session = None
    del L.debug_stack[:]; L.debug = False; L.show_values = None

# ---------------------------------------------------------------------------------------------------------------
# judging

def writes_in(steps):
    n = 0
    for s in steps:
        if s[0] in ('w', 'dup'): n += 1
        elif s[0] == 'nest': n += writes_in(s[3])
    return n

def depth_of(steps):
    return 1 + max([depth_of(s[3]) for s in steps if s[0] == 'nest'] or [0])

class Watchdog(Exception):
    pass

def _alarm(signum, frame):
    raise Watchdog('case did not finish within %d s' % CASE_WATCHDOG_S)

CASE_WATCHDOG_S = 60

def judge(ctx, env, case, origin):
    import signal
    env.reset()
    env.suspended_in_transaction = False
    outs, notes = admissible(case)
    signal.signal(signal.SIGALRM, _alarm); signal.alarm(CASE_WATCHDOG_S)
    try: obs = execute(case, env)
    finally: signal.alarm(0)
    leak = session_state_leak()
    if env.suspended_in_transaction: leak['suspended_generator_holds_transaction_lock'] = True
    nontrivial = writes_in(case['body']) > 0
    ctx.case(json.dumps(case, sort_keys=True), nontrivial=nontrivial,
             sample={'case': case, 'observed': obs, 'predicted': outs[0]})
    ctx.count('form.' + case['form'])
    ctx.count('origin.' + origin)
    ctx.count('depth.%d' % depth_of(case['body']))
    ev = env.rec.events
    ctx.count('dbapi.commit_calls', sum(1 for e in ev if e['kind'] == 'commit' and e['phase'] == 'call'))
    ctx.count('dbapi.rollback_calls', sum(1 for e in ev if e['kind'] == 'rollback' and e['phase'] == 'call'))
    ctx.count('body_executions', obs['runs'])
    if obs['runs'] > 1: ctx.count('cases_with_retries')
    if any(t.startswith('other.') for t in obs['committed']): ctx.count('gen.cases_with_foreign_work_while_suspended')
    for n in notes: ctx.count('bracket.' + n)
    p = outs[0]
    witness = {'case': case, 'observed': obs, 'predicted': p, 'alternatives': outs[1:], 'origin': origin}
    if leak:
        force_clean_state()
        if env.db.provider.transaction_lock.locked(): env.db.provider.transaction_lock.release()
        ctx.violation(dict(witness, leak=leak), mechanism='session-state-leak')
        return
    if any(same(obs, o) for o in outs):
        ctx.count('outcome.agree')
        if not same(obs, p): ctx.count('outcome.agree_via_bracket')
        if p['exc'] == ANY: ctx.count('outcome.commit_refused_after_failed_flush')
        if p['exc'] == 'TypeError' and p['runs'] == 0: ctx.count('outcome.rejected_at_declaration')
        elif p['exc'] is None: ctx.count('outcome.finished_and_committed')
        elif p['runs'] and p['exc']:
            own = [t for t in p['committed'] if t.startswith('%d:' % (p['runs'] - 1))]
            ctx.count('outcome.exception_propagated')
            if own and not any(s[0] == 'commit' for s in _flat(case['body'])):
                ctx.count('outcome.committed_on_allowed_exception')
        if nontrivial and not p['committed'] and p['runs']: ctx.count('outcome.nothing_committed')
        return
    if case['form'] == 'flask':
        dev, _ = predict(case, deviation='FLASK_EXIT_IGNORES_EXC')
        if same(obs, dev) and p['exc'] is not None:
            # mechanism identified: the exit hook ignored the exception it was given -> commit of a failed request
            ctx.count('outcome.flask_committed_failed_request')
            ctx.finding(FINDING_FLASK, dict(witness, deviant_prediction=dev))
            return
    ctx.count('outcome.disagree')
    mech = 'commit-decision' if obs['committed'] != p['committed'] else \
           ('body-execution-count' if obs['runs'] != p['runs'] else 'propagated-exception')
    ctx.violation(witness, mechanism=mech + '/' + case['form'])

def _flat(steps):
    for s in steps:
        yield s
        if s[0] == 'nest':
            for x in _flat(s[3]): yield x

# ---------------------------------------------------------------------------------------------------------------
# generators of cases

def spec_classes(names, container='tuple'): return {'kind': 'classes', 'names': list(names), 'container': container}
def spec_callable(names, ret='bool'): return {'kind': 'callable', 'names': list(names), 'ret': ret}

def grid_cases():
    """Bounded grid (decorator form): every combination is enumerated."""
    allowed_specs = [None, spec_classes(['EA']), spec_callable(['EA']), spec_classes(['EB'], 'list')]
    retry_specs = [None, spec_classes(['EC']), spec_callable(['EC'], 'int'), spec_classes(['EA']),
                   spec_callable(['EA'], 'obj')]
    shapes = [lambda r: [['w'], r, ['w']],
              lambda r: [['w'], ['commit'], ['w'], r],
              lambda r: [['w'], ['flush'], r, ['w']]]
    for retry in (0, 1, 2, 3):
        for a in allowed_specs:
            for x in retry_specs:
                for e in (None, 'EA', 'EB', 'EC', 'TransactionError', 'ValueError'):
                    for nfail in ((1, 2, 9) if e else (0,)):
                        for si, shape in enumerate(shapes):
                            opts = {'retry': retry}
                            if a: opts['allowed'] = a
                            if x: opts['retryx'] = x
                            body = shape(['raise', e, nfail]) if e else [s for s in shape(None) if s]
                            yield {'form': 'deco', 'opts': opts, 'body': body}

def rnd_spec(rng, default_ok=True):
    r = rng.random()
    if default_ok and r < 0.4: return None
    names = rng.sample(LISTABLE, rng.choice((1, 1, 2)))
    if r < 0.7: return spec_classes(names, rng.choice(('tuple', 'list')))
    return spec_callable(names, rng.choice(('bool', 'int', 'obj')))

def rnd_opts(rng, form, outer=None):
    o = {}
    nested = outer is not None
    if form in ('deco',) and rng.random() < 0.6: o['retry'] = rng.choice((0, 1, 1, 2, 3))
    elif rng.random() < 0.08: o['retry'] = rng.choice((1, 2))                  # rejected for ctx/gen forms
    if rng.random() < 0.03: o['retry'] = rng.choice((-1, 1.5, '1', True))      # rejected everywhere
    a, x = rnd_spec(rng), rnd_spec(rng)
    if a: o['allowed'] = a
    if x: o['retryx'] = x
    if rng.random() < 0.25: o['strict'] = rng.choice((True, False))
    if rng.random() < 0.25: o['immediate'] = rng.choice((True, False))
    if rng.random() < 0.25: o['optimistic'] = rng.choice((True, False))
    if rng.random() < 0.12 and (not nested or outer.get('serializable')): o['serializable'] = True
    if rng.random() < 0.25:
        o['sql_debug'] = rng.choice((True, False))
        if rng.random() < 0.5: o['show_values'] = rng.choice((True, False))
    if not nested and rng.random() < 0.03: o['ddl'] = True
    if not o and rng.random() < 0.5: o['bare'] = True
    return o

def rnd_body(rng, depth, allow_yield, outer_opts, budget):
    steps = []
    n = rng.randint(1, 5 if depth == 1 else 3)
    for _ in range(n):
        r = rng.random()
        if r < 0.38: steps.append(['w'])
        elif r < 0.46: steps.append(['flush'])
        elif r < 0.56: steps.append(['commit'])
        elif r < 0.60: steps.append(['rollback'])
        elif r < 0.74: steps.append(['raise', rng.choice(RAISABLE), rng.choice((1, 1, 2, 3, 9))])
        elif r < 0.79: steps.append(['dup', rng.choice((1, 1, 2, 9))])
        elif r < 0.90 and depth < 3 and budget[0] > 0:
            budget[0] -= 1
            form = rng.choice(('ctx', 'deco'))
            opts = rnd_opts(rng, form, outer=outer_opts)
            steps.append(['nest', form, opts, rnd_body(rng, depth + 1, False, opts, budget)])
        elif allow_yield:
            if rng.random() < 0.75 and steps and steps[-1][0] != 'commit': steps.append(['commit'])
            steps.append(['yield'])
        else: steps.append(['w'])
    return steps

def rnd_case(rng):
    form = rng.choice(('deco', 'deco', 'ctx', 'ctx', 'gen', 'gen', 'coro'))
    opts = rnd_opts(rng, form)
    gen = form in ('gen', 'coro')
    body = rnd_body(rng, 1, gen, opts, [3])
    case = {'form': form, 'opts': opts, 'body': body}
    if gen:
        cons = []
        for _ in range(sum(1 for s in body if s[0] == 'yield')):
            r = rng.random()
            cons.append('next' if r < 0.6 else 'send' if r < 0.75 else ['throw', rng.choice(RAISABLE)] if r < 0.85
                        else 'close' if r < 0.93 else 'abandon')
        case['consumer'] = cons
    return case

def web_cases(rng, n_random):
    """Simulated requests.  Enumerated part: view shape x outcome; random part: nested/manual-commit views."""
    b_exc = [None, 'ValueError', 'EA', 'TransactionError', 'HTTPResponse:200', 'HTTPResponse:302', 'HTTPResponse:303',
             'HTTPError:400', 'HTTPError:404', 'HTTPError:500', 'HTTPError:503']
    f_exc = [None, 'ValueError', 'EA', 'KeyError', 'TransactionError', 'EX']
    shapes = [lambda r: [['w'], r], lambda r: [['w'], ['w'], r, ['w']], lambda r: [['w'], ['commit'], ['w'], r],
              lambda r: [['w'], ['flush'], r],
              lambda r: [['w'], ['nest', 'deco', {}, [['w'], r]]],
              lambda r: [['nest', 'ctx', {'bare': True}, [['w']]], ['w'], r],
              lambda r: [['dup', 9], r], lambda r: [r]]
    for form, excs in (('bottle', b_exc), ('flask', f_exc)):
        for e in excs:
            for shape in shapes:
                body = [s for s in shape(['raise', e, 9] if e else None) if s]
                body = _drop_none(body)
                yield {'form': form, 'opts': bottle_opts() if form == 'bottle' else {}, 'body': body}
    for _ in range(n_random):
        form = rng.choice(('bottle', 'flask'))
        body = rnd_body(rng, 1, False, {}, [2])
        if rng.random() < 0.6:
            body.insert(rng.randint(0, len(body)), ['raise', rng.choice(b_exc[1:] if form == 'bottle' else f_exc[1:]), 9])
        yield {'form': form, 'opts': bottle_opts() if form == 'bottle' else {}, 'body': body}

def _drop_none(steps):
    out = []
    for s in steps:
        if s is None: continue
        if s[0] == 'nest': s = [s[0], s[1], s[2], _drop_none(s[3])]
        out.append(s)
    return out

def bottle_opts():
    return {'allowed': {'kind': 'bottle', 'names': ['HTTPResponse']}}

# ---------------------------------------------------------------------------------------------------------------

def run(ctx):
    try: _run(ctx)
    except Watchdog as e:        # wall-clock watchdogs only ever produce INCONCLUSIVE
        ctx.inconclusive.append('watchdog: %s' % e)

def _run(ctx):
    quick = ctx.tier == 'quick'
    env = Env(ctx)
    exc_table()
    n_random = 40000 if quick else 150000
    n_web = 6000 if quick else 20000
    with warnings.catch_warnings():
        warnings.simplefilter('ignore')
        if ctx.shard == 0:
            for case in grid_cases(): judge(ctx, env, case, 'grid')
        rng = ctx.rng
        for _ in range(n_random): judge(ctx, env, rnd_case(rng), 'random')
        for case in web_cases(rng, n_web): judge(ctx, env, case, 'web')
    ctx.count('sql_debug.log_records', env.loghandler.n)
    env.raw.close()
    # floors are evaluated per shard (every shard runs the random and web parts; shard 0 also runs the grid)
    ctx.floor('outcome.agree', 20000)
    ctx.floor('outcome.committed_on_allowed_exception', 500)
    ctx.floor('outcome.nothing_committed', 5000)
    ctx.floor('cases_with_retries', 1000)
    ctx.floor('gen.cases_with_foreign_work_while_suspended', 1000)
    ctx.floor('depth.3', 500)
    ctx.floor('form.flask', 1000)
    ctx.floor('form.bottle', 1000)
    ctx.floor('form.coro', 2000)


def replay(ctx, witness):
    env = Env(ctx)
    exc_table()
    with warnings.catch_warnings():
        warnings.simplefilter('ignore')
        judge(ctx, env, witness['case'], 'replay')
    env.raw.close()

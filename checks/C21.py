"""C21 — repeated reads in a session return the same value or fail loudly (SQLite).

Same harness as C20 (vlib/sched.py + vlib/schedprog.py).  A read-only READER session observes attributes of R and K
objects and fully loaded collections (R.kids one-to-many, R.tags many-to-many) several times, with reload-provoking
operations in between (obj.load(), new queries touching the rows: select / get by non-key / select_by_sql, queries
on the other side of the relationship, collection loads, batch loads of seeds); 1-2 WRITER sessions update, delete,
and re-link those objects and commit at every possible point between the reader's operations (all operation-level
interleavings when <= 2000, sampled otherwise, plus sampled statement-level schedules).

Oracle: per reader, per key -- (entity, pk, attribute) or (R, pk, collection) -- the first successful observation is
the anchor; every later successful observation in the same session must agree with it.  A read that raises
(UnrepeatableReadError or anything else) is loud and accepted.  Volatile attribute `v` is exempt; collection
observations anchor only when they fully load the collection (iteration, len); count()/is_empty() are compared with
an existing anchor but never create one; raw-SQL reads are not compared.
"""
import itertools

META = {
    'level': 'exploration',
    'engine': 'E4+E3',
    'technique': 'deterministic scheduler over reader/writer session programs; observation-log monitor: every later '
                 'observation of a key equals the first or the read raised',
    'level_text': 'Each generated reader/writer program set is run under every operation-level interleaving '
                  '(exhaustive per set when <= 2000) and sampled statement-level schedules on the real code; the '
                  'monitor compares what the reader actually saw. Program sets are sampled: exploration.',
    'level_note': 'Trusted: the observation wrapper (values are taken from the public attribute/collection API in the '
                  'reader thread). Writers commit through pony as well, so their own conflicts are part of the history.',
    'rule': 'case = (reader program, writer programs, schedule); distinct by program text + executed schedule trace; '
            'non-trivial = the reader observed some key at least twice and a writer committed between its first and '
            'last step. Reload provokers: load(), select by id, select all, get by non-key attribute, select_by_sql, '
            'query over K (reverse side / seeds), query over T, prefetch, collection read kinds iteration/sorted/list/'
            'copy/len/bool/load/count/is_empty/`in`, in every order (loaded by one kind, observed by another); item '
            'values observed through attribute lifting (R.kids.w); readers that write blindly, observe, commit() '
            'mid-session and go on reading.',
    'assumptions': ['SQLite only', 'scope: object attributes and fully loaded collections (not projections, '
                    'aggregates, count() of a collection that was never fully loaded)',
                    'a reader may write R attributes and commit mid-session: its own write restarts the anchor of that key; '
                    'seeing a member of a one-to-many collection anchors member.<reference>; a lifted attribute (coll.attr) '
                    'is one key whose value is the sorted list; writers are ordinary optimistic pony sessions'],
    'shims': [],
    'exhaustive_tiers': [],
}
SHARDS = {'quick': 1, 'thorough': 16}
SHARD_TIMEOUT = {'quick': 300, 'thorough': 1500}

F_DISAPPEAR = 'C21-COLLECTION-ITEM-SILENTLY-REMOVED-ON-RELOAD'


def S(name, ops, **opts):
    return {'name': name, 'ops': list(ops), 'opts': opts}


def handwritten():
    sets = []
    add = lambda *ss: sets.append(list(ss))
    R = lambda *ops, **kw: S('A', ops, **kw)
    W = lambda *ops: S('B', ops)
    add(R(('read', 1, 'x'), ('requery', 'select_r1'), ('read', 1, 'x')), W(('write', 1, 'x', 2001)))
    add(R(('read', 1, 'x'), ('requery', 'select_all'), ('read', 1, 'x'), ('read', 1, 'y')), W(('write', 1, 'x', 2001), ('write', 1, 'y', 2002)))
    add(R(('read', 1, 'y'), ('requery', 'by_sql'), ('read', 1, 'y')), W(('inc', 1, 'y')))
    add(R(('read', 1, 'x'), ('requery', 'get_x'), ('read', 1, 'x')), W(('write', 1, 'x', 2001)))
    add(R(('read', 1, 'x'), ('load', 1), ('read', 1, 'x'), ('read', 1, 'z')), W(('write', 1, 'z', 2001), ('write', 1, 'x', 2002)))
    add(R(('read', 1, 'n'), ('requery', 'select_r1'), ('read', 1, 'n')), W(('write', 1, 'n', 2001)))
    add(R(('read', 1, 'f'), ('requery', 'select_r1'), ('read', 1, 'f')), W(('write', 1, 'f', 7.25)))
    add(R(('read', 1, 'v'), ('requery', 'select_r1'), ('read', 1, 'v'), ('read', 1, 'x')), W(('write', 1, 'v', 2001)))
    add(R(('read', 1, 'x'), ('requery', 'select_r1'), ('read', 1, 'x')), W(('delete', 1)))
    add(R(('read', 1, 'x'), ('load', 1), ('read', 1, 'x')), W(('delete', 1)))
    add(R(('coll', 1, 'kids', 'iter'), ('requery', 'kids_all'), ('coll', 1, 'kids', 'iter')), W(('movekid', 1, 2)))
    add(R(('coll', 1, 'kids', 'iter'), ('requery', 'kids_all'), ('coll', 1, 'kids', 'iter')), W(('movekid', 3, 1)))
    add(R(('coll', 1, 'kids', 'len'), ('requery', 'kids_all'), ('coll', 1, 'kids', 'count'), ('coll', 1, 'kids', 'iter')), W(('movekid', 2, None)))
    add(R(('coll', 1, 'kids', 'iter'), ('requery', 'kids_all'), ('coll', 1, 'kids', 'len')), W(('delkid', 1)))
    add(R(('coll', 1, 'kids', 'iter'), ('requery', 'kids_all'), ('coll', 1, 'kids', 'iter')), W(('newkid', 9, 1)))
    add(R(('coll', 1, 'kids', 'iter'), ('kattr', 1, 'parent'), ('requery', 'kids_all'), ('kattr', 1, 'parent'), ('coll', 1, 'kids', 'iter')), W(('movekid', 1, 2)))
    add(R(('kattr', 1, 'parent'), ('requery', 'kids_all'), ('kattr', 1, 'parent')), W(('movekid', 1, None)))
    add(R(('kattr', 3, 'w'), ('requery', 'kids_all'), ('kattr', 3, 'w')), W(('setw', 3, 2001)))
    add(R(('coll', 2, 'tags', 'iter'), ('requery', 'tags_all'), ('coll', 2, 'tags', 'iter')), W(('rmtag', 2, 2)))
    add(R(('coll', 1, 'tags', 'iter'), ('requery', 'select_all'), ('coll', 1, 'tags', 'len'), ('coll', 1, 'tags', 'iter')), W(('addtag', 1, 2)))
    add(R(('coll', 1, 'tags', 'len'), ('coll', 2, 'tags', 'iter'), ('coll', 1, 'tags', 'iter')), W(('addtag', 1, 2), ('rmtag', 2, 1)))
    add(R(('coll', 1, 'kids', 'iter'), ('coll', 2, 'kids', 'iter'), ('coll', 1, 'kids', 'iter')), W(('movekid', 1, 2)))
    add(R(('coll', 2, 'kids', 'iter'), ('coll', 1, 'kids', 'iter'), ('coll', 2, 'kids', 'iter')), W(('movekid', 1, 2)))
    add(R(('requery', 'kids_all'), ('read', 1, 'x'), ('read', 2, 'x'), ('requery', 'select_all'), ('read', 1, 'x')), W(('write', 1, 'x', 2001)))
    add(R(('read', 1, 'x'), ('requery', 'select_r1'), ('read', 1, 'x')), W(('write', 1, 'x', 2001)), S('C', [('write', 1, 'x', 3001)]))
    add(R(('read', 1, 'x'), ('requery', 'select_r1'), ('read', 1, 'x'), immediate=True), W(('write', 1, 'x', 2001)))
    # the collection is loaded by one read kind and observed by another
    add(R(('coll', 1, 'kids', 'len'), ('coll', 1, 'kids', 'iter'), ('requery', 'kids_all'), ('coll', 1, 'kids', 'iter')), W(('movekid', 1, 2)))
    add(R(('coll', 1, 'kids', 'bool'), ('coll', 1, 'kids', 'iter'), ('requery', 'kids_all'), ('coll', 1, 'kids', 'sorted')), W(('movekid', 2, None)))
    add(R(('coll', 1, 'kids', 'load'), ('coll', 1, 'kids', 'copy'), ('requery', 'kids_all'), ('coll', 1, 'kids', 'list')), W(('movekid', 2, 2)))
    add(R(('requery', 'prefetch_kids'), ('coll', 1, 'kids', 'iter'), ('requery', 'kids_all'), ('coll', 1, 'kids', 'iter'), ('coll', 1, 'kids', 'len')), W(('movekid', 1, 2)))
    add(R(('coll', 1, 'kids', 'list'), ('requery', 'kids_all'), ('coll', 1, 'kids', 'in:1'), ('coll', 1, 'kids', 'len')), W(('movekid', 1, 2)))
    add(R(('coll', 1, 'kids', 'in:1'), ('requery', 'kids_all'), ('coll', 1, 'kids', 'in:1'), ('kattr', 1, 'parent')), W(('movekid', 1, None)))
    add(R(('coll', 1, 'kids', 'len'), ('coll', 1, 'kids', 'sorted'), ('kattr', 2, 'parent'), ('requery', 'kids_all'), ('kattr', 2, 'parent')), W(('movekid', 2, 2)))
    add(R(('coll', 2, 'tags', 'bool'), ('coll', 2, 'tags', 'sorted'), ('requery', 'tags_all'), ('coll', 2, 'tags', 'in:2')), W(('rmtag', 2, 2)))
    # item attribute values observed through attribute lifting on the collection
    add(R(('lift', 1, 'kids', 'w'), ('requery', 'kids_all'), ('lift', 1, 'kids', 'w')), W(('setw', 1, 2001)))
    add(R(('lift', 1, 'kids', 'w'), ('requery', 'kids_all'), ('kattr', 2, 'w'), ('lift', 1, 'kids', 'w')), W(('setw', 2, 2001)))
    add(R(('coll', 1, 'kids', 'len'), ('lift', 1, 'kids', 'w'), ('requery', 'kids_all'), ('lift', 1, 'kids', 'w')), W(('movekid', 1, 2), ('setw', 2, 2001)))
    add(R(('lift', 2, 'kids', 'w'), ('requery', 'prefetch_kids'), ('requery', 'kids_all'), ('lift', 2, 'kids', 'w')), W(('setw', 3, 2001)))
    # the reader writes (without having read), observes its value, commits in the middle and goes on
    add(R(('write', 1, 'x', 1001), ('read', 1, 'x'), ('commit',), ('requery', 'select_r1'), ('read', 1, 'x')), W(('write', 1, 'x', 2001)))
    add(R(('write', 1, 'x', 1001), ('read', 1, 'x'), ('flush',), ('commit',), ('requery', 'select_all'), ('read', 1, 'x')), W(('inc', 1, 'x')))
    add(R(('read', 1, 'y'), ('write', 1, 'x', 1001), ('commit',), ('read', 1, 'x'), ('requery', 'by_sql'), ('read', 1, 'x'), ('read', 1, 'y')),
        W(('write', 1, 'x', 2001), ('write', 1, 'y', 2002)))
    add(R(('inc', 1, 'z'), ('read', 1, 'z'), ('commit',), ('requery', 'select_r1'), ('read', 1, 'z')), W(('inc', 1, 'z')))
    add(R(('write', 2, 'y', 1001), ('commit',), ('read', 2, 'y'), ('requery', 'select_r2'), ('read', 2, 'y')), W(('write', 2, 'y', 2001)))
    return sets


OBS_ATTRS = ('x', 'y', 'z', 'n', 'f', 'v')
PROVOKERS = [('requery', 'prefetch_kids'), ('requery', 'select_all'), ('requery', 'select_r1'), ('requery', 'select_r2'), ('requery', 'get_x'),
             ('requery', 'kids_all'), ('requery', 'by_sql'), ('requery', 'tags_all'), ('load', 1), ('load', 2)]


def random_reader(rng):
    n = rng.randint(4, 6)
    ops = []
    keys = []
    for j in range(n):
        k = rng.random()
        if keys and k < 0.3:
            ops.append(rng.choice(keys))          # observe something again
        elif k < 0.55:
            op = ('read', 1 if rng.random() < 0.75 else 2, rng.choice(OBS_ATTRS)); ops.append(op); keys.append(op)
        elif k < 0.68:
            c = rng.choice(('kids', 'kids', 'tags'))
            how = rng.choice(('iter', 'iter', 'len', 'count', 'is_empty', 'bool', 'load', 'sorted', 'list', 'copy', 'in:%d' % rng.choice((1, 2))))
            op = ('coll', rng.choice((1, 1, 2)), c, how)
            ops.append(op); keys.append((op[0], op[1], op[2], rng.choice(('iter', 'len', 'sorted', 'copy'))))
            if c == 'kids' and rng.random() < 0.3:
                op = ('lift', op[1], 'kids', 'w'); ops.append(op); keys.append(op)
        elif k < 0.76:
            op = ('kattr', rng.choice((1, 2, 3, 4)), rng.choice(('parent', 'w'))); ops.append(op); keys.append(op)
        else:
            ops.append(rng.choice(PROVOKERS))
    if keys: ops.append(rng.choice(keys))
    if rng.random() < 0.3:
        # a reader that also writes: blind write, observe, commit in the middle, go on reading
        a = rng.choice(('x', 'y', 'z')); r = rng.choice((1, 1, 2))
        pre = [('write', r, a, 1001) if rng.random() < 0.7 else ('inc', r, a), ('read', r, a)]
        if rng.random() < 0.5: pre.append(('flush',))
        pre.append(('commit',))
        ops = pre + ops + [('read', r, a)]
    return S('A', ops)


def random_writer(rng, name, base):
    n = rng.randint(1, 3)
    ops = []
    c = itertools.count(base + 1)
    for j in range(n):
        k = rng.random()
        r = 1 if rng.random() < 0.75 else 2
        if k < 0.35:
            a = rng.choice(OBS_ATTRS); ops.append(('write', r, a, next(c) if a != 'f' else next(c) + 0.25))
        elif k < 0.45: ops.append(('inc', r, rng.choice(('x', 'y', 'z'))))
        elif k < 0.6: ops.append(('movekid', rng.choice((1, 2, 3, 4)), rng.choice((1, 2, None))))
        elif k < 0.68: ops.append(('delkid', rng.choice((1, 2, 3))))
        elif k < 0.74: ops.append(('newkid', 9 + j + (0 if name == 'B' else 5), r))
        elif k < 0.8: ops.append(('setw', rng.choice((1, 2, 3, 4)), next(c)))
        elif k < 0.88: ops.append(('addtag', r, rng.choice((1, 2))))
        elif k < 0.95: ops.append(('rmtag', r, rng.choice((1, 2))))
        else: ops.append(('delete', r))
    return S(name, ops)


def coll_view(final, r, c):
    if r not in final['R']: return None
    if c == 'kids': return sorted(k for k, (p, w) in final['K'].items() if p == r)
    return sorted(t for (rr, t) in final['L'] if rr == r)


def own_write_keys(op):
    """Observation keys whose value the reader changes itself with this op (their anchors start afresh)."""
    if op[0] in ('write', 'inc'): return [('R', op[1], op[2])]
    if op[0] == 'copy': return [('R', op[1], op[2])]
    return []


def judge_reader(ctx, sp, run, res, wit0):
    """Compare the reader's observations key by key, in program order."""
    anchors = {}          # key -> (kind, value, step)
    ops = run.sess['ops']
    by_step = {}
    for ob in run.obs: by_step.setdefault(ob[0], []).append(ob)
    for step in range(len(ops)):
        for ob in by_step.get(step, ()):
            judge_obs(ctx, res, wit0, anchors, ob)
        for key in own_write_keys(ops[step]):
            if step < run.steps_done: anchors.pop(key, None)      # the reader's own write: later reads start a new anchor


def judge_obs(ctx, res, wit0, anchors, ob):
        step, key, val = ob[:3]
        if key[0] in ('raw', 'find'): return
        if val[0] != 'val':
            ctx.count('obs.raised.' + val[1]); return
        if key[0] == 'R' and len(key) == 3 and key[2] == 'v':
            ctx.count('obs.volatile_exempt'); return
        if len(ob) > 3: ctx.count('obs.member_reference_through_collection')
        if len(key) == 5 and key[3] == 'in':                # membership test of one item
            a = anchors.get(key[:3])
            if a is not None and a[0] == 'items':
                ctx.count('obs.repeated'); ctx.count('obs.repeated_collection')
                if val[1] != (key[4] in a[1]):
                    ctx.violation(dict(wit0, key=list(key), first=list(a), later=[val[1], step]), 'repeated-collection-read-changed')
            key = tuple(key)                                # and the membership answer itself is a value that must stay
        elif len(key) == 4 and not str(key[3]).startswith('lift:'):      # collection observation
            ckey = key[:3]; kind = key[3]; v = val[1]
            a = anchors.get(ckey)
            if a is None:
                if kind == 'items': anchors[ckey] = ('items', v, step)
                elif kind == 'len': anchors[ckey] = ('len', v, step)
                else: ctx.count('obs.collection_not_anchoring')
                return
            ctx.count('obs.repeated'); ctx.count('obs.repeated_collection')
            akind, av, astep = a
            n0 = len(av) if akind == 'items' else av
            if kind == 'items':
                ok = (v == av) if akind == 'items' else (len(v) == n0)
            elif kind in ('len', 'count'): ok = (v == n0)
            elif kind == 'bool': ok = (v == (n0 != 0))
            else: ok = (v == (n0 == 0))
            if ok:
                if akind == 'len' and kind == 'items': anchors[ckey] = ('items', v, astep)
                truth = coll_view(res.final, key[1], key[2])
                if truth is not None and ((akind == 'items' and truth != av) or (akind == 'len' and len(truth) != av)):
                    ctx.count('obs.stale_but_stable')
            else:
                w = dict(wit0, key=list(key), first=[akind, av, astep], later=[kind, v, step])
                # known shape: one-to-many collection whose anchor is a len() observation (len() fully loads the
                # collection but, unlike iteration, does not mark the children's reference as read) and the later
                # observation shows FEWER items
                fewer = key[2] == 'kids' and akind == 'len' and (
                    (kind in ('len', 'count') and v < n0) or (kind == 'items' and len(v) < n0)
                    or (kind == 'is_empty' and v is True) or (kind == 'bool' and v is False))
                if fewer:
                    ctx.count('obs.known_item_removed')
                    ctx.finding(F_DISAPPEAR, w)
                else:
                    ctx.violation(w, 'repeated-collection-read-changed')
            return
        a = anchors.get(key)
        if a is None:
            anchors[key] = ('val', val[1], step); return
        ctx.count('obs.repeated'); ctx.count('obs.repeated_attr')
        if len(key) == 4: ctx.count('obs.repeated_lifted')
        if val[1] == a[1]:
            truth = None
            if key[0] == 'R' and len(key) == 3 and key[1] in res.final['R']: truth = res.final['R'][key[1]][key[2]]
            elif key[0] == 'K' and key[1] in res.final['K']: truth = res.final['K'][key[1]][0 if key[2] == 'parent' else 1]
            else: truth = a[1]
            if truth != a[1]: ctx.count('obs.stale_but_stable')
        else:
            ctx.violation(dict(wit0, key=list(key), first=[a[1], a[2]], later=[val[1], step],
                               via='collection' if len(ob) > 3 else 'direct'), 'repeated-attribute-read-changed')


def judge(ctx, sp, sessions, res, desc):
    wit0 = dict(desc, sessions=sessions, choices=''.join(res.sched.choices))
    if res.status != 'ok' or res.final is None:
        ctx.count('schedule.' + res.status)
        # neither a deadlock (all workers blocked) nor a watchdog is a verdict about this property
        ctx.inconclusive_if(True, '%s in schedule %r: %r' % (res.status, desc, res.sched.status_detail))
        return
    for s in sessions:
        r = res.runs[s['name']]
        if r.outcome == 'committed': ctx.count('session.%s.committed' % ('reader' if s['name'] == 'A' else 'writer'))
        elif r.outcome == 'raised': ctx.count('session.%s.raised.%s' % ('reader' if s['name'] == 'A' else 'writer', r.exc[0]))
        else:
            ctx.inconclusive_if(True, 'harness: session %s ended with %r %r' % (s['name'], r.outcome, r.exc)); return
    wit0['outcomes'] = {n: (r.outcome, r.exc and r.exc[0]) for n, r in res.runs.items()}
    judge_reader(ctx, sp, res.runs['A'], res, wit0)


SIGS = set()


def writer_committed_inside(res):
    """A writer's COMMIT returned between the reader's first and last DB-API event."""
    mine = [e['seq'] for e in res.events if e['tag'] == 'A']
    if not mine: return False
    lo, hi = mine[0], mine[-1]
    return any(e['kind'] == 'commit' and e['phase'] == 'ret' and e['tag'] != 'A' and lo < e['seq'] < hi for e in res.events)


def explore(ctx, model, sp, sessions, kind, key, stmt_samples, max_enum=2000):
    if ctx.tier == 'quick': max_enum = 400          # quick: larger interleaving spaces are sampled (time budget)
    from vlib import sched
    names = [s['name'] for s in sessions]
    counts = [sp.n_steps(s) for s in sessions]
    total = sched.n_interleavings(counts)
    rng = ctx.subrng('ilv', *key)
    if total <= max_enum:
        seqs = list(sched.interleavings(counts)); ctx.count('sets.enumerated_exhaustively')
    else:
        seqs = sched.sample_interleavings(counts, 150 if ctx.tier == 'quick' else 250, rng); ctx.count('sets.sampled')
    progfp = [[s['name'], s['ops'], sorted(s['opts'].items())] for s in sessions]
    rk = [(o[0], o[1], o[2]) for s in sessions if s['name'] == 'A' for o in s['ops'] if o[0] in ('read', 'coll', 'kattr', 'lift')]
    keys_twice = len(rk) != len(set(rk))
    plans = [('op', [names[i] for i in seq]) for seq in seqs] + [('stmt', j) for j in range(stmt_samples)]
    for level, p in plans:
        if level == 'op':
            ch = sched.SequenceChooser(p); levels = ('op', 'lock'); desc = {'level': 'op', 'seq': ''.join(p)}
        else:
            r2 = ctx.subrng('stmt', p, *key)
            ch = sched.RandomChooser(r2, r2.choice((0.3, 0.5, 0.7))); levels = ('stmt', 'op', 'lock'); desc = {'level': 'stmt', 'sample': p}
        desc.update(kind=kind, key=list(key))
        res = sp.run_schedule(model, sessions, ch, levels=levels, watch_writes=False)
        ctx.count('schedules'); ctx.count('schedules.%s_level' % level)
        inside = res.status == 'ok' and writer_committed_inside(res)
        nontrivial = bool(inside and keys_twice)
        if nontrivial: ctx.count('schedules.nontrivial')
        ctx.case([progfp, res.sched.signature], nontrivial=nontrivial,
                 sample={'desc': desc, 'sessions': sessions, 'reader_obs': res.runs['A'].obs,
                         'outcomes': {n: (r.outcome, r.exc and r.exc[0]) for n, r in res.runs.items()}})
        ctx.count('lock_waits', sum(w.lock_waits for w in res.sched.workers))
        ctx.count('db_statements', sum(1 for e in res.events if e['phase'] == 'call' and e['kind'] == 'execute'))
        SIGS.add(res.sched.signature + repr(progfp))
        judge(ctx, sp, sessions, res, desc)


def run(ctx):
    from vlib import schedprog as sp
    model = sp.Model(ctx.tmp(), timeout=0.05)
    try:
        hw = handwritten()
        if ctx.tier == 'quick':
            hw_sel = hw; nrand, stmt = 6, 4
        else:
            core = [hw[0], hw[1], hw[2], hw[10], hw[16], hw[26], hw[34], hw[38]]    # every shard: sets in which the loud outcome certainly occurs
            hw_sel = core + [h for i, h in enumerate(hw) if i % ctx.nshards == ctx.shard and h not in core]
            nrand, stmt = 16, 6
        for sessions in hw_sel:
            explore(ctx, model, sp, sessions, 'hand', ('hand', hw.index(sessions), ctx.shard), stmt)
            ctx.count('program_sets')
        rng = ctx.rng
        for i in range(nrand):
            sessions = [random_reader(rng), random_writer(rng, 'B', 2000)]
            if rng.random() < 0.2: sessions.append(random_writer(rng, 'C', 3000))
            explore(ctx, model, sp, sessions, 'random', ('rand', ctx.tier, ctx.shard, i), stmt)
            ctx.count('program_sets')
    finally:
        model.close()
    ctx.count('distinct_schedules', len(SIGS))
    # floors are evaluated per shard: the thorough values are what the fixed core sets of every shard guarantee
    one = ctx.nshards == 1
    ctx.floor('schedules.nontrivial', 400 if one else 100)
    ctx.floor('obs.repeated', 1200 if one else 200)
    ctx.floor('obs.repeated_collection', 150 if one else 40)
    ctx.floor('obs.stale_but_stable', 100)
    ctx.floor('session.reader.raised.UnrepeatableReadError', 30 if one else 6)


def replay(ctx, witness):
    from vlib import schedprog as sp, sched
    model = sp.Model(ctx.tmp(), timeout=0.05)
    try:
        sessions = witness['sessions']
        for s in sessions: s['ops'] = [tuple(o) for o in s['ops']]
        levels = ('op', 'lock') if witness.get('level') == 'op' else ('stmt', 'op', 'lock')
        res = sp.run_schedule(model, sessions, sched.ReplayChooser(witness['choices']), levels=levels, watch_writes=False)
        judge(ctx, sp, sessions, res, {'replay': True, 'level': witness.get('level')})
    finally:
        model.close()

#!/usr/bin/env python3
"""Seeded-mutant bookkeeping.

  seeded.py confirm /tmp/seed-out-C09        confirm every mutant of that directory in a scratch worktree
                                             (tests pass with the patch, demo fails with it and passes without)
                                             and copy the confirmed ones to /verif/seeded/<pid>-<name>/
  seeded.py run [name ...] [--checks C09,C10] [--tier quick] [--seeds 0,1]
                                             apply each kept mutant in a scratch worktree and run the checks
                                             against it (VERIF_REPO); results go to seeded/results.json
"""
import os, sys, json, subprocess, shutil, glob, tempfile, time, xml.etree.ElementTree as ET

HERE = os.path.dirname(os.path.dirname(os.path.abspath(__file__)))
SEEDED = os.path.join(HERE, 'seeded')
PY = '/venv/bin/python'
BASE = json.load(open('/root/.vp/BASELINE.json'))


def sh(cmd, **kw):
    return subprocess.run(cmd, shell=isinstance(cmd, str), capture_output=True, text=True, **kw)


def worktree():
    d = tempfile.mkdtemp(prefix='seedwt-', dir='/tmp')
    os.rmdir(d)
    r = sh(['git', '-C', '/repo', 'worktree', 'add', '-q', '--detach', d, 'HEAD'])
    assert r.returncode == 0, r.stderr
    return d


def drop(d):
    sh(['git', '-C', '/repo', 'worktree', 'remove', '--force', d])
    shutil.rmtree(d, ignore_errors=True)


def tests_pass(tree):
    out = tempfile.mktemp(suffix='.xml')
    env = dict(os.environ); env.pop('PONYORM_PONY_VERIF', None)
    cmd = 'cd %s && %s -m pytest -ra -q -p no:cacheprovider --timeout=900 --continue-on-collection-errors --junitxml=%s' % (tree, PY, out)
    sh(cmd, env=env)
    passed = set()
    try:
        for tc in ET.parse(out).getroot().iter('testcase'):
            if not any(ch.tag in ('failure', 'error', 'skipped') for ch in tc):
                passed.add('%s::%s' % (tc.get('classname'), tc.get('name')))
    finally:
        if os.path.exists(out): os.remove(out)
    missing = sorted(set(BASE['stable_pass']) - passed)
    return not missing, missing[:5]


def confirm(outdir):
    wt = worktree()
    kept = []
    try:
        for md in sorted(glob.glob(os.path.join(outdir, '*'))):
            patch, demo, meta = (os.path.join(md, n) for n in ('patch.diff', 'demo.py', 'meta.json'))
            if not (os.path.exists(patch) and os.path.exists(demo) and os.path.exists(meta)): continue
            m = json.load(open(meta))
            name = '%s-%s' % (m['property'], os.path.basename(md))
            sh(['git', '-C', wt, 'checkout', '--', '.'])
            clean = sh([PY, demo, wt], timeout=300)
            ap = sh(['git', '-C', wt, 'apply', patch])
            if ap.returncode != 0:
                print('SKIP %s: patch does not apply: %s' % (name, ap.stderr[:200])); continue
            compiled = sh([PY, '-c', 'import sys; sys.path.insert(0, %r); import pony.orm, pony.orm.core, pony.orm.sqltranslation, pony.orm.dbproviders.sqlite' % wt])
            mutated = sh([PY, demo, wt], timeout=300)
            ok_tests, missing = tests_pass(wt)
            sh(['git', '-C', wt, 'checkout', '--', '.'])
            verdict = {'demo_passes_without_patch': clean.returncode == 0, 'demo_fails_with_patch': mutated.returncode != 0,
                       'imports_with_patch': compiled.returncode == 0, 'tests_pass_with_patch': ok_tests, 'tests_missing': missing}
            good = all(verdict[k] for k in ('demo_passes_without_patch', 'demo_fails_with_patch', 'imports_with_patch', 'tests_pass_with_patch'))
            print(('KEEP ' if good else 'DROP ') + name, verdict)
            if not good: continue
            dst = os.path.join(SEEDED, name)
            os.makedirs(dst, exist_ok=True)
            shutil.copy(patch, os.path.join(dst, 'patch.diff')); shutil.copy(demo, os.path.join(dst, 'demo.py'))
            m['confirmed_by_lead'] = verdict
            m['confirmed_at_repo_commit'] = sh(['git', '-C', '/repo', 'rev-parse', '--short', 'HEAD']).stdout.strip()
            m['what_was_run'] = ['git apply patch.diff in a scratch worktree of /repo HEAD', 'demo.py <tree> (clean: exit 0, patched: exit != 0)',
                                 'pinned pytest command with --junitxml on the patched tree: every BASELINE stable_pass test passes']
            json.dump(m, open(os.path.join(dst, 'meta.json'), 'w'), indent=1)
            kept.append(name)
    finally:
        drop(wt)
    return kept


def run(names, checks, tier, seeds, jobs=4):
    """apply each mutant in a scratch worktree and run the checks against it.  A mutant counts as caught only if the
    same check with the same seed exits 0 on the UNCHANGED tree (verified once per check and seed): a check that
    is broken on the clean tree must not make everything look caught."""
    import threading, queue
    res_path = os.path.join(SEEDED, 'results.json')
    results = json.load(open(res_path)) if os.path.exists(res_path) else {}
    lock = threading.Lock()
    baseline = {}
    def run_check(tree, ck, seed):
        env = dict(os.environ, VERIF_REPO=tree, VERIF_SEED=str(seed))
        t0 = time.time()
        try: r = sh([PY, os.path.join(HERE, 'run_check.py'), ck, '--tier', tier], env=env, cwd=HERE, timeout=2400)
        except subprocess.TimeoutExpired: return -1, ['<runner timeout>'], round(time.time() - t0, 1)
        mech = sorted(set(l.split('mechanism=')[1].split(' ')[0] for l in r.stdout.splitlines() if 'mechanism=' in l))
        return r.returncode, mech, round(time.time() - t0, 1)
    def clean_ok(wt, ck, seed):
        with lock:
            ev = baseline.get((ck, seed))
            if ev is None: ev = baseline[(ck, seed)] = threading.Event(); owner = True
            else: owner = False
        if owner:
            sh(['git', '-C', wt, 'checkout', '--', '.'])
            rc, mech, wall = run_check(wt, ck, seed)
            ev.rc = rc; ev.set()
            print('baseline %s %s seed=%d on the unchanged tree -> rc=%d %s' % (ck, tier, seed, rc, mech[:3]), flush=True)
        ev.wait()
        return ev.rc == 0
    todo = queue.Queue()
    for d in sorted(glob.glob(os.path.join(SEEDED, '*'))):
        name = os.path.basename(d)
        if os.path.isdir(d) and (not names or name in names): todo.put(d)
    def worker():
        wt = worktree()
        try:
            while True:
                try: d = todo.get_nowait()
                except queue.Empty: return
                name = os.path.basename(d)
                meta = json.load(open(os.path.join(d, 'meta.json')))
                cks = checks or [meta['property']]
                mine = {}
                for ck in cks:
                    for seed in seeds:
                        ok = clean_ok(wt, ck, seed)
                        sh(['git', '-C', wt, 'checkout', '--', '.'])
                        ap = sh(['git', '-C', wt, 'apply', os.path.join(d, 'patch.diff')])
                        if ap.returncode != 0:
                            ap = sh('cd %s && patch -p1 --fuzz=3 < %s' % (wt, os.path.join(d, 'patch.diff')))
                            if ap.returncode != 0:
                                sh('cd %s && git checkout -- . && git clean -fdq' % wt)
                                print('%s: patch no longer applies' % name, flush=True); mine['applies'] = False; break
                        rc, mech, wall = run_check(wt, ck, seed)
                        caught = rc == 1 and ok
                        mine['%s/%s/seed%d' % (ck, tier, seed)] = {'caught': caught, 'rc': rc, 'mechanisms': mech[:6], 'wall_s': wall,
                                                                  'clean_tree_rc0': ok}
                        print('%-55s %s %s seed=%d -> %s %s' % (name, ck, tier, seed, 'CAUGHT' if caught else 'missed(rc=%d%s)' % (rc, '' if ok else ', check not clean on unchanged tree'), mech[:3]), flush=True)
                        sh('cd %s && git checkout -- . && git clean -fdq' % wt)
                        if caught: break
                    if mine.get('applies') is False: break
                with lock:
                    results.setdefault(name, {}).update(mine)
                    json.dump(results, open(res_path, 'w'), indent=1, sort_keys=True)
        finally:
            drop(wt)
    ts = [threading.Thread(target=worker) for _ in range(jobs)]
    [t.start() for t in ts]; [t.join() for t in ts]
    # evidence files were written by runs against mutants: restore them from git so committed evidence stays honest
    sh(['git', '-C', HERE, 'checkout', '--', 'evidence'])


if __name__ == '__main__':
    a = sys.argv[1:]
    if a and a[0] == 'confirm':
        for od in a[1:]: print(confirm(od))
    elif a and a[0] == 'run':
        names = [x for x in a[1:] if not x.startswith('--')]
        opt = {}
        it = iter(a[1:])
        for x in it:
            if x.startswith('--'): opt[x[2:]] = next(it);
        names = [x for x in names if x not in opt.values()]
        run(names, opt.get('checks', '').split(',') if opt.get('checks') else None, opt.get('tier', 'quick'),
            [int(s) for s in opt.get('seeds', '0').split(',')], jobs=int(opt.get('jobs', '4')))
    else:
        print(__doc__)

#!/venv/bin/python
"""Replay an E2 witness step by step, printing outcomes, errors, reports and recorded SQL."""
import sys, os, json
sys.path.insert(0, os.path.dirname(os.path.dirname(os.path.abspath(__file__))))
from vlib import common; common.setup_path()
from vlib import hist, hops
w = json.load(open(sys.argv[1]))['witness']
show_sql = '--sql' in sys.argv
d = common.scratch_dir()
eng = hist.Engine(w['spec'], d, name='dbg')
eng.stop_on_taint = '--continue' not in sys.argv
for op in w['ops'] + [{'op': 'end'}]:
    m = eng.rec.mark(); nrep = len(eng.reports); nerr = len(eng.errlog)
    out = eng.step(op)
    print(out.ljust(18), json.dumps(op))
    if show_sql:
        for e in eng.rec.statements(m): print('      SQL', e['sql'].replace('\n', ' ')[:160], e['args'])
    for e in eng.errlog[nerr:]: print('      ERR', e)
    for r in eng.reports[nrep:]: print('      REPORT', json.dumps(r.as_dict())[:600])
eng.close()
import shutil; shutil.rmtree(d)

#!/usr/bin/env python3
"""Print E2 replay witnesses compactly."""
import json, sys
def short_spec(spec):
    out = []
    for e in spec['entities']:
        attrs = []
        for a in e['attrs']:
            if a['kind'] == 'scalar':
                f = a['type'] + ('!' if a.get('required') else '?') + ('u' if a.get('unique') else '') + ('L' if a.get('lazy') else '') + ('n' if a.get('nullable') else '') + ('=%r' % a['default'] if 'default' in a else '')
            elif a['kind'] == 'ref':
                f = '->%s.%s%s%s' % (a['target'], a['reverse'], '!' if a.get('required') else '?', {None: '', True: ' casc', False: ' nocasc'}[a.get('cascade')])
            else:
                f = '=>>%s.%s%s' % (a['target'], a['reverse'], {None: '', True: ' casc', False: ' nocasc'}[a.get('cascade')])
            attrs.append('%s:%s' % (a['name'], f))
        out.append('  %s(%s) pk=%s %s ck=%s' % (e['name'], e.get('base') or '', e.get('pk'), ', '.join(attrs), e.get('composite_keys') or ''))
    return '\n'.join(out)
for path in sys.argv[1:]:
    w = json.load(open(path))
    wit = w['witness']
    print('=' * 100); print(path, w.get('mechanism'))
    print(short_spec(wit['spec']))
    for o in wit['ops']: print('   ', json.dumps(o))
    print('  REPORT', json.dumps(wit['report'])[:1200])
    for e in wit.get('errors', []): print('  ERR', e)

#!/venv/bin/python
"""setup_cmd: nothing to build (pure Python, no third-party deps beyond /venv);
verify the interpreter, that pony imports from the tree under test, and sqlite features."""
import os, sys, sqlite3
HERE = os.path.dirname(os.path.dirname(os.path.abspath(__file__)))
sys.path.insert(0, HERE); sys.dont_write_bytecode = True
from vlib import common
common.setup_path()
import pony
assert sys.version_info[:2] >= (3, 12), sys.version
assert hasattr(sys, 'monitoring')
assert sqlite3.sqlite_version_info >= (3, 35), sqlite3.sqlite_version
for d in ('evidence', 'replays'):
    os.makedirs(os.path.join(HERE, d), exist_ok=True)
print('setup ok: python %s, pony %s from %s, sqlite %s' % (sys.version.split()[0], pony.__version__, common.REPO, sqlite3.sqlite_version))

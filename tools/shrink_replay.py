#!/usr/bin/env python3
"""Shrink an E2 replay witness (greedy, mechanism preserving) and print it.  usage: shrink_replay.py <replay.json> [budget]"""
import sys, os, json, importlib.util, tempfile
HERE = os.path.dirname(os.path.dirname(os.path.abspath(__file__)))
sys.path.insert(0, HERE); sys.path.insert(0, os.environ.get('VERIF_REPO', '/repo'))
from vlib import hops, hcheck
w = json.load(open(sys.argv[1]))
pid = w['property_id']; wit = w['witness']
spec = importlib.util.spec_from_file_location(pid, os.path.join(HERE, 'checks', pid + '.py')); mod = importlib.util.module_from_spec(spec); spec.loader.exec_module(mod)
cfg = getattr(mod, 'CFG', {})
r = wit['report']; key = (r['monitor'], r['kind'])
mech = r['detail'].get('mechanism') if isinstance(r.get('detail'), dict) else None
post = hcheck.engine_post(dict(cfg, seed_via_refs=wit['seed_via_refs']) if 'seed_via_refs' in wit else cfg)
wd = tempfile.mkdtemp()
small = hops.shrink(wit['spec'], wit['ops'], key, wd, budget=int(sys.argv[2]) if len(sys.argv) > 2 else 1500, mech=mech,
                    stop_on_taint=cfg.get('stop_on_taint', True), post=post)
eng = hops.replay_ops(wit['spec'], small, wd, stop_on_taint=cfg.get('stop_on_taint', True), post=post)
json.dump({'property_id': pid, 'witness': dict(wit, ops=small)}, open('/tmp/shrunk.json', 'w'))
os.system('python3 %s/tools/show_replay.py /tmp/shrunk.json | cut -c1-400' % HERE)
for x in eng.reports:
    if (x.monitor, x.kind) == key: print('REPORT', json.dumps(x.as_dict())[:1500]); break
print('errors', eng.errlog[-4:])

#!/usr/bin/env python3
"""Regenerate the generated tables of DESIGN.md (between <!-- BEGIN:x --> / <!-- END:x --> markers):
FIXES (fix: commits of /repo), TABLE9 (one line per check from META + evidence), SEEDED (seeded/results.json)."""
import ast, json, os, re, subprocess, glob
HERE = os.path.dirname(os.path.dirname(os.path.abspath(__file__)))


def meta_of(path):
    tree = ast.parse(open(path).read())
    for node in tree.body:
        if isinstance(node, ast.Assign) and any(getattr(t, 'id', None) == 'META' for t in node.targets):
            return ast.literal_eval(node.value)
    return {}


def fixes():
    out = subprocess.run(['git', '-C', '/repo', 'log', '--reverse', '--format=%h %s'], capture_output=True, text=True).stdout
    kf = json.load(open(os.path.join(HERE, 'known_findings.json')))['findings']
    by = {}
    for e in kf:
        if e.get('status') == 'fixed' and e.get('commit'): by.setdefault(e['commit'][:7], []).append(e['id'])
    rows = ['| commit | repair | found as |', '|---|---|---|']
    for l in out.splitlines():
        h, msg = l.split(' ', 1)
        if not msg.startswith('fix:'): continue
        rows.append('| `%s` | %s | %s |' % (h, msg[4:].strip().replace('|', '/'), ', '.join(sorted(set(by.get(h[:7], [])))) or '(follow-up)'))
    return '\n'.join(rows)


def table9():
    reg = json.load(open(os.path.join(HERE, 'tools', 'registered.json')))
    rows = ['| id | engine | deciding technique | level | last quick run: evaluations / distinct non-trivial / wall |', '|---|---|---|---|---|']
    for pid in reg:
        m = meta_of(os.path.join(HERE, 'checks', pid + '.py'))
        ev = {}
        try: ev = json.load(open(os.path.join(HERE, 'evidence', pid + '.json')))
        except Exception: pass
        cov = ev.get('coverage', {})
        q = '%s / %s / %ss (%s)' % (cov.get('evaluations', '?'), cov.get('distinct_nontrivial', '?'), ev.get('wall_s', '?'), ev.get('tier', '?'))
        rows.append('| %s | %s | %s | %s | %s |' % (pid, m.get('engine', ''), m.get('technique', '').replace('|', '/'), m.get('level', ''), q))
    return '\n'.join(rows)


def seeded():
    res = json.load(open(os.path.join(HERE, 'seeded', 'results.json')))
    rows = ['| seeded change | what it breaks | caught by (tier/seed) | missed by |', '|---|---|---|---|']
    n = caught_n = 0
    for d in sorted(glob.glob(os.path.join(HERE, 'seeded', '*', 'meta.json'))):
        name = os.path.basename(os.path.dirname(d))
        meta = json.load(open(d))
        r = res.get(name, {})
        caught, missed = [], set()
        for k, v in sorted(r.items()):
            if not isinstance(v, dict): continue
            ck, tier, seed = k.split('/')
            if v.get('caught'): caught.append('%s %s/%s' % (ck, tier, seed.replace('seed', '')))
            else: missed.add(ck)
        missed -= {c.split(' ')[0] for c in caught}
        n += 1; caught_n += bool(caught)
        what = meta.get('what_it_breaks', '').replace('|', '/').replace('\n', ' ')
        if len(what) > 230: what = what[:227] + '...'
        rows.append('| `%s` | %s | %s | %s |' % (name, what, ', '.join(caught) or '**none**', ', '.join(sorted(missed)) or ''))
    rows.append('')
    rows.append('%d seeded changes, %d caught by at least one registered check.' % (n, caught_n))
    return '\n'.join(rows)


def main():
    p = os.path.join(HERE, 'DESIGN.md')
    s = open(p).read()
    for name, fn in (('FIXES', fixes), ('TABLE9', table9), ('SEEDED', seeded)):
        b, e = '<!-- BEGIN:%s -->' % name, '<!-- END:%s -->' % name
        if b in s and e in s:
            i, j = s.index(b) + len(b), s.index(e)
            s = s[:i] + '\n' + fn() + '\n' + s[j:]
    open(p, 'w').write(s)
    print('DESIGN.md tables regenerated')


if __name__ == '__main__':
    main()

#!/usr/bin/env python3
"""Run the repository's pinned test suite (guard off) and compare with /root/.vp/BASELINE.json stable_pass."""
import json, subprocess, sys, os, tempfile, xml.etree.ElementTree as ET
base = json.load(open('/root/.vp/BASELINE.json'))
out = tempfile.mktemp(suffix='.xml')
env = dict(os.environ); env.pop('PONYORM_PONY_VERIF', None)
cmd = base['cmd'].replace('<file>', out)
p = subprocess.run(cmd, shell=True, env=env, capture_output=True, text=True)
passed = set()
for tc in ET.parse(out).getroot().iter('testcase'):
    if not any(ch.tag in ('failure', 'error', 'skipped') for ch in tc):
        passed.add('%s::%s' % (tc.get('classname'), tc.get('name')))
os.remove(out)
stable = set(base['stable_pass'])
missing = sorted(stable - passed)
print('passed %d, stable_pass %d, stable tests not passing now: %d' % (len(passed), len(stable), len(missing)))
for m in missing[:30]: print('  NOT PASSING:', m)
print(p.stdout.strip().splitlines()[-1] if p.stdout.strip() else '')
sys.exit(1 if missing else 0)

#!/usr/bin/env python3
"""Merge findings_proposed/Cxx.json (written by check builders) into known_findings.json.
usage: merge_findings.py Cxx [Cyy ...] [--fixed ID=commit ...]"""
import json, sys, os
HERE = os.path.dirname(os.path.dirname(os.path.abspath(__file__)))
args = sys.argv[1:]
fixed = dict(a.split('=', 1) for a in args if '=' in a and not a.startswith('--'))
pids = [a for a in args if '=' not in a and not a.startswith('--')]
kf = json.load(open(os.path.join(HERE, 'known_findings.json')))
have = {e['id']: e for e in kf['findings']}
for pid in pids:
    for e in json.load(open(os.path.join(HERE, 'findings_proposed', pid + '.json'))):
        n = {'id': e['id'], 'property': e['property'], 'status': 'open', 'what': e['what'], 'mechanism': e.get('mechanism', '')}
        if e.get('repro'): n['repro'] = e['repro']
        if e['id'] in fixed:
            n['status'] = 'fixed'; n['commit'] = fixed[e['id']]
            n['line'] = 'fixed: property=%s %s %s' % (e['property'], fixed[e['id']], e['what'][:200])
        if e['id'] in have:
            if have[e['id']].get('status') == 'fixed' and n['status'] != 'fixed': n.pop('status')   # a fixed entry stays fixed
            have[e['id']].update(n)
        else: kf['findings'].append(n); have[e['id']] = n
json.dump(kf, open(os.path.join(HERE, 'known_findings.json'), 'w'), indent=1)
print(len(kf['findings']), 'findings;', sum(1 for e in kf['findings'] if e['status'] == 'open'), 'open')

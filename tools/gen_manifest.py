#!/usr/bin/env python3-vt
"""Regenerate MANIFEST.json from the META dict of every checks/Cxx.py and from
tools/not_applicable.json.  Validates against the schema."""
import os, sys, json, importlib, glob
HERE = os.path.dirname(os.path.dirname(os.path.abspath(__file__)))
sys.path.insert(0, HERE); sys.dont_write_bytecode = True
PY = '/venv/bin/python'
BASE = json.load(open('/root/.vp/BASELINE.json')) if os.path.exists('/root/.vp/BASELINE.json') else {}

def load_meta(path):
    import ast
    tree = ast.parse(open(path).read())
    for node in tree.body:
        if isinstance(node, ast.Assign) and getattr(node.targets[0], 'id', None) == 'META':
            return ast.literal_eval(node.value)
    raise SystemExit('no literal META in ' + path)

def main():
    props = [json.loads(l)['id'] for l in open(os.path.join(HERE, 'properties.jsonl')) if l.strip()]
    na = json.load(open(os.path.join(HERE, 'tools', 'not_applicable.json')))
    static = json.load(open(os.path.join(HERE, 'tools', 'manifest_static.json')))
    registered = set(json.load(open(os.path.join(HERE, 'tools', 'registered.json'))))
    checks, engines = [], {}
    for pid in props:
        path = os.path.join(HERE, 'checks', pid + '.py')
        if not os.path.exists(path) or pid in na or pid not in registered: continue
        m = load_meta(path)
        c = {'property_id': pid,
             'quick_cmd': '%s run_check.py %s --tier quick' % (PY, pid),
             'thorough_cmd': '%s run_check.py %s --tier thorough' % (PY, pid),
             'evidence_file': 'evidence/%s.json' % pid,
             'replay_cmd_template': '%s run_check.py %s --replay {path}' % (PY, pid),
             'engine': m.get('engine', ''),
             'level_claimed': {'category': m['level'], 'text': m['level_text'], 'design_ref': m.get('design_ref', 'DESIGN.md §3 ' + pid)},
             'level_note': m['level_note'],
             'technique': m['technique']}
        checks.append(c)
        for e in m.get('engine', '').split('+'):
            if e: engines.setdefault(e, []).append(pid)
    claimed = {c['property_id'] for c in checks}
    nalist = [{'property_id': p, 'reason': na.get(p, 'check not built yet in this round; see DESIGN.md §9')}
              for p in props if p not in claimed]
    man = dict(static)
    man['engines'] = [dict(e, serves_properties=engines.get(e['name'], [])) for e in static.get('engines', [])]
    man['checks'] = checks
    man['not_applicable'] = nalist
    import jsonschema
    jsonschema.validate(man, json.load(open('/root/.vp/MANIFEST.schema.json')))
    with open(os.path.join(HERE, 'MANIFEST.json'), 'w') as f: json.dump(man, f, indent=1)
    print('MANIFEST.json: %d checks, %d not_applicable' % (len(checks), len(nalist)))
main()

"""E4 session-program harness (used by C20, C21, C35).

A tiny fixed model on a file-backed SQLite database, session programs as lists of ops, an executor that runs each
session in its own worker thread under vlib.sched, a pure-Python reference interpreter of the same ops (for the
serial-equivalence oracle) and monitors that observe, from outside pony:

  * every value a session reads (observation log, per session, in program order);
  * at every UPDATE/DELETE/INSERT statement a session sends (DB-API 'call' event), the *committed* content of the
    tables as seen by an independent raw sqlite3 connection -- i.e. the values "at the UPDATE's position";
  * the full DB-API event log with session tags (vlib.dbapi.Recorder);
  * the raw final state of the file.

Model (all attributes non-null so every program has a Python meaning):

    R(id, x:int, y:int, z:int, n:int optimistic=False, f:float, v:int volatile, kids: Set(K), tags: Set(T))
    K(id, parent: Optional(R), w:int)          T(id, rows: Set(R))

Ops (tuples; r = R id, a = attribute name):
    ('read', r, a)               value of R[r].a  (observed)
    ('write', r, a, k)           R[r].a = k
    ('inc', r, a)                R[r].a = R[r].a + 1            (observes the old value);  ('dec', r, a): - 1
    ('copy', r, a, r2, b)        R[r].a = R[r2].b + 1           (observes R[r2].b)
    ('flush',)                   flush()
    ('lock', r, how)             how in get_for_update | nowait | skip_locked | query_for_update | query_nowait
    ('load', r)                  R[r].load()
    ('requery', how)             how in select_all | select_r1 | select_r2 | get_x | kids_all | by_sql (provokes reloads)
    ('coll', r, c, how)          c in kids|tags ; how in iter | len | count | is_empty  (observed)
    ('kattr', k, a)              value of K[k].a  (a in parent|w; parent observed as R id or None)
    ('delete', r) ('delkid', k) ('movekid', k, r2_or_None) ('newkid', k, r) ('setw', k, val)
    ('addtag', r, t) ('rmtag', r, t)
    ('rawread', r, a)            db.get("select a from R where id = $r")   (raw SQL read inside the session)
    ('commit',)                  commit() in the middle of the session: the session goes on with the same cache; locks
                                 taken so far are released (run.locked is cleared); a new UNIT (transaction) starts
    ('rollback',)                rollback() in the middle of the session: the unit contributes nothing, the session
                                 cache is dropped, a new unit starts
    ('preload', r, how)          plain non-locking read that puts R[r] into the identity map:
                                 how in pk | code | ckey | query | get_id
    lock hows, additionally:     by_code | by_code_nowait | by_ckey | by_ckey_skip | query_skip | select_kw
                                 (get_for_update by secondary unique key / composite key, query variants)
    ('newrow', r)                create R[r] in this session (values NEW_R)
    ('objflush', 'R'|'K', id)    obj.flush() of that single object (after a delete/update of it)
    ('lift', r, c, a)            sorted(R[r].<c>.<a>)  -- item attribute values observed through attribute lifting
    coll hows, additionally:     bool | load | sorted | list | copy | in:<item id>   (load observes nothing)
    requery hows, additionally:  prefetch_kids
    ('find', r, a)               R.get(id=r, a=<initial value of a>): the attribute is "read" by being used as a
                                 search criterion; observed (as that value) only when the object is found
"""
import os, shutil, sqlite3, itertools, types

# declaration order matters (attributes excluded from optimistic checks sit before, between and after checked ones):
#   e float (unchecked by default) | x y z int | n int optimistic=False | f float | v int volatile |
#   g float optimistic=True (checked) | d Decimal (checked) | q int (checked)
R_ATTRS = ('e', 'x', 'y', 'z', 'n', 'f', 'v', 'g', 'd', 'q')
EXEMPT_ATTRS = {'e': 'float (RealConverter.optimistic is False)', 'n': 'optimistic=False',
                'f': 'float (RealConverter.optimistic is False)', 'v': 'volatile'}
FLOAT_ATTRS = ('e', 'f', 'g')
INIT_R = {1: {'e': 0.5, 'x': 10, 'y': 20, 'z': 30, 'n': 40, 'f': 1.5, 'v': 60, 'g': 5.5, 'd': 7.25, 'q': 70},
          2: {'e': 0.75, 'x': 11, 'y': 21, 'z': 31, 'n': 41, 'f': 2.5, 'v': 61, 'g': 6.5, 'd': 8.25, 'q': 71}}


def conv(a, v):
    """Value of kind `a` made from v (used identically by the executor and by the reference interpreter)."""
    if a in FLOAT_ATTRS or a == 'd': return float(v)
    return int(v)


def plain(v):
    """Observed / stored value as a plain Python number (Decimal -> float)."""
    import decimal
    return float(v) if isinstance(v, decimal.Decimal) else v
INIT_K = {1: (1, 100), 2: (1, 200), 3: (2, 300), 4: (None, 400)}        # kid -> (parent, w)
INIT_L = {(1, 1), (2, 1), (2, 2)}                                      # (row, tag)
LOCK_HOWS = ('get_for_update', 'nowait', 'skip_locked', 'query_for_update', 'query_nowait',
             'by_code', 'by_code_nowait', 'by_ckey', 'by_ckey_skip', 'query_skip', 'select_kw')

NEW_R = {'e': 0.25, 'x': 12, 'y': 22, 'z': 32, 'n': 42, 'f': 3.5, 'v': 62, 'g': 7.5, 'd': 9.25, 'q': 72}
ITEM_KINDS = ('iter', 'sorted', 'list', 'copy')          # collection reads that return the members themselves

WRITE_OPS = ('write', 'inc', 'dec', 'copy', 'delete', 'delkid', 'movekid', 'newkid', 'setw', 'addtag', 'rmtag', 'newrow')


class Model(object):
    def __init__(self, tmpdir, timeout=0.05, busy_retry=False):
        import pony.orm as po
        from pony.orm import core
        from vlib import sched, dbapi
        self.po, self.core, self.sched = po, core, sched
        self.hub = sched.HUB
        self.rec = dbapi.Recorder()
        self.factory = self.hub.busy_retry_factory(self.rec) if busy_retry else self.rec.factory()
        self.timeout = timeout
        self.tmp = tmpdir
        self.template = os.path.join(tmpdir, 'sp-template.sqlite')
        self.path = os.path.join(tmpdir, 'sp-work.sqlite')
        E = self._make(self.template, create=True)
        with po.db_session:
            rows = {i: E.R(id=i, code='R%d' % i, kb=7, kc=i, **self.pyvals(vals)) for i, vals in INIT_R.items()}
            tags = {t: E.T(id=t) for t in (1, 2)}
            for k, (p, w) in INIT_K.items(): E.K(id=k, parent=rows[p] if p else None, w=w)
            for r, t in sorted(INIT_L): rows[r].tags.add(tags[t])
        E.db.disconnect()
        shutil.copyfile(self.template, self.path)
        self.E = self._make(self.path)
        self.E.db.disconnect()
        self.hub.wrap_sqlite_lock()
        self.monitor = None
        self.track_marks = False     # C35: committed-state snapshots at lock / first read / session end
        self.rec.yield_hook = self._hook
        self._raw = None

    def _make(self, path, create=False):
        po = self.po
        db = po.Database()

        from decimal import Decimal

        class R(db.Entity):
            id = po.PrimaryKey(int)
            e = po.Required(float)
            x = po.Required(int)
            y = po.Required(int)
            z = po.Required(int)
            n = po.Required(int, optimistic=False)
            f = po.Required(float)
            v = po.Required(int, volatile=True)
            g = po.Required(float, optimistic=True)
            d = po.Required(Decimal, 10, 2)
            q = po.Required(int)
            code = po.Required(str, unique=True)        # secondary unique key  ('R<id>')
            kb = po.Required(int)                        # composite key (kb, kc) = (7, id)
            kc = po.Required(int)
            po.composite_key(kb, kc)
            kids = po.Set('K')
            tags = po.Set('T')

        class K(db.Entity):
            id = po.PrimaryKey(int)
            parent = po.Optional(R)
            w = po.Required(int)

        class T(db.Entity):
            id = po.PrimaryKey(int)
            rows = po.Set(R)

        db.bind('sqlite', path, create_db=create, timeout=self.timeout, factory=self.factory)
        db.generate_mapping(create_tables=create, check_tables=False)
        return types.SimpleNamespace(db=db, R=R, K=K, T=T)

    # -- per schedule ----------------------------------------------------------
    def reset(self):
        if self._raw is not None:
            self._raw.close(); self._raw = None
        for suffix in ('-journal', '-wal', '-shm'):
            try: os.unlink(self.path + suffix)
            except OSError: pass
        shutil.copyfile(self.template, self.path)
        self.rec.clear()

    def fresh_database(self):
        """New Database object + entity classes on the same file (after an aborted schedule)."""
        self.E = self._make(self.path)
        self.E.db.disconnect()

    @staticmethod
    def pyvals(vals):
        from decimal import Decimal
        return {a: (Decimal(repr(v)) if a == 'd' else v) for a, v in vals.items()}

    def txn_open(self, tag):
        """From the recorder log: the session's last transaction-control event is a BEGIN that returned."""
        for e in reversed(self.rec.events):
            if e['tag'] != tag: continue
            if e['kind'] in ('commit', 'rollback'): return False
            if e['kind'] == 'execute' and e['sql']:
                head = e['sql'].lstrip()[:8].upper()
                if head.startswith('BEGIN'): return e['phase'] == 'ret'
                if head.startswith(('COMMIT', 'ROLLBACK')): return False
        return False

    def raw(self):
        if self._raw is None:
            self._raw = sqlite3.connect(self.path, timeout=0, isolation_level=None, check_same_thread=False)
        return self._raw

    def committed_state(self):
        """Committed content through an independent raw connection (a writer holding RESERVED does not block it)."""
        con = self.raw()
        try:
            rows = {r[0]: dict(zip(R_ATTRS, r[1:])) for r in con.execute('select id, %s from R' % ', '.join(R_ATTRS))}
            kids = {r[0]: (r[1], r[2]) for r in con.execute('select id, parent, w from K')}
            links = {tuple(r) for r in con.execute('select r, t from R_T')}
        except sqlite3.OperationalError as e:
            return {'error': str(e)}
        return {'R': rows, 'K': kids, 'L': links}

    def final_state(self):
        con = sqlite3.connect(self.path)
        try:
            rows = {r[0]: dict(zip(R_ATTRS, r[1:])) for r in con.execute('select id, %s from R' % ', '.join(R_ATTRS))}
            kids = {r[0]: (r[1], r[2]) for r in con.execute('select id, parent, w from K')}
            links = {tuple(r) for r in con.execute('select r, t from R_T')}
        finally: con.close()
        return {'R': rows, 'K': kids, 'L': links}

    # -- DB-API hook: monitor first, then the scheduler ---------------------------
    def _hook(self, ev):
        m = self.monitor
        if m is not None: m(ev)
        self.hub.recorder_hook(ev)

    def close(self):
        self.hub.unwrap_sqlite_lock()
        if self._raw is not None: self._raw.close(); self._raw = None


def initial_state():
    return {'R': {i: dict(v) for i, v in INIT_R.items()}, 'K': dict(INIT_K), 'L': set(INIT_L)}


# ---------------------------------------------------------------------------------------------------------------
# reference interpreter (pure Python): what a session does when it runs alone on `state`
# ---------------------------------------------------------------------------------------------------------------

class RefError(Exception):
    pass


def ref_apply(state, ops, idempotent_delete=False):
    """Apply one session's ops serially; returns the new state (input not modified). RefError if the program
    cannot run on this state (touches a deleted object)."""
    R = {i: dict(v) for i, v in state['R'].items()}
    K = dict(state['K']); L = set(state['L'])
    def row(r):
        if r not in R: raise RefError('R[%s] missing' % r)
        return R[r]
    for op in ops:
        k = op[0]
        if k in ('read', 'find'): row(op[1])
        elif k == 'write': row(op[1])[op[2]] = op[3]
        elif k == 'inc': row(op[1])[op[2]] = row(op[1])[op[2]] + 1
        elif k == 'dec': row(op[1])[op[2]] = row(op[1])[op[2]] - 1
        elif k == 'copy': row(op[1])[op[2]] = conv(op[2], row(op[3])[op[4]]) + 1
        elif k in ('flush', 'requery', 'commit', 'rollback', 'objflush'): pass
        elif k in ('lock', 'load', 'coll', 'rawread', 'lift', 'preload'): row(op[1])
        elif k == 'newrow':
            if op[1] in R: raise RefError('R exists')
            R[op[1]] = dict(NEW_R)
        elif k == 'kattr':
            if op[1] not in K: raise RefError('K missing')
        elif k == 'delete':
            if idempotent_delete and op[1] not in R: continue
            row(op[1]); del R[op[1]]
            for kid, (p, w) in list(K.items()):
                if p == op[1]: K[kid] = (None, w)
            L = {(r, t) for (r, t) in L if r != op[1]}
        elif k == 'delkid':
            if op[1] not in K:
                if idempotent_delete: continue
                raise RefError('K missing')
            del K[op[1]]
        elif k == 'movekid':
            if op[1] not in K: raise RefError('K missing')
            if op[2] is not None: row(op[2])
            K[op[1]] = (op[2], K[op[1]][1])
        elif k == 'newkid':
            if op[1] in K: raise RefError('K exists')
            row(op[2]); K[op[1]] = (op[2], 0)
        elif k == 'setw':
            if op[1] not in K: raise RefError('K missing')
            K[op[1]] = (K[op[1]][0], op[2])
        elif k == 'addtag': row(op[1]); L.add((op[1], op[2]))
        elif k == 'rmtag': row(op[1]); L.discard((op[1], op[2]))
        else: raise ValueError(op)
    return {'R': R, 'K': K, 'L': L}


def serial_results(sessions, state=None):
    """{order (tuple of names): final state} for every serial order of the given sessions that can run."""
    state = state or initial_state()
    out = {}
    for perm in itertools.permutations(sessions):
        st = state
        try:
            for s in perm: st = ref_apply(st, s['ops'])
        except RefError: continue
        out[tuple(s['name'] for s in perm)] = st
    return out


def segments(sess):
    """Split a session program at its ('commit',) / ('rollback',) ops:
    [(first op index, ops of the unit, how it ends: 'commit' | 'rollback' | 'exit', index of the ending op), ...]."""
    out = []; cur = []; start = 0
    for i, op in enumerate(sess['ops']):
        if op[0] in ('commit', 'rollback'):
            out.append((start, cur, op[0], i)); cur = []; start = i + 1
        else: cur.append(op)
    out.append((start, cur, 'exit', len(sess['ops'])))
    return out


def committed_units(sess, run):
    """Units of the session whose commit went through: units ended by a ('commit',) op the run got past, plus the
    last unit if the session itself committed.  Units ended by ('rollback',) contribute nothing."""
    out = []
    for j, (start, ops, end, idx) in enumerate(segments(sess)):
        if end == 'commit': ok = idx in run.commits_done
        elif end == 'exit': ok = run.outcome == 'committed'
        else: ok = False
        if ok: out.append({'name': '%s%d' % (sess['name'], j + 1), 'session': sess['name'], 'ops': ops})
    return out


def rows_by_unit(sess):
    """[set of R ids the unit's ops name] per unit (static)."""
    out = []
    for start, ops, end, idx in segments(sess):
        rows = set()
        for op in ops:
            if op[0] in ('read', 'write', 'inc', 'dec', 'find', 'lock', 'load', 'coll', 'rawread', 'lift', 'preload', 'newrow', 'delete', 'addtag', 'rmtag'):
                rows.add(op[1])
            elif op[0] == 'copy': rows.add(op[1]); rows.add(op[3])
            elif op[0] == 'requery': rows.update((1, 2))
        out.append(rows)
    return out


def serial_results_units(units_per_session, state=None):
    """{order: final state} over all interleavings of the committed units that keep each session's own order."""
    state = state or initial_state()
    seqs = [u for u in units_per_session if u]
    out = {}
    def rec(pos, st, order):
        if all(pos[i] == len(seqs[i]) for i in range(len(seqs))):
            out[tuple(order)] = st; return
        for i in range(len(seqs)):
            if pos[i] < len(seqs[i]):
                u = seqs[i][pos[i]]
                # a DELETE carries no optimistic criteria: deleting a row that another committed unit has already
                # deleted affects no row and raises nothing, so in the serial model it is a no-op, not an impossibility
                try: st2 = ref_apply(st, u['ops'], idempotent_delete=True)
                except RefError: continue
                pos[i] += 1; order.append(u['name'])
                rec(pos, st2, order)
                order.pop(); pos[i] -= 1
    rec([0] * len(seqs), state, [])
    return out


def states_equal(a, b, attrs=None):
    if attrs is None: return a == b
    if set(a['R']) != set(b['R']) or a['K'] != b['K'] or a['L'] != b['L']: return False
    return all(all(a['R'][i][x] == b['R'][i][x] for x in attrs) for i in a['R'])


def touches_exempt(sess):
    """Session reads or writes an attribute the property excludes from optimistic checks, or locks objects."""
    for op in sess['ops']:
        if op[0] in ('read', 'write', 'inc', 'dec', 'rawread', 'find') and op[2] in EXEMPT_ATTRS: return True
        if op[0] == 'copy' and (op[2] in EXEMPT_ATTRS or op[4] in EXEMPT_ATTRS): return True
        if op[0] == 'lock': return True
    return False


def cross_object_flow(sess):
    """A value read from one object flows into a write of ANOTHER object.  Pony's optimistic check (and property
    C20) is per object: an object that is only read is never re-checked, so such programs are not serialisable by
    design (write skew across objects) and the serial-equivalence oracle does not apply to them."""
    return any(op[0] == 'copy' and op[1] != op[3] for op in sess['ops'])


# ---------------------------------------------------------------------------------------------------------------
# executor
# ---------------------------------------------------------------------------------------------------------------

class SessionRun(object):
    """What one session did and saw in one schedule."""
    def __init__(self, sess):
        self.sess = sess
        self.name = sess['name']
        self.outcome = None          # 'committed' | 'raised'
        self.exc = None              # (class name, message, step index or 'exit')
        self.exc_obj = None
        self.obs = []                # (step, key, ('val', v) | ('exc', cls))
        self.steps_done = 0
        self.step = 0                # step being executed (int) or 'exit' (the commit at session end)
        self.refs = {}               # ('R'|'K', id) -> object reference kept by the program (for objflush after delete)
        self.commits_done = []       # step indexes of ('commit',) ops that returned
        self.locked = set()          # rows obtained with a for_update variant (object actually returned); cleared by commit
        self.lock_results = []       # (step, r, how, 'obj'|'none'|exc class)
        self.unit = 0                # index of the running unit (transaction); +1 at every commit / rollback op
        self.unit_ends = {}          # unit -> (recorder seq, committed state) taken just before its commit()/rollback()
        self.rollbacks_done = []
        self.first_touch = {}        # r -> unit in which the program first named R[r]
        self.lock_marks = {}         # (unit, r) -> (recorder seq, committed row) right after the locking call returned
        self.read_marks = {}         # (unit, r) -> (recorder seq, committed row) right after the unit's first read of R[r]
        self.pre_exit = None         # (recorder seq, committed state) inside the session, just before it ends
        self.end_mark = None         # recorder seq after the session ended

    def first_reads(self):
        """{(r, a): first value observed} for R attributes."""
        d = {}
        for step, key, res in self.obs:
            if key[0] == 'R' and len(key) == 3 and key[2] in R_ATTRS and res[0] == 'val': d.setdefault((key[1], key[2]), res[1])
        return d


def _pkset(objs):
    return sorted(o._pkval_ for o in objs)


def exec_op(model, run, step, op):
    po, E = model.po, model.E
    R, K, T = E.R, E.K, E.T
    k = op[0]

    def observe(key, thunk):
        try: v = thunk()
        except Exception as e:
            run.obs.append((step, key, ('exc', type(e).__name__))); raise
        v = plain(v)
        run.obs.append((step, key, ('val', v)))
        return v

    def mark_read(r):
        if model.track_marks and (run.unit, r) not in run.read_marks:
            run.read_marks[(run.unit, r)] = (model.rec.mark(), model.committed_state().get('R', {}).get(r))

    if k in ('read', 'write', 'inc', 'dec', 'find', 'lock', 'load', 'coll', 'rawread', 'lift', 'preload', 'newrow', 'delete'):
        run.first_touch.setdefault(op[1], run.unit)
    elif k == 'copy':
        run.first_touch.setdefault(op[1], run.unit); run.first_touch.setdefault(op[3], run.unit)
    elif k == 'requery':
        run.first_touch.setdefault(1, run.unit); run.first_touch.setdefault(2, run.unit)

    if k == 'read':
        v = observe(('R', op[1], op[2]), lambda: getattr(R[op[1]], op[2]))
        mark_read(op[1])
        return v
    if k == 'find':
        r, a = op[1], op[2]
        o = R.get(**{'id': r, a: Model.pyvals({a: INIT_R[r][a]})[a]})
        if o is not None:
            run.obs.append((step, ('R', r, a), ('val', INIT_R[r][a])))
            mark_read(r)
        else: run.obs.append((step, ('find', r, a), ('val', None)))
        return
    if k == 'write':
        setattr(R[op[1]], op[2], Model.pyvals({op[2]: op[3]})[op[2]]); return
    if k in ('inc', 'dec'):
        o = R[op[1]]
        v = observe(('R', op[1], op[2]), lambda: getattr(o, op[2]))
        mark_read(op[1])
        setattr(o, op[2], Model.pyvals({op[2]: v + (1 if k == 'inc' else -1)})[op[2]]); return
    if k == 'copy':
        v = observe(('R', op[3], op[4]), lambda: getattr(R[op[3]], op[4]))
        mark_read(op[3])
        setattr(R[op[1]], op[2], Model.pyvals({op[2]: conv(op[2], v) + 1})[op[2]]); return
    if k == 'flush':
        po.flush(); return
    if k in ('commit', 'rollback'):
        if model.track_marks: run.unit_ends[run.unit] = (model.rec.mark(), model.committed_state())
        try:
            if k == 'commit': po.commit(); run.commits_done.append(step)
            else: po.rollback(); run.rollbacks_done.append(step)
        finally:
            run.unit += 1
            run.locked.clear()       # the lock ended with the transaction
            run.refs.clear()
        return
    if k == 'preload':
        r, how = op[1], op[2]
        if how == 'pk': R[r]
        elif how == 'code': R.get(code='R%d' % r)
        elif how == 'ckey': R.get(kb=7, kc=r)
        elif how == 'query': po.select(o for o in R if o.x > 0)[:]
        elif how == 'get_id': R.get(id=r)
        else: raise ValueError(how)
        return
    if k == 'newrow':
        R(id=op[1], code='R%d' % op[1], kb=7, kc=op[1], **Model.pyvals(NEW_R)); return
    if k == 'objflush':
        o = run.refs.get((op[1], op[2]))                 # a deleted object cannot be looked up again: use the reference
        if o is None: o = (R if op[1] == 'R' else K)[op[2]]
        o.flush(); return
    if k == 'lift':
        r, c, a = op[1], op[2], op[3]
        return observe(('R', r, c, 'lift:' + a), lambda: sorted(getattr(getattr(R[r], c), a)))
    if k == 'lock':
        r, how = op[1], op[2]
        try:
            if how == 'get_for_update': o = R.get_for_update(id=r)
            elif how == 'nowait': o = R.get_for_update(id=r, nowait=True)
            elif how == 'skip_locked': o = R.get_for_update(id=r, skip_locked=True)
            elif how == 'query_for_update': o = (po.select(o for o in R if o.id == r).for_update()[:] or [None])[0]
            elif how == 'query_nowait': o = (po.select(o for o in R if o.id == r).for_update(nowait=True)[:] or [None])[0]
            elif how == 'query_skip': o = (po.select(o for o in R if o.id == r).for_update(skip_locked=True)[:] or [None])[0]
            elif how == 'select_kw': o = (R.select(id=r).for_update()[:] or [None])[0]
            elif how == 'by_code': o = R.get_for_update(code='R%d' % r)
            elif how == 'by_code_nowait': o = R.get_for_update(code='R%d' % r, nowait=True)
            elif how == 'by_ckey': o = R.get_for_update(kb=7, kc=r)
            elif how == 'by_ckey_skip': o = R.get_for_update(kb=7, kc=r, skip_locked=True)
            else: raise ValueError(how)
        except Exception as e:
            run.lock_results.append((step, r, how, type(e).__name__)); raise
        # DB-API boundary: is a transaction of this session open at the moment the locking call returns?
        run.lock_results.append((step, r, how, 'obj' if o is not None else 'none', model.txn_open(run.name), run.unit))
        if o is not None:
            run.locked.add(r)
            if model.track_marks and (run.unit, r) not in run.lock_marks:
                run.lock_marks[(run.unit, r)] = (model.rec.mark(), model.committed_state().get('R', {}).get(r))
        return
    if k == 'load':
        R[op[1]].load(); return
    if k == 'requery':
        how = op[1]
        if how == 'select_all': po.select(o for o in R)[:]
        elif how == 'select_r1': po.select(o for o in R if o.id == 1)[:]
        elif how == 'select_r2': po.select(o for o in R if o.id == 2)[:]
        elif how == 'get_x': R.get(x=INIT_R[1]['x'])
        elif how == 'kids_all': po.select(c for c in K)[:]
        elif how == 'by_sql': R.select_by_sql('select * from R')
        elif how == 'tags_all': po.select(t for t in T)[:]
        elif how == 'prefetch_kids': po.select(o for o in R).prefetch(R.kids)[:]
        else: raise ValueError(how)
        return
    if k == 'coll':
        r, c, how = op[1], op[2], op[3]
        o = R[r]
        coll = getattr(o, c)
        if how in ITEM_KINDS:
            thunk = {'iter': lambda: _pkset(coll), 'sorted': lambda: _pkset(sorted(coll, key=lambda o: o._pkval_)),
                     'list': lambda: _pkset(list(coll)), 'copy': lambda: _pkset(coll.copy())}[how]
            v = observe(('R', r, c, 'items'), thunk)
            if c == 'kids':          # seeing the members of a one-to-many collection is a read of member.parent
                for kid in v: run.obs.append((step, ('K', kid, 'parent'), ('val', r), 'implied'))
            return v
        if how == 'len': return observe(('R', r, c, 'len'), lambda: len(coll))
        if how == 'bool': return observe(('R', r, c, 'bool'), lambda: bool(coll))
        if how == 'load': coll.load(); return
        if how.startswith('in:'):
            item = (K if c == 'kids' else T)[int(how[3:])]
            v = observe(('R', r, c, 'in', int(how[3:])), lambda: item in coll)
            if c == 'kids' and v: run.obs.append((step, ('K', int(how[3:]), 'parent'), ('val', r), 'implied'))
            return v
        if how == 'count': return observe(('R', r, c, 'count'), lambda: coll.count())
        if how == 'is_empty': return observe(('R', r, c, 'is_empty'), lambda: coll.is_empty())
        raise ValueError(how)
    if k == 'kattr':
        kid, a = op[1], op[2]
        if a == 'parent':
            return observe(('K', kid, 'parent'), lambda: (lambda p: p._pkval_ if p is not None else None)(K[kid].parent))
        return observe(('K', kid, a), lambda: getattr(K[kid], a))
    if k == 'delete':
        o = run.refs[('R', op[1])] = R[op[1]]; o.delete(); return
    if k == 'delkid':
        o = run.refs[('K', op[1])] = K[op[1]]; o.delete(); return
    if k == 'movekid':
        K[op[1]].parent = R[op[2]] if op[2] is not None else None; return
    if k == 'newkid':
        K(id=op[1], parent=R[op[2]], w=0); return
    if k == 'setw':
        K[op[1]].w = op[2]; return
    if k == 'addtag':
        R[op[1]].tags.add(T[op[2]]); return
    if k == 'rmtag':
        R[op[1]].tags.remove(T[op[2]]); return
    if k == 'rawread':
        r, a = op[1], op[2]
        return observe(('raw', r, a), lambda: E.db.get('select %s from R where id = $r' % a))
    raise ValueError(op)


def make_worker(model, run):
    sess = run.sess
    sched = model.sched

    def body(w):
        model.rec.tag(run.name)
        opts = dict(sess.get('opts') or {})
        step = 0
        try:
            with model.po.db_session(**opts):
                try:
                    for i, op in enumerate(sess['ops']):
                        if i: w.op_yield()
                        step = run.step = i
                        exec_op(model, run, i, op)
                        run.steps_done = i + 1
                    w.op_yield()
                    step = run.step = 'exit'
                finally:
                    if model.track_marks and not w.sched.aborted:
                        run.pre_exit = (model.rec.mark(), model.committed_state())
            run.outcome = 'committed'
        except sched.ScheduleAbort:
            run.outcome = 'aborted'; raise
        except Exception as e:
            run.outcome = 'raised'
            run.exc = (type(e).__name__, str(e)[:300], step)
            run.exc_obj = e
        finally:
            run.end_mark = model.rec.mark()
        return run.outcome
    return body


class ScheduleResult(object):
    pass


def n_steps(sess):
    return len(sess['ops']) + 1


def run_schedule(model, sessions, chooser, levels=('op', 'lock'), watchdog=30.0, watch_writes=True):
    """Run the sessions (dicts: name, ops, opts) concurrently under `chooser`. Returns ScheduleResult."""
    model.reset()
    runs = [SessionRun(s) for s in sessions]
    by_tag = {r.name: r for r in runs}
    writes = []                      # monitor records: dict(tag, seq, verb, table, sql, args, before)

    def monitor(ev):
        if ev['kind'] not in ('execute', 'executemany') or not ev['sql']: return
        sql = ev['sql'].lstrip()
        verb = sql[:6].upper()
        if verb in ('UPDATE', 'DELETE', 'INSERT'):
            rec = {'tag': ev['tag'], 'seq': ev['seq'], 'verb': verb, 'sql': sql, 'args': ev['args'],
                   'step': getattr(by_tag.get(ev['tag']), 'step', None),
                   'locked': sorted(getattr(by_tag.get(ev['tag']), 'locked', ())), 'before': model.committed_state()}
            writes.append(rec)
    model.monitor = monitor if watch_writes else None
    try:
        s = model.hub.run([(r.name, make_worker(model, r)) for r in runs], chooser, levels=levels, watchdog=watchdog)
    finally:
        model.monitor = None
    res = ScheduleResult()
    res.sched = s
    res.status = s.status
    res.runs = {r.name: r for r in runs}
    res.order = [r.name for r in runs]
    res.writes = writes
    res.events = list(model.rec.events)
    if model._raw is not None:
        model._raw.close(); model._raw = None
    res.final = model.final_state() if s.status == 'ok' and not s.leaked else None
    for w in s.workers:
        if w.exc is not None and res.runs[w.name].outcome is None:
            res.runs[w.name].outcome = 'crashed'
            res.runs[w.name].exc = (type(w.exc).__name__, str(w.exc)[:300], 'harness')
    if s.status != 'ok' or s.leaked:
        model.fresh_database()       # do not reuse provider locks / caches of an aborted schedule
    return res


def parse_update(sql, args):
    """For pony's UPDATE "R" SET "a" = ?, ... WHERE "id" = ? [AND "b" = ? ...]:
    returns (table, set_columns, pk_value, where_columns) or None."""
    import re
    m = re.match(r'UPDATE\s+"(\w+)"\s+SET\s+(.*?)\s+WHERE\s+(.*)$', sql, re.S)
    if not m or not isinstance(args, (list, tuple)): return None
    table, sets, where = m.group(1), m.group(2), m.group(3)
    set_cols = re.findall(r'"(\w+)"\s*=\s*\?', sets)
    where_cols = re.findall(r'"(\w+)"\s*(?:=\s*\?|IS NULL)', where)
    if len(args) <= len(set_cols) or not where_cols: return None
    return table, set_cols, args[len(set_cols)], where_cols

"""E1 -- query differential engine: run the REAL pony query pipeline on generated
query programs and judge the rows against a reference interpreter over mirror
objects.  Used by C01, C24 (built here) and reusable by C02, C05, C25, C27, C29.

Nothing here imports pony at module level; call common.setup_path() first.

API (stable; everything else is internal)
-----------------------------------------
Schemas / data
    SCHEMAS['S1']                      fixed declarative schema (Dept/Person/Passport/Tag/Item<-Gadget,Book)
    gen_data(schema, rng, neutral=False, flavor=None) -> data      jsonable {'Entity': [row dicts]}
    get_env(schema_name) -> Env        one pony Database per schema per process (sqlite :memory:)
    env.load(data)                     drop+create tables, insert `data`, build the mirror
    env.mirror                         Mirror: .objs[entity] -> list of mirror objects (subclass instances included)
    env.ns                             exec namespace: entities, select/count/..., Decimal/date/timedelta

Programs
    Program(src, params, form, chain, lam, prods, schema)      src = generator-expression TEXT
        form  'gen' (generator object, decompiler path) | 'lam' (Entity.select(lambda)) | 'str' (query string + globals/locals)
        chain list of method steps applied to the query (see CHAIN STEPS below); [] means q[:]
        .to_json() / Program.from_json()
    ProgramGen(schema, rng, max_depth=4, neutral_domain=False, features=None)
        .program() -> Program          random program from the typed grammar (productions recorded in .prods)
        .enumerate_small(...)          bounded-exhaustive enumeration (<= 2 operator nodes, reduced leaf set)
    forms_of(program) -> [Program...]  the same program in every front-end form it can be written in
    lift_params(program, rng)          (done by ProgramGen) constants optionally lifted to outer-scope parameters

Execution / oracle
    run_program(env, program) -> Result        Result.kind 'rows'|'scalar'|'raised'; .rows/.value/.exc/.exc_msg/.sql
    reference(program, env.mirror, dev=()) -> RefResult | NoReference | Unsupported
    compare(result, ref) -> ('agree'|'disagree'|'no_reference'|'lenient_agree', detail)
    judge(env, program, dev_rules=DEVIATIONS) -> Verdict   run + reference + compare + deviation-rule pass
        Verdict.outcome in agree | pony_raised | db_error | no_reference | unsupported | known | disagree
        Verdict.findings  list of finding ids when outcome == 'known'
    shrink(env, program, data, still_bad, budget=60) -> (program, data)   greedy witness reduction
    DEVIATIONS: {switch: finding id}  deviation rules = known findings (DESIGN.md section 5): the reference is re-evaluated
                with the switches of the deviation SITES it met (singly, all together, pairs/triples; sites hidden behind
                another deviation surface in later rounds); KNOWN only if pony's answer is reproduced exactly
    SHAPE_RULES: {shape: finding id}  mechanisms whose deviant answer depends on the backend's arbitrary row choice or
                on alias allocation: recognised by a narrow static predicate on the query text (scan_shapes)
    Interp(mirror, params, dev)       the expression interpreter itself (.cond/.ev/.stype/.optref_drop) -- C24 uses it to
                evaluate filter()/where() predicates on result elements
    lint_program(src), has_ifexp(program)   drafts that belong to other properties (C03 decompiler shapes, C04 ast2src)
    ProgramGen(..., neutral_domain=True)    no division/pow, dates, Decimals, floats, non-ASCII text (for C02)
    ProgramGen(..., exclude={'div', 'strip0', 'slice', 'ifexp', 'fstring', 'group_concat', ...})   feature switches

Reference semantics (the model; DESIGN.md 2.1)
    * Python semantics for operators; None propagates through operators inside conditions (SQL NULL);
      comparisons involving None are UNKNOWN; `not UNKNOWN` is UNKNOWN; rows whose condition is not TRUE are dropped.
    * Ambiguous readings are bracketed: truth tests and LIKE-family predicates on a missing value are UNKNOWN under
      reading A and FALSE under reading B; rows on which the readings differ are free (may appear or not).
    * Where Python itself would raise (attribute of a None reference, x/0, s[i] out of range, a derived None/UNKNOWN
      reaching the projection) the row is `flagged`: it is free, and surplus rows are then `no_reference`, never a violation.
    * Rows are compared as SETS unless the bag is unambiguous (entity results; without_distinct(); distinct()).
    * Aggregates: count(x) = number of distinct non-None values (count(entity) = distinct entities, count() = rows),
      sum/avg/group_concat over the bag ignoring None, sum of nothing = 0, min/max/avg/group_concat of nothing = None.
    * floats 1e-9 relative tolerance; bool == int; Decimal compared numerically.
"""
import ast, sys, json, math, itertools, random, re, traceback, copy
from collections import Counter, OrderedDict
from decimal import Decimal
from datetime import date, timedelta

# ----------------------------------------------------------------------------------------------------------------
# 1. value codec (witnesses must be jsonable and replayable)
# ----------------------------------------------------------------------------------------------------------------

def enc(v):
    if v is None or isinstance(v, (bool, int, str)): return v
    if isinstance(v, float): return v if v == v and abs(v) != float('inf') else {'$float': repr(v)}
    if isinstance(v, Decimal): return {'$dec': str(v)}
    if isinstance(v, date): return {'$date': v.isoformat()}
    if isinstance(v, timedelta): return {'$td': v.total_seconds()}
    if isinstance(v, tuple): return {'$tuple': [enc(i) for i in v]}
    if isinstance(v, (list, set, frozenset)): return [enc(i) for i in v]
    if isinstance(v, dict): return {k: enc(x) for k, x in v.items()}
    return {'$repr': repr(v)}


def dec(v):
    if isinstance(v, list): return [dec(i) for i in v]
    if isinstance(v, dict):
        if '$dec' in v: return Decimal(v['$dec'])
        if '$date' in v: return date.fromisoformat(v['$date'])
        if '$td' in v: return timedelta(seconds=v['$td'])
        if '$tuple' in v: return tuple(dec(i) for i in v['$tuple'])
        if '$float' in v: return float(v['$float'])
        if '$repr' in v: return v['$repr']
        return {k: dec(x) for k, x in v.items()}
    return v


def lit(v):
    """Python source text of a constant (always atomic: negative numbers are parenthesised)."""
    if v is None or isinstance(v, bool): return repr(v)
    if isinstance(v, int): return repr(v) if v >= 0 else '(%r)' % v
    if isinstance(v, float): return repr(v) if v >= 0 and not (v == 0 and math.copysign(1, v) < 0) else '(%r)' % v
    if isinstance(v, str): return repr(v)
    if isinstance(v, Decimal): return "Decimal('%s')" % v
    if isinstance(v, date): return 'date(%d, %d, %d)' % (v.year, v.month, v.day)
    if isinstance(v, timedelta): return 'timedelta(days=%d)' % v.days
    if isinstance(v, (list, tuple)):
        inner = ', '.join(lit(i) for i in v)
        if isinstance(v, tuple): return '(%s%s)' % (inner, ',' if len(v) == 1 else '')
        return '[%s]' % inner
    raise TypeError(v)


# ----------------------------------------------------------------------------------------------------------------
# 2. declarative schemas
# ----------------------------------------------------------------------------------------------------------------
SCALARS = ('int', 'str', 'float', 'bool', 'date', 'dec')


class Attr(object):
    def __init__(self, name, kind, typ, **opts):
        self.name, self.kind, self.typ, self.opts = name, kind, typ, opts   # kind: pk | req | opt | set
        self.entity = None
    @property
    def is_scalar(self): return self.typ in SCALARS
    @property
    def is_ref(self): return self.typ not in SCALARS and self.kind != 'set'
    @property
    def is_set(self): return self.kind == 'set'
    @property
    def nullable(self):
        if self.kind in ('pk', 'req', 'set'): return False
        if self.typ == 'str': return bool(self.opts.get('nullable'))
        return True
    def pony_decl(self):
        ctor = {'pk': 'PrimaryKey', 'req': 'Required', 'opt': 'Optional', 'set': 'Set'}[self.kind]
        if self.typ in SCALARS:
            t = {'int': 'int', 'str': 'str', 'float': 'float', 'bool': 'bool', 'date': 'date', 'dec': 'Decimal'}[self.typ]
            args = [t]
            if self.typ == 'dec': args += ['12', '2']
            if self.kind == 'pk' and self.typ == 'int': args.append('auto=True')
            if self.typ == 'str':
                args.append('autostrip=False')
                if self.opts.get('nullable'): args.append('nullable=True')
        else:
            args = [repr(self.typ)]
            if self.opts.get('reverse'): args.append('reverse=%r' % self.opts['reverse'])
        return '%s = %s(%s)' % (self.name, ctor, ', '.join(args))


class Hybrid(object):
    """A hybrid property/method: declared with the same body on the entity and evaluated by the reference."""
    def __init__(self, name, kind, args, body, rtype, feats=()):
        self.name, self.kind, self.args, self.body, self.rtype, self.feats = name, kind, args, body, rtype, set(feats)
        self.tree = ast.parse(body, mode='eval').body
    def pony_decl(self):
        sig = ', '.join(['self'] + ['%s=%s' % (a, d) if d is not None else a for a, d in self.args])
        s = 'def %s(%s): return %s' % (self.name, sig, self.body)
        return ('@property\n    ' + s) if self.kind == 'property' else s


class Ent(object):
    def __init__(self, name, base, attrs, hybrids=(), pk=None):
        self.name, self.base = name, base
        self.pk = list(pk) if pk else None           # composite primary key: names of the key attributes
        self.own_attrs = [Attr(*a[:3], **(a[3] if len(a) > 3 else {})) for a in attrs]
        self.hybrids = OrderedDict((h.name, h) for h in hybrids)
        for a in self.own_attrs: a.entity = name


class Schema(object):
    def __init__(self, name, ents, sizes):
        self.name = name
        self.ents = OrderedDict((e.name, e) for e in ents)
        self.sizes = sizes                       # root entity -> (min rows, max rows)
        for e in ents:
            e.root = e.name if e.base is None else self.ents[e.base].root
            e.attrs = OrderedDict()
            if e.base: e.attrs.update(self.ents[e.base].attrs)
            for a in e.own_attrs: e.attrs[a.name] = a
            e.all_hybrids = OrderedDict()
            if e.base: e.all_hybrids.update(self.ents[e.base].all_hybrids)
            e.all_hybrids.update(e.hybrids)
        for e in ents:
            e.subclasses = [s.name for s in ents if s is not e and self.is_sub(s.name, e.name)]
        # reverse links
        for e in ents:
            for a in e.own_attrs:
                if a.is_scalar: continue
                a.reverse = self._find_reverse(e, a)
    def is_sub(self, sub, base):
        while sub is not None:
            if sub == base: return True
            sub = self.ents[sub].base
        return False
    def _find_reverse(self, e, a):
        target = self.ents[a.typ]
        if a.opts.get('reverse'): return target.attrs[a.opts['reverse']]
        cands = [b for b in target.own_attrs if not b.is_scalar and self.is_sub(e.name, b.typ) and b is not a
                 and (not b.opts.get('reverse') or b.opts['reverse'] == a.name)]
        assert len(cands) == 1, (e.name, a.name, [c.name for c in cands])
        return cands[0]
    def pk(self, ename):
        """Names of the primary key attributes of an entity (['id'] unless the root declares a composite key)."""
        return self.ents[self.ents[ename].root].pk or ['id']
    def pk_composite(self, ename):
        return bool(self.ents[self.ents[ename].root].pk)
    def roots(self):
        return [e for e in self.ents.values() if e.base is None]
    def pony_source(self):
        out = []
        for e in self.ents.values():
            out.append('class %s(%s):' % (e.name, e.base or 'db.Entity'))
            body = [a.pony_decl() for a in e.own_attrs] + [h.pony_decl() for h in e.hybrids.values()]
            if e.pk: body.append('PrimaryKey(%s)' % ', '.join(e.pk))
            out.extend('    ' + b for b in (body or ['pass']))
        return '\n'.join(out)


S1 = Schema('S1', [
    Ent('Dept', None, [
        ('id', 'pk', 'int'), ('name', 'req', 'str'), ('code', 'opt', 'str'), ('budget', 'opt', 'int'),
        ('rating', 'opt', 'float'), ('opened', 'opt', 'date'), ('persons', 'set', 'Person'), ('courses', 'set', 'Course')],
        hybrids=[Hybrid('title', 'property', [], "self.name.upper()", 'str'),
                 Hybrid('rich', 'method', [('limit', '5')], "self.budget is not None and self.budget > limit", 'bool')]),
    Ent('Person', None, [
        ('id', 'pk', 'int'), ('name', 'req', 'str'), ('nick', 'opt', 'str', {'nullable': True}),
        ('age', 'req', 'int'), ('score', 'opt', 'int'), ('ratio', 'req', 'float'), ('height', 'opt', 'float'),
        ('active', 'req', 'bool'), ('flag', 'opt', 'bool'), ('born', 'opt', 'date'), ('since', 'req', 'date'),
        ('salary', 'opt', 'dec'), ('fee', 'req', 'dec'),
        ('dept', 'req', 'Dept'), ('mentor', 'opt', 'Person', {'reverse': 'mentees'}),
        ('mentees', 'set', 'Person', {'reverse': 'mentor'}), ('tags', 'set', 'Tag'),
        ('passport', 'opt', 'Passport'), ('items', 'set', 'Item'), ('grades', 'set', 'Grade')],
        hybrids=[Hybrid('label', 'property', [], "self.name + '/' + self.dept.name", 'str'),
                 Hybrid('score0', 'property', [], "coalesce(self.score, 0)", 'int'),
                 Hybrid('older', 'method', [('n', None)], "self.age > n", 'bool'),
                 Hybrid('age_plus', 'method', [('n', '1')], "self.age + n", 'int'),
                 Hybrid('n_items', 'property', [], "count(self.items)", 'int'),
                 Hybrid('spend', 'property', [], "sum(i.price for i in self.items)", 'int'),
                 Hybrid('has_tags', 'property', [], "not self.tags.is_empty()", 'bool')]),
    Ent('Passport', None, [('id', 'pk', 'int'), ('code', 'req', 'str'), ('person', 'req', 'Person')]),
    Ent('Tag', None, [('id', 'pk', 'int'), ('label', 'req', 'str'), ('weight', 'opt', 'int'), ('persons', 'set', 'Person')]),
    Ent('Item', None, [('id', 'pk', 'int'), ('title', 'req', 'str'), ('price', 'req', 'int'), ('qty', 'opt', 'int'),
                       ('owner', 'opt', 'Person')],
        hybrids=[Hybrid('total', 'property', [], "self.price * coalesce(self.qty, 1)", 'int')]),
    Ent('Gadget', 'Item', [('volts', 'opt', 'int')]),
    Ent('Book', 'Item', [('pages', 'opt', 'int')]),
    Ent('Course', None, [('name', 'req', 'str'), ('semester', 'req', 'int'), ('credits', 'req', 'int'), ('room', 'opt', 'str', {'nullable': True}),
                         ('dept', 'opt', 'Dept')], pk=['name', 'semester']),
    Ent('Grade', None, [('person', 'req', 'Person'), ('subject', 'req', 'str'), ('mark', 'opt', 'int')], pk=['person', 'subject']),
], sizes={'Dept': (2, 3), 'Person': (5, 7), 'Passport': (2, 3), 'Tag': (3, 4), 'Item': (5, 7), 'Course': (4, 6), 'Grade': (4, 7)})

SCHEMAS = {'S1': S1}

# hostile value domains (shared by the data generator and the constant generator so filters hit)
DOMAINS = {
    'int': [0, 1, -1, 2, 3, 5, 7, -7, 10, 100, -100, 12, 1000],
    'float': [0.0, 0.5, -0.5, 1.5, 2.0, -2.0, 100.25, 0.25, 3.0, -1.5, 7.0],
    'bool': [True, False],
    'str': ['a', 'A', 'ab', 'Ab', 'abc', 'aBc', 'b', 'B', 'z', 'a%', '%', '_', 'a_c', 'abc%', '!', '!%_', "it's",
            'say "hi"', 'back\\slash', ' pad ', 'x  ', '  y', 'é', 'Éa', 'ß', 'ñandú', '日本', 'aé', 'abcabc', '100%', 'ab\tc', '\tq\n'],
    'date': [date(2000, 1, 1), date(2000, 1, 31), date(1999, 12, 31), date(2020, 2, 29), date(2024, 3, 1),
             date(1970, 1, 1), date(2038, 1, 19), date(2000, 2, 1)],
    'dec': [Decimal('0.00'), Decimal('0.01'), Decimal('1.50'), Decimal('-1.50'), Decimal('10.50'), Decimal('99.99'),
            Decimal('100.00'), Decimal('3.00'), Decimal('2.50')],
}
NEUTRAL_DOMAINS = dict(DOMAINS, **{
    'str': ['a', 'A', 'ab', 'Ab', 'abc', 'aBc', 'b', 'B', 'z', 'a%', '%', '_', 'a_c', 'abc%', '!', '!%_', "it's",
            'say "hi"', 'pad', 'xx', 'abcabc', '100%'],
    'int': [0, 1, -1, 2, 3, 5, 7, -7, 10, 100, -100, 12],
})


def gen_data(schema, rng, neutral=False, flavor=None):
    """Random data set over the hostile domains.  flavor: None (mixed) | 'dense' (no None) | 'sparse' (many None)."""
    dom = NEUTRAL_DOMAINS if neutral else DOMAINS
    flavor = flavor or rng.choice(['mixed', 'mixed', 'dense', 'sparse'])
    p_none = {'mixed': 0.25, 'dense': 0.0, 'sparse': 0.5}[flavor]
    data = OrderedDict()
    nrows = {r.name: rng.randint(*schema.sizes[r.name]) for r in schema.roots()}
    # restrict each data set to a sub-domain so duplicates are frequent
    sub = {t: rng.sample(vals, min(len(vals), rng.randint(3, 5))) for t, vals in dom.items()}
    if not neutral and rng.random() < 0.5: sub['str'].append(rng.choice(['', ]))
    for root in schema.roots():
        rows = []
        tree = [root.name] + root.subclasses
        keys = None
        if root.pk:
            # composite key: unique combinations over SMALL per-attribute pools, so every key part repeats across rows
            pools = []
            for k in root.pk:
                a = root.attrs[k]
                if a.is_scalar:
                    vals = [v for v in sub[a.typ] if not isinstance(v, str) or v.strip()] or [dom[a.typ][0]]
                    pools.append(vals[:3] if len(vals) >= 2 else (vals + [dom[a.typ][1]]))
                else: pools.append([t['id'] for t in data[schema.ents[a.typ].root]][:4])
            combos = list(itertools.product(*pools)); rng.shuffle(combos)
            keys = combos[:nrows[root.name]]
        for i in range(1, (len(keys) if keys is not None else nrows[root.name]) + 1):
            cls = rng.choice(tree) if len(tree) > 1 else root.name
            e = schema.ents[cls]
            row = OrderedDict(_cls=cls)
            if keys is not None:
                row['id'] = list(keys[i - 1])
                for k, v in zip(root.pk, keys[i - 1]): row[k] = v
            for a in e.attrs.values():
                if a.name in row: continue
                if a.kind == 'pk': row[a.name] = i
                elif a.is_scalar:
                    if a.kind == 'opt' and a.nullable and rng.random() < p_none: row[a.name] = None
                    elif a.kind == 'opt' and a.typ == 'str' and not a.nullable:
                        row[a.name] = rng.choice(sub['str'] + [''])
                    else:
                        vals = sub[a.typ]
                        if a.typ == 'str': vals = [v for v in vals if v.strip()] or ['a']
                        row[a.name] = rng.choice(vals)
            rows.append(row)
        data[root.name] = rows
    # relationships: stored on the side that owns the column (to-one side), m2m on the first declared side
    for root in schema.roots():
        for row in data[root.name]:
            e = schema.ents[row['_cls']]
            for a in e.attrs.values():
                if a.is_scalar or a.name in row: continue
                target_rows = data[schema.ents[a.typ].root]
                rev = a.reverse
                if a.is_ref:
                    if rev.is_ref and a.kind == 'opt' and rev.kind == 'req': continue   # 1-1: column lives on the other side
                    if rev.is_ref:                                                    # 1-1 owning side: unique targets
                        used = {r.get(a.name) for r in data[root.name]}
                        free = [t['id'] for t in target_rows if t['id'] not in used]
                        if a.kind == 'req':
                            assert free, 'not enough targets for 1-1 %s.%s' % (e.name, a.name)
                            row[a.name] = rng.choice(free)
                        else: row[a.name] = rng.choice(free) if free and rng.random() > p_none else None
                    else:
                        cands = [t['id'] for t in target_rows if not (a.typ == schema.ents[row['_cls']].root and t['id'] >= row['id'])]
                        if a.kind == 'req': row[a.name] = rng.choice(cands)
                        else: row[a.name] = rng.choice(cands) if cands and rng.random() > max(p_none, 0.2) else None
                elif a.is_set and rev.is_set:
                    if list(schema.ents).index(e.root) < list(schema.ents).index(schema.ents[a.typ].root) or e.root == a.typ:
                        k = rng.choice([0, 0, 1, 2, 2, 3])
                        row[a.name] = sorted(rng.sample([t['id'] for t in target_rows], min(k, len(target_rows))))
    return json.loads(json.dumps(enc(data)))     # canonical jsonable form


# ----------------------------------------------------------------------------------------------------------------
# 3. mirror objects + pony environment
# ----------------------------------------------------------------------------------------------------------------
def row_key(row):
    """Primary key value of a data row: the `id` field (a list for composite keys -> tuple)."""
    k = row['id']
    return tuple(k) if isinstance(k, list) else k


class MObj(object):
    """Plain python mirror of one entity instance (.id is always the primary key VALUE, a tuple for composite keys)."""
    _ent = None; _root = None
    def __repr__(self): return '%s[%r]' % (self._ent, self.id)


class Mirror(object):
    def __init__(self, schema, data):
        self.schema = schema
        data = dec(data)
        self.classes = {}
        for e in schema.ents.values():
            base = self.classes[e.base] if e.base else MObj
            self.classes[e.name] = type(e.name, (base,), {'_ent': e.name, '_root': e.root})
        self.objs = {e: [] for e in schema.ents}
        self.by_pk = {}
        for root, rows in data.items():
            for row in rows:
                o = self.classes[row['_cls']]()
                e = schema.ents[row['_cls']]
                for a in e.attrs.values():
                    setattr(o, a.name, set() if a.is_set else (row.get(a.name) if a.is_scalar else None))
                o.id = row_key(row)
                self.by_pk[root, row_key(row)] = o
                for en in schema.ents:
                    if schema.is_sub(row['_cls'], en): self.objs[en].append(o)
        for root, rows in data.items():
            for row in rows:
                o = self.by_pk[root, row_key(row)]
                e = schema.ents[row['_cls']]
                for a in e.attrs.values():
                    if a.is_scalar or a.name not in row or row[a.name] is None: continue
                    troot = schema.ents[a.typ].root
                    if a.is_ref:
                        t = self.by_pk[troot, row[a.name]]
                        setattr(o, a.name, t)
                        if a.reverse.is_set: getattr(t, a.reverse.name).add(o)
                        else: setattr(t, a.reverse.name, o)
                    else:
                        for pk in row[a.name]:
                            t = self.by_pk[troot, pk]
                            getattr(o, a.name).add(t)
                            getattr(t, a.reverse.name).add(o)


class Env(object):
    """One pony Database (sqlite, in memory) for a schema; data sets are swapped in with load()."""
    def __init__(self, schema):
        import pony.orm as orm
        self.schema = schema
        self.orm = orm
        self.db = db = orm.Database()
        ns = {'db': db, 'Decimal': Decimal, 'date': date, 'timedelta': timedelta}
        for n in ('PrimaryKey', 'Required', 'Optional', 'Set', 'select', 'count', 'sum', 'min', 'max', 'avg',
                  'group_concat', 'distinct', 'exists', 'coalesce', 'concat', 'between', 'desc', 'JOIN', 'raw_sql',
                  'db_session', 'left_join', 'delete', 'get'):
            ns[n] = getattr(orm, n)
        exec(compile(schema.pony_source(), '<qdiff schema %s>' % schema.name, 'exec'), ns)
        ns['_G'] = ns
        from pony.orm import core as _core
        def _N(v):
            """normalise a value observed on a result object (entities -> keys, results/lists -> lists)"""
            if isinstance(v, (_core.QueryResult, list)): return [_N(i) for i in v]
            if isinstance(v, _core.Entity): return norm_pony(v, _core.Entity)
            if isinstance(v, tuple): return tuple(_N(i) for i in v)
            return v
        ns['_N'] = _N
        self.ns = ns
        db.bind('sqlite', ':memory:')
        db.generate_mapping(create_tables=True)
        self.mirror = None
        self.data = None
        self.data_id = None
        self._fn_cache = {}
    def entity(self, name): return self.ns[name]
    def load(self, data, data_id=None):
        orm, db, schema = self.orm, self.db, self.schema
        self.data, self.data_id = data, data_id
        db.drop_all_tables(with_all_data=True)
        db.create_tables()
        d = dec(data)
        with orm.db_session:
            objs = {}
            for root in schema.roots():
                for row in d.get(root.name, []):
                    e = schema.ents[row['_cls']]
                    kw = {}
                    for a in e.attrs.values():
                        if a.is_scalar:
                            if row.get(a.name) is not None: kw[a.name] = row[a.name]
                        elif a.is_ref and a.kind == 'req' and a.name in row:
                            kw[a.name] = objs[schema.ents[a.typ].root, row[a.name]]
                    objs[root.name, row_key(row)] = self.ns[row['_cls']](**kw)
            for root in schema.roots():
                for row in d.get(root.name, []):
                    e = schema.ents[row['_cls']]
                    o = objs[root.name, row_key(row)]
                    for a in e.attrs.values():
                        if a.is_scalar or a.name not in row or row[a.name] is None: continue
                        troot = schema.ents[a.typ].root
                        if a.is_ref and a.kind == 'opt': setattr(o, a.name, objs[troot, row[a.name]])
                        elif a.is_set:
                            for pk in row[a.name]: getattr(o, a.name).add(objs[troot, pk])
        self.mirror = Mirror(schema, data)
        return self.mirror


_ENVS = {}

def get_env(schema_name='S1'):
    if schema_name not in _ENVS: _ENVS[schema_name] = Env(SCHEMAS[schema_name])
    return _ENVS[schema_name]


# ----------------------------------------------------------------------------------------------------------------
# 4. programs and the runner (real pony pipeline)
# ----------------------------------------------------------------------------------------------------------------
# CHAIN STEPS (jsonable lists), applied left to right to the query object `q`:
#   ['order_by'|'sort_by', kind, spec]   kind 'attrs'  spec [[attr, desc?], ...]   (entity results)
#                                         kind 'numbers' spec [1, -2]
#                                         kind 'lambda' spec 'lambda p: (p.age, desc(p.id))'
#                                         kind 'str'    spec 'p.age, desc(p.id)' | 'lambda x: ...'
#   ['filter'|'where', kind, spec]        kind 'lambda' | 'str' (text)  | 'kwargs' ({attr: encoded value})
#   ['slice', a, b] ['limit', n, off] ['page', pagenum, size] ['first'] ['get'] ['exists'] ['len']
#   ['count', distinct] ['sum', distinct] ['avg', distinct] ['min'] ['max'] ['group_concat', sep, distinct]
#   ['distinct'] ['without_distinct'] ['random', n] ['delete', bulk]
#   ['fetch', n, off]   eager Query.fetch
#   ['access', [ops]]   script of accesses on the result object: ['idx', i] ['slice', a, b] ['slice2', a, b, c, d] ['len']
#                       ['list'] ['to_list'] ['reversed'] ['next', k] ['contains', i]; result value ('$access', [observed...])
#   ['iter', src]    new query over the previous (possibly limited) query: src uses _Q, e.g. 'x for x in _Q if x.age > 1'
TERMINALS = ('first', 'get', 'exists', 'count', 'sum', 'avg', 'min', 'max', 'group_concat', 'len', 'delete')


class Program(object):
    def __init__(self, src, params=None, form='gen', chain=None, lam=None, prods=None, schema='S1', note=None):
        self.src, self.params, self.form = src, dict(params or {}), form
        self.chain, self.lam, self.prods, self.schema, self.note = list(chain or []), lam, list(prods or []), schema, note
    def clone(self, **kw):
        p = Program(self.src, self.params, self.form, copy.deepcopy(self.chain), self.lam, self.prods, self.schema, self.note)
        for k, v in kw.items(): setattr(p, k, v)
        return p
    def to_json(self):
        return {'src': self.src, 'params': enc(self.params), 'form': self.form, 'chain': enc(self.chain), 'lam': self.lam,
                'schema': self.schema, 'note': self.note}
    @staticmethod
    def from_json(j):
        return Program(j['src'], dec(j.get('params') or {}), j.get('form', 'gen'), j.get('chain') or [],
                       j.get('lam'), [], j.get('schema', 'S1'), j.get('note'))
    def text(self):
        return render_program(self)[0]
    def key(self):
        return json.dumps([self.src, enc(self.params), self.form, enc(self.chain)], sort_keys=True, default=repr)


def has_ifexp(program):
    texts = [program.src] + [st[2] for st in program.chain if st[0] in ('order_by', 'sort_by', 'filter', 'where')
                              and st[1] in ('lambda', 'str')] + [st[1] for st in program.chain if st[0] == 'iter']
    return any(' if ' in t and ' else ' in t and any(isinstance(n, ast.IfExp) for n in ast.walk(ast.parse('(' + t + ')')))
               for t in texts)


def has_lambda_cell_shape(src):
    """A lambda INSIDE the query (coll.select/filter/exists(lambda p: ...)) whose parameter is captured by a nested generator
    and whose body also reads outer variables: the decompiler rotates the variable names (property C03, finding
    C03-LAMBDA-CELL-PARAM-WITH-FREEVARS), so such programs are run in string form only."""
    if 'lambda' not in src: return False
    for n in ast.walk(ast.parse('(' + src + ')')):
        if not isinstance(n, ast.Lambda): continue
        own = {a.arg for a in n.args.args}
        captured = any(isinstance(g, (ast.GeneratorExp, ast.Lambda)) and g is not n and
                       any(isinstance(x, ast.Name) and x.id in own for x in ast.walk(g)) for g in ast.walk(n.body))
        bound = set(own)
        for g in ast.walk(n.body):
            if isinstance(g, ast.comprehension): bound |= {x.id for x in ast.walk(g.target) if isinstance(x, ast.Name)}
            if isinstance(g, ast.Lambda): bound |= {a.arg for a in g.args.args}
        free = any(isinstance(x, ast.Name) and x.id not in bound and x.id not in Interp._FUNCS and not x.id[:1].isupper()
                   for x in ast.walk(n.body))
        if captured and free: return True
    return False


def forms_of(program, skip_gen_ifexp=True):
    """Every front-end form the program can be written in.  Conditional expressions are emitted in string form only:
    on this interpreter the decompiler (property C03, shape K1) silently returns a different tree for them in
    generator form, and also in lambda form when they sit next to and/or or inside a nested generator."""
    out = [program.clone(form='str')]
    decompilable = not (skip_gen_ifexp and (has_ifexp(program) or has_lambda_cell_shape(program.src)))
    if decompilable: out.insert(0, program.clone(form='gen'))
    if program.lam is not None and decompilable:
        # a lambda whose parameter is captured by a nested generator/lambda AND that reads closure variables decompiles
        # with rotated variable names (property C03, C03-LAMBDA-CELL-PARAM-WITH-FREEVARS): not emitted in lambda form
        cond = program.lam.get('cond') or ''
        nested = program.params and (' for ' in cond or 'lambda' in cond) and any(
            isinstance(n, (ast.GeneratorExp, ast.Lambda)) for n in ast.walk(ast.parse('(' + cond + ')')))
        if not nested: out.append(program.clone(form='lam'))
    return out


def _kw_lit(d):
    return ', '.join('%s=%s' % (k, lit(dec(v))) for k, v in sorted(d.items()))


def render_program(p):
    """Source text of a function `_prog(params...)` that builds the query in the requested front-end form,
    applies the chain and returns the raw result.  Returns (source, param names)."""
    names = sorted(p.params)
    L = ['def _prog(%s):' % ', '.join(names)]
    add = L.append
    add('    _L = {%s}' % ', '.join('%r: %s' % (n, n) for n in names))
    strform = p.form == 'str'
    if p.form == 'gen': add('    q = select(%s)' % p.src)
    elif strform: add('    q = select(%r, _G, _L)' % p.src)
    elif p.form == 'lam':
        lam = p.lam
        if lam.get('cond'): add('    q = %s.select(lambda %s: %s)' % (lam['ent'], lam['var'], lam['cond']))
        else: add('    q = %s.select()' % lam['ent'])
    else: raise ValueError(p.form)
    for step in p.chain:
        op = step[0]
        if op in ('order_by', 'sort_by', 'filter', 'where'):
            kind, spec = step[1], step[2]
            if kind == 'attrs':
                args = ', '.join(('desc(%s.%s)' if d else '%s.%s') % (spec_ent, a) for spec_ent, a, d in spec)
                add('    q = q.%s(%s)' % (op, args))
            elif kind == 'numbers': add('    q = q.%s(%s)' % (op, ', '.join(str(n) for n in spec)))
            elif kind == 'kwargs': add('    q = q.%s(%s)' % (op, _kw_lit(spec)))
            elif kind == 'str' or (kind == 'lambda' and strform): add('    q = q.%s(%r, _G, _L)' % (op, spec))
            elif kind == 'lambda': add('    q = q.%s(%s)' % (op, spec))
            else: raise ValueError(step)
        elif op == 'slice':
            a, b = step[1], step[2]
            add('    q = q[%s:%s]' % ('' if a is None else a, '' if b is None else b))
        elif op == 'limit': add('    q = q.limit(%s)' % ', '.join(repr(x) for x in step[1:]))
        elif op == 'page': add('    q = q.page(%s)' % ', '.join(repr(x) for x in step[1:]))
        elif op in ('first', 'get', 'exists', 'min', 'max', 'distinct', 'without_distinct'): add('    q = q.%s()' % op)
        elif op == 'len': add('    q = len(q)')
        elif op in ('count', 'sum', 'avg'):
            add('    q = q.%s(%s)' % (op, '' if len(step) < 2 or step[1] is None else 'distinct=%r' % step[1]))
        elif op == 'group_concat':
            kw = []
            if len(step) > 1 and step[1] is not None: kw.append('sep=%r' % step[1])
            if len(step) > 2 and step[2] is not None: kw.append('distinct=%r' % step[2])
            add('    q = q.group_concat(%s)' % ', '.join(kw))
        elif op == 'random': add('    q = q.random(%d)' % step[1])
        elif op == 'new_param': add('    # the parameter t is a NEW %s object created in this session (%s); %s rows referencing it are created too' % (step[1], step[2], 'new'))
        elif op == 'fetch': add('    q = q.fetch(%s)' % ', '.join(repr(x) for x in step[1:]))
        elif op == 'access':
            # a script of accesses on the RESULT OBJECT (QueryResult), in order, each observed value recorded
            add('    _r, _out = q, []')
            for a in step[1]:
                k = a[0]
                if k == 'idx': expr = '_r[%d]' % a[1]
                elif k == 'slice': expr = '_r[%s:%s]' % ('' if a[1] is None else a[1], '' if a[2] is None else a[2])
                elif k == 'slice2': expr = '_r[%s:%s][%s:%s]' % tuple('' if x is None else x for x in a[1:5])
                elif k == 'len': expr = 'len(_r)'
                elif k == 'list': expr = 'list(_r)'
                elif k == 'to_list': expr = '_r.to_list()'
                elif k == 'reversed': expr = 'list(reversed(_r))'
                elif k == 'next': expr = '(lambda it: [next(it) for _ in range(%d)])(iter(_r))' % a[1]
                elif k == 'contains': expr = '(_r[%d] in _r) if len(_r) > %d else None' % (a[1], a[1])
                else: raise ValueError(a)
                add('    try: _out.append(_N(%s))' % expr)
                add("    except (IndexError, StopIteration, RuntimeError) as _e: _out.append(('$exc', 'StopIteration' if type(_e).__name__ == 'RuntimeError' else type(_e).__name__))")
            add("    q = ('$access', _out)")
        elif op == 'delete': add('    q = q.delete(bulk=%r)' % step[1])
        elif op == 'iter':
            add('    _Q = q')
            if strform: add('    q = select(%r, _G, dict(_L, _Q=_Q))' % step[1])
            else: add('    q = select(%s)' % step[1])
        else: raise ValueError(step)
    add('    return q')
    return '\n'.join(L), names


class Result(object):
    def __init__(self, kind, rows=None, value=None, exc=None, exc_msg=None, sql=None, db_error=False):
        self.kind, self.rows, self.value, self.exc, self.exc_msg, self.sql, self.db_error = \
            kind, rows, value, exc, exc_msg, sql, db_error
    def summary(self):
        if self.kind == 'rows': return {'rows': enc(self.rows)}
        if self.kind == 'scalar': return {'value': enc(self.value)}
        return {'raised': self.exc, 'msg': (self.exc_msg or '')[:300]}


def norm_pony(v, Entity):
    if isinstance(v, Entity):
        return ('@', v.__class__._root_.__name__, v.get_pk(), v.__class__.__name__)
    if isinstance(v, tuple): return tuple(norm_pony(i, Entity) for i in v)
    return v


def run_program(env, program, in_session=None, keep_session=False):
    """Run `program` through the real pony pipeline on env's database.  Never raises for pony errors."""
    orm = env.orm
    from pony.orm import core
    from pony.orm.dbapiprovider import DBException
    try:
        src, names = render_program(program)
        fn = env._fn_cache.get(src)
        if fn is None:
            loc = {}
            exec(compile(src, '<qdiff program>', 'exec'), env.ns, loc)
            fn = env._fn_cache[src] = loc['_prog']
            if len(env._fn_cache) > 20000: env._fn_cache.clear()
    except SyntaxError as e:
        return Result('raised', exc='HarnessSyntaxError', exc_msg=str(e) + '\n' + src)
    env.db._dblocal.last_sql = None
    try:
        with orm.db_session:
            r = fn(**program.params)
            if isinstance(r, core.Query): r = r[:]
            if isinstance(r, core.QueryResult): r = list(r)
            if isinstance(r, list):
                res = Result('rows', rows=[norm_pony(v, core.Entity) for v in r])
            else:
                res = Result('scalar', value=norm_pony(r, core.Entity))
            res.sql = env.db.last_sql
            if in_session is not None: in_session(res)
            if any(s[0] == 'delete' for s in program.chain): orm.rollback()
            return res
    except Exception as e:
        return Result('raised', exc=type(e).__name__, exc_msg=str(e)[:500], sql=env.db.last_sql,
                      db_error=isinstance(e, DBException))


# ----------------------------------------------------------------------------------------------------------------
# 5. reference interpreter over the same source text, evaluated on the mirror
# ----------------------------------------------------------------------------------------------------------------
class Unsupported(Exception):
    """The program leaves the modelled fragment: the case is skipped, never judged."""

class NoReference(Exception):
    """Python itself would raise for the whole query: there is no reference value."""

class PyWouldRaise(Exception):
    """Raised in strict (projection) mode where Python evaluation raises on this row."""


class _Unknown(object):
    def __repr__(self): return 'UNKNOWN'
    def __bool__(self): raise Unsupported('truth of UNKNOWN used natively')
U = _Unknown()


class GroupConcat(object):
    """Reference value of group_concat: the multiset of parts and the separator (order is unspecified)."""
    def __init__(self, parts, sep): self.parts, self.sep = [str(x) for x in parts], sep
    def __repr__(self): return 'GroupConcat(%r, %r)' % (self.parts, self.sep)


AGGS = ('count', 'sum', 'min', 'max', 'avg', 'group_concat')
NUM = (int, float, Decimal)

# deviation switches (DESIGN.md section 5): reference re-evaluated with the switch on must reproduce pony exactly
DEVIATIONS = OrderedDict([
    ('int_truediv', 'C01-INT-TRUEDIV-TRUNCATES'),
    ('floordiv_mod', 'C01-FLOORDIV-MOD-C-SIGN'),
    ('slice_stop_m1', 'C01-SLICE-STOP-MINUS-ONE'),
    ('optref_inner_join', 'C01-OPTIONAL-REF-INNER-JOIN'),
    ('o2o_left_join', 'C01-ONE2ONE-REVERSE-LEFT-JOIN'),
    ('aggr_optimize', 'C01-COLLECTION-AGGREGATE-JOIN-GROUPS-BY-PROJECTION'),
    ('strip_spaces_only', 'C01-STRIP-ONLY-SPACES'),
    ('dec_param_text', 'C01-DECIMAL-PARAM-TEXT-COMPARE'),
    ('date_param_delta', 'C01-DATE-PARAM-TIMEDELTA-TEXT'),
    ('notin_subquery_nulls', 'C01-NOT-IN-SUBQUERY-IGNORES-NULLS'),
    ('bool_arith_bool', 'C01-BOOL-ARITHMETIC-TYPED-BOOL'),
])


# shape predicates: mechanisms whose deviant answer cannot be predicted (backend picks an arbitrary row)
SHAPE_RULES = OrderedDict([
    ('outer_aggr_arg', 'C01-SUBQUERY-AGGREGATE-OF-OUTER-EXPRESSION'),
    ('alias_clash', 'C01-SUBQUERY-ALIAS-SHADOWS-OUTER-JOIN'),
])


def _is_num(v): return isinstance(v, NUM) and not isinstance(v, bool) or isinstance(v, bool)


def c_div(a, b):
    q = abs(a) // abs(b)
    return q if (a < 0) == (b < 0) else -q


class Interp(object):
    def __init__(self, mirror, params, dev=()):
        self.m, self.schema, self.params, self.dev = mirror, mirror.schema, params, frozenset(dev)
        self.mode = 'A'
        self.strict = False
        self.row_flag = False        # python would raise on this row
        self.amb_seen = False
        self.depth = 0
        self.sites = set()           # deviation sites met during evaluation
        self.tenv = {}               # static types of loop variables (entity names)
        self.o2o_active = False      # top-level query reads a reverse one-to-one attribute value
        self._optref_cache = {}
        self._ext_cache = {}
        self.leftjoin_targets = set()   # loop variables bound by a LEFT JOIN (empty collection -> one None binding)
        self.null_item_ok = False
        self.unpredictable = False      # deviant semantics depend on an arbitrary row choice of the backend
        self.dectext_projected = False

    # -- helpers -------------------------------------------------------------------------------------------------
    def project_bool(self, val):
        """A projected value typed bool by pony (bool op bool, or sum/min/max of it) goes through bool()."""
        items = val if isinstance(val, tuple) else (val,)
        if not any(isinstance(v, BoolTyped) for v in items): return val
        if any(isinstance(v, BoolTyped) and int(v) not in (0, 1) for v in items): self.sites.add('bool_arith_bool')
        bt = lambda v: (bool(v) if 'bool_arith_bool' in self.dev else int(v)) if isinstance(v, BoolTyped) else v
        return tuple(bt(v) for v in val) if isinstance(val, tuple) else bt(val)

    def row_flag_pending(self, node):
        """None produced by a python-raising step (attribute of a None reference, x/0 ...) is not a plain missing value."""
        return self.row_flag

    def pyraise(self, why=''):
        if self.strict: raise PyWouldRaise(why)
        self.row_flag = True
        return None

    def nullprop(self, why='None operand'):
        """An operator got a None operand: SQL NULL propagation inside conditions; python raises in a projection."""
        if self.strict: raise PyWouldRaise(why)
        return None

    def amb(self):
        self.amb_seen = True
        if self.depth > 0: self.row_flag = True
        return U if self.mode == 'A' else False

    def truth(self, v):
        if v is U: return U
        if v is None: return self.amb()
        if isinstance(v, bool): return v
        if isinstance(v, NUM): return v != 0
        if isinstance(v, str): return v != ''
        if isinstance(v, (list, set, frozenset, tuple)): return len(v) > 0
        return True

    def t_not(self, t):
        return U if t is U else (not t)

    def t_and(self, vals):
        res = True
        for t in vals:
            if t is False: return False
            if t is U: res = U
        return res

    def t_or(self, vals):
        res = False
        for t in vals:
            if t is True: return True
            if t is U: res = U
        return res

    # -- static typing of attribute chains --------------------------------------------------------------------------
    def stype(self, node, tenv=None):
        """('ent', E) | ('set', E) | ('bag', scalar) | ('query',) | scalar type name | None (unknown)."""
        tenv = self.tenv if tenv is None else tenv
        if isinstance(node, ast.Name):
            if node.id in tenv: return tenv[node.id]
            if node.id in self.schema.ents: return ('set', node.id)
            if node.id in self.params:
                v = self.params[node.id]
                return {bool: 'bool', int: 'int', float: 'float', str: 'str', Decimal: 'dec', date: 'date'}.get(type(v))
            return None
        if isinstance(node, ast.Constant):
            v = node.value
            return {bool: 'bool', int: 'int', float: 'float', str: 'str'}.get(type(v))
        if isinstance(node, ast.Attribute):
            bt = self.stype(node.value, tenv)
            if isinstance(bt, tuple) and bt[0] in ('ent', 'set'):
                e = self.schema.ents[bt[1]]
                a = e.attrs.get(node.attr)
                if a is None:
                    for s in e.subclasses:
                        a = a or self.schema.ents[s].attrs.get(node.attr)
                if a is not None:
                    if a.is_scalar: return a.typ if bt[0] == 'ent' else ('bag', a.typ)
                    if a.is_set or bt[0] == 'set': return ('set', a.typ)
                    return ('ent', a.typ)
                h = e.all_hybrids.get(node.attr)
                if h is not None: return h.rtype if h.kind == 'property' else ('method', h)
                return None
            if bt == 'date' and node.attr in ('year', 'month', 'day'): return 'int'
            return None
        if isinstance(node, ast.GeneratorExp): return ('query',)
        if isinstance(node, ast.Call):
            f = node.func
            if isinstance(f, ast.Name):
                if f.id in ('select', 'distinct', 'JOIN') and node.args: return self.stype(node.args[0], tenv)
                if f.id in ('count', 'len'): return 'int'
                if f.id == 'avg': return 'float'
                if f.id in ('concat', 'group_concat', 'str'): return 'str'
                if f.id in ('coalesce', 'abs', 'sum', 'min', 'max') and node.args:
                    t = self.stype(node.args[0], tenv)
                    if isinstance(t, tuple) and t[0] == 'bag': return t[1]
                    return t if not isinstance(t, tuple) else None
                if f.id in ('exists', 'between', 'isinstance'): return 'bool'
            if isinstance(f, ast.Attribute):
                if f.attr in ('select', 'filter'): return self.stype(f.value, tenv)
                if f.attr in ('upper', 'lower', 'strip', 'lstrip', 'rstrip'): return 'str'
                if f.attr in ('startswith', 'endswith', 'is_empty', 'exists'): return 'bool'
                bt = self.stype(f, tenv)
                if isinstance(bt, tuple) and bt[0] == 'method': return bt[1].rtype
            return None
        if isinstance(node, (ast.Compare, ast.BoolOp)): return 'bool'
        if isinstance(node, ast.UnaryOp):
            return 'bool' if isinstance(node.op, ast.Not) else self.stype(node.operand, tenv)
        if isinstance(node, ast.BinOp):
            l, r = self.stype(node.left, tenv), self.stype(node.right, tenv)
            if isinstance(node.op, ast.Div): return 'float'
            if l == 'float' or r == 'float' or isinstance(node.op, ast.Pow): return 'float'
            return l
        if isinstance(node, ast.IfExp): return self.stype(node.body, tenv)
        if isinstance(node, ast.Subscript): return 'str'
        if isinstance(node, ast.JoinedStr): return 'str'
        return None

    def is_coll(self, node):
        t = self.stype(node)
        return isinstance(t, tuple) and t[0] in ('set', 'bag', 'query')

    def is_qaggr(self, node):
        """Query-level aggregate call: count()/sum(x)/... whose argument is not a collection or subquery."""
        if not (isinstance(node, ast.Call) and isinstance(node.func, ast.Name) and node.func.id in AGGS): return False
        if not node.args: return node.func.id == 'count'
        a = node.args[0]
        if isinstance(a, ast.Constant) and a.value == '*': return True
        if node.func.id in ('min', 'max') and len(node.args) > 1: return False
        if self.is_coll(a): return False
        if self.is_external(a):
            raise Unsupported('aggregate of an external (variable-free) expression is evaluated by python itself')
        return True

    def has_qaggr(self, node):
        if self.is_qaggr(node): return True
        if isinstance(node, (ast.GeneratorExp, ast.Lambda)): return False
        return any(self.has_qaggr(c) for c in ast.iter_child_nodes(node))


    # -- deviation support: optional references are INNER-joined; reverse one-to-one reads force LEFT joins ---------
    def bind_static(self, generators):
        """Static types of the loop variables of one generator level (no evaluation)."""
        for g in generators:
            if isinstance(g.target, ast.Name):
                t = self.stype(g.iter)
                if isinstance(t, tuple) and t[0] in ('set', 'ent'): self.tenv[g.target.id] = ('ent', t[1])
                else:
                    inner = g.iter if isinstance(g.iter, ast.GeneratorExp) else (
                        g.iter.args[0] if isinstance(g.iter, ast.Call) and g.iter.args else None)
                    if isinstance(inner, ast.GeneratorExp):
                        et = self._elt_type(inner)
                        if et is not None: self.tenv[g.target.id] = et

    def _opt_attr(self, node):
        """If `node` is `X.a` with X statically an entity and `a` an OPTIONAL to-one attribute, return that Attr."""
        if not isinstance(node, ast.Attribute): return None
        pt = self.stype(node.value)
        if isinstance(pt, tuple) and pt[0] == 'ent':
            a = self.schema.ents[pt[1]].attrs.get(node.attr)
            if a is not None and a.is_ref and a.kind == 'opt': return a
        return None

    def _root_name(self, node):
        while isinstance(node, ast.Attribute): node = node.value
        return node.id if isinstance(node, ast.Name) else None

    def optref_nodes(self, scope, level_vars):
        """Nodes `X.attr` anywhere below `scope` (nested generators included) where X contains an optional to-one
        reference reached from one of THIS level's loop variables, and attr needs the joined table."""
        key = (id(scope), tuple(sorted(level_vars)))
        if key in self._optref_cache: return self._optref_cache[key]
        out = []
        for n in ast.walk(scope):
            if isinstance(n, ast.Attribute) and self._root_name(n) in level_vars:
                a = self._opt_attr(n.value)
                if a is not None and not (n.attr == 'id' and not a.reverse.is_ref):
                    out.append(n.value)
        def nested(n, inside):
            if isinstance(n, (ast.GeneratorExp, ast.Lambda)) and n is not scope: inside = True
            if inside and isinstance(n, ast.Attribute) and self._root_name(n) in level_vars:
                a = self._opt_attr(n)
                if a is not None and a.reverse.is_ref and a.reverse.kind == 'req': out.append(n)
            for c in ast.iter_child_nodes(n): nested(c, inside)
        nested(scope, False)
        self._optref_cache[key] = out
        return out

    def optref_drop(self, scope, level_vars, env, extra=()):
        """True when pony's inner join on an optional reference removes this binding (deviation rule)."""
        if self.o2o_active and 'o2o_left_join' in self.dev and self.depth == 0: return False
        hit = False
        saved = (self.row_flag, self.amb_seen, self.strict)
        self.strict = False
        try:
            for n in list(self.optref_nodes(scope, level_vars)) + list(extra):
                try: base = self.ev(n, env)
                except (Unsupported, NoReference, PyWouldRaise): continue
                if base is None: hit = True
        finally: self.row_flag, self.amb_seen, self.strict = saved
        if hit:
            self.sites.add('optref_inner_join')
            return 'optref_inner_join' in self.dev
        return False

    def find_o2o_reads(self, tree):
        """Top-level reads of the VALUE of a reverse one-to-one attribute (no column on this side)."""
        def walk(n, parent):
            if isinstance(n, (ast.GeneratorExp, ast.Lambda)) and n is not tree: return False
            if isinstance(n, ast.Attribute) and not (isinstance(parent, ast.Attribute) and parent.value is n):
                a = self._opt_attr(n)
                if a is not None and a.reverse.is_ref and a.reverse.kind == 'req': return True
            return any(walk(c, n) for c in ast.iter_child_nodes(n))
        return walk(tree, None)

    # -- expression evaluation -------------------------------------------------------------------------------------
    def ev(self, node, env):
        m = getattr(self, 'ev_' + type(node).__name__, None)
        if m is None: raise Unsupported('node ' + type(node).__name__)
        v = m(node, env)
        if type(v) is Decimal and self.is_external(node) and not (
                isinstance(node, ast.Call) and isinstance(node.func, ast.Name) and node.func.id == 'Decimal'):
            v = DecText(v)
        return v

    _FUNCS = frozenset(AGGS + ('select', 'exists', 'len', 'abs', 'coalesce', 'concat', 'between', 'isinstance', 'date',
                               'timedelta', 'Decimal', 'int', 'float', 'str', 'desc', 'distinct', 'JOIN', 'True', 'False', 'None'))

    def is_external(self, node):
        """Variable-free expression: pony evaluates it in python and binds the value as a parameter."""
        k = id(node)
        r = self._ext_cache.get(k)
        if r is None:
            r = True
            for n in ast.walk(node):
                if isinstance(n, ast.Name) and n.id not in self.params and n.id not in self._FUNCS:
                    r = False; break
                if isinstance(n, (ast.GeneratorExp, ast.Lambda)): r = False; break
            self._ext_cache[k] = r
        return r

    def is_column(self, node):
        """A plain attribute of an entity (has column affinity in SQL)."""
        if not isinstance(node, ast.Attribute): return False
        bt = self.stype(node.value)
        return isinstance(bt, tuple) and bt[0] == 'ent' and node.attr in self.schema.ents[bt[1]].attrs

    def cond(self, node, env):
        """Evaluate in condition context (SQL semantics, non-strict) -> True/False/U."""
        saved, self.strict = self.strict, False
        try: return self.truth(self.ev(node, env))
        finally: self.strict = saved

    def ev_Constant(self, node, env):
        v = node.value
        if v is Ellipsis or isinstance(v, (bytes, complex)): raise Unsupported('constant')
        return v

    def ev_Name(self, node, env):
        n = node.id
        if n in env: return env[n]
        if n in self.params: return self.params[n]
        if n in self.m.objs: return list(self.m.objs[n])
        if n in ('True', 'False', 'None'): return {'True': True, 'False': False, 'None': None}[n]
        raise Unsupported('name ' + n)

    def ev_Tuple(self, node, env): return tuple(self.ev(e, env) for e in node.elts)
    def ev_List(self, node, env): return [self.ev(e, env) for e in node.elts]

    def ev_Attribute(self, node, env):
        base = self.ev(node.value, env)
        if base is None and (self.null_item_ok or (self.o2o_active and 'o2o_left_join' in self.dev)):
            t = self.stype(node.value)
            if isinstance(t, tuple) and t[0] == 'ent':
                a = self.schema.ents[t[1]].attrs.get(node.attr)
                if a is not None and a.is_set: return set()
                h = self.schema.ents[t[1]].all_hybrids.get(node.attr)
                if h is not None and h.kind == 'property':
                    saved = self.tenv
                    self.tenv = dict(saved, self=('ent', t[1]))
                    try: return self.ev(h.tree, {'self': None})
                    finally: self.tenv = saved
        return self.getattr(base, node.attr, node, env)

    def getattr(self, base, name, node=None, env=None):
        if base is U: raise Unsupported('attribute of UNKNOWN')
        if base is None:
            if name in ('year', 'month', 'day'): return self.nullprop('attr of None date')
            if self.null_item_ok or (self.o2o_active and 'o2o_left_join' in self.dev): return None
            return self.pyraise('attribute %s of None' % name)
        if isinstance(base, MObj):
            e = self.schema.ents[base._ent]
            if name in e.attrs:
                v = getattr(base, name)
                return set(v) if isinstance(v, set) else v
            h = e.all_hybrids.get(name)
            if h is not None:
                if h.kind == 'property': return self.call_hybrid(h, base, [], {})
                return ('hybrid', h, base)
            if hasattr(base, name): return self.nullprop('subclass attr')   # not generated
            raise Unsupported('attr %s.%s' % (base._ent, name))
        if isinstance(base, date) and name in ('year', 'month', 'day'): return getattr(base, name)
        if isinstance(base, (set, frozenset, list)):
            # attribute lifting over a collection: p.items.price -> bag of values; d.persons.tags -> set of entities
            out_set, out_bag, is_ent = set(), [], False
            for o in base:
                if not isinstance(o, MObj): raise Unsupported('lifting over non-entities')
                v = self.getattr(o, name)
                if isinstance(v, (set, frozenset)): out_set |= v; is_ent = True
                elif isinstance(v, MObj): out_set.add(v); is_ent = True
                elif v is not None: out_bag.append(v)
            return out_set if is_ent else out_bag
        raise Unsupported('attribute %s of %s' % (name, type(base).__name__))

    def call_hybrid(self, h, obj, args, kwargs):
        env = {'self': obj}
        names = [a for a, d in h.args]
        for (a, d), v in zip(h.args, args): env[a] = v
        for k, v in kwargs.items(): env[k] = v
        for a, d in h.args:
            if a not in env:
                if d is None: raise Unsupported('hybrid arg missing')
                env[a] = ast.literal_eval(d)
        saved_tenv = self.tenv
        self.tenv = dict(saved_tenv, self=('ent', obj._ent))
        try: return self.ev(h.tree, env)
        finally: self.tenv = saved_tenv

    def ev_UnaryOp(self, node, env):
        if isinstance(node.op, ast.Not):
            saved, self.strict = self.strict, False
            try:
                o = node.operand
                if isinstance(o, ast.Compare) and len(o.ops) == 1 and isinstance(o.ops[0], ast.In):
                    # pony turns not (x in S) into x NOT IN S (same rendering as the `not in` operator)
                    self._plain_not_in = True
                    try: return self.compare(ast.NotIn(), self.ev(o.left, env), self.ev(o.comparators[0], env), o.left, o.comparators[0], env)
                    finally: self._plain_not_in = False
                v = self.ev(node.operand, env)
                if v is None and not self.row_flag_pending(node.operand):
                    # a missing VALUE (attribute, method result, coalesce, conditional ...) is falsy, so its negation is true:
                    # pony renders `x = '' OR x IS NULL` / COALESCE(x, '') = '' / x IS NULL for every directly negated value
                    return True
                return self.t_not(self.truth(v))
            finally: self.strict = saved
        v = self.ev(node.operand, env)
        if v is None: return self.nullprop()
        if v is U or not isinstance(v, NUM): raise Unsupported('unary on %r' % (v,))
        if isinstance(v, (bool, BoolTyped)) and not self.is_external(node):
            return BoolTyped(-int(v) if isinstance(node.op, ast.USub) else int(v))      # pony keeps the operand type (bool)
        if isinstance(node.op, ast.USub): return -v
        if isinstance(node.op, ast.UAdd): return +v
        raise Unsupported('unary op')

    def ev_BoolOp(self, node, env):
        saved, self.strict = self.strict, False
        try:
            vals = []
            is_and = isinstance(node.op, ast.And)
            for v in node.values:
                t = self.truth(self.ev(v, env))
                vals.append(t)
                if (t is False and is_and) or (t is True and not is_and): break
            return self.t_and(vals) if is_and else self.t_or(vals)
        finally: self.strict = saved

    def ev_IfExp(self, node, env):
        t = self.cond(node.test, env)
        v = self.ev(node.body if t is True else node.orelse, env)
        if isinstance(v, BoolTyped) and not (self.stype(node.body) == 'bool' and self.stype(node.orelse) == 'bool'):
            return int(v)                    # coerce_types(bool, int) is int: only an all-bool conditional stays bool
        return v

    def ev_BinOp(self, node, env):
        a, b = self.ev(node.left, env), self.ev(node.right, env)
        return self.binop(node.op, a, b, node)

    def binop(self, op, a, b, node=None):
        if a is U or b is U: raise Unsupported('arithmetic on UNKNOWN')
        if isinstance(a, (list, set, GroupConcat)) or isinstance(b, (list, set, GroupConcat)): raise Unsupported('arithmetic on collections')
        if a is None or b is None: return self.nullprop()
        opn = type(op).__name__
        if isinstance(a, str) or isinstance(b, str):
            if opn == 'Add' and isinstance(a, str) and isinstance(b, str): return a + b
            raise NoReference('str arithmetic')
        if isinstance(a, date) or isinstance(b, date) or isinstance(a, timedelta) or isinstance(b, timedelta):
            return self.date_binop(opn, a, b, node)
        if not (isinstance(a, NUM) and isinstance(b, NUM)): raise Unsupported('binop operands')
        if isinstance(a, Decimal) and isinstance(b, float) or isinstance(a, float) and isinstance(b, Decimal):
            raise NoReference('Decimal with float')
        ext = node is not None and self.is_external(node)
        if isinstance(a, (bool, BoolTyped)) and isinstance(b, (bool, BoolTyped)) and opn in ('Div', 'FloorDiv', 'Mod', 'Pow') and not ext:
            raise Unsupported('division of booleans')
        if isinstance(a, (bool, BoolTyped)) and isinstance(b, (bool, BoolTyped)) and opn in ('Add', 'Sub', 'Mult') and not ext:
            return BoolTyped({'Add': int(a) + int(b), 'Sub': int(a) - int(b), 'Mult': int(a) * int(b)}[opn])
        try:
            if opn == 'Add': return a + b
            if opn == 'Sub': return a - b
            if opn == 'Mult': return a * b
            if opn == 'Div':
                if b == 0: return self.pyraise('division by zero')
                if isinstance(a, int) and isinstance(b, int) and not ext:
                    self.sites.add('int_truediv')
                    if 'int_truediv' in self.dev: return c_div(int(a), int(b))
                return a / b
            if opn in ('FloorDiv', 'Mod'):
                if b == 0: return self.pyraise('division by zero')
                if isinstance(a, Decimal) or isinstance(b, Decimal): raise Unsupported('decimal floordiv/mod')
                py = a // b if opn == 'FloorDiv' else a % b
                if abs(a) >= 2 ** 62 or abs(b) >= 2 ** 62: raise Unsupported('operand beyond the 64-bit integer cast of the backend')
                if ext: return py
                isint = isinstance(a, int) and isinstance(b, int)
                if opn == 'FloorDiv': lite = c_div(int(a), int(b)) if isint else a / b
                else:
                    ia, ib = int(a), int(b)           # sqlite casts both operands of % to integer
                    if ib == 0: lite = None
                    else:
                        lite = abs(ia) % abs(ib) * (-1 if ia < 0 else 1)
                        if not isint: lite = float(lite)
                if lite is None or lite != py or type(lite) is not type(py): self.sites.add('floordiv_mod')
                if 'floordiv_mod' in self.dev: return lite
                return py
            if opn == 'Pow':
                r = a ** b
                if isinstance(r, complex): return self.pyraise('complex power')
                if isinstance(r, NUM) and abs(r) > 1e300: return self.pyraise('huge power')
                return r
        except ZeroDivisionError: return self.pyraise('zero division')
        except OverflowError: return self.pyraise('overflow')
        except (ArithmeticError, ValueError): return self.pyraise('arith')
        raise Unsupported('operator ' + opn)

    def date_binop(self, opn, a, b, node):
        try:
            if isinstance(a, (date, _DateTimeText)) and isinstance(b, timedelta) and opn in ('Add', 'Sub'):
                rnode = node.right if node is not None else None
                is_param = rnode is not None and self.is_external(rnode) and not (
                    isinstance(rnode, ast.Call) and isinstance(rnode.func, ast.Name) and rnode.func.id == 'timedelta')
                ext = node is not None and self.is_external(node)
                base = a.d if isinstance(a, _DateTimeText) else a
                r = (base + b) if opn == 'Add' else (base - b)
                if ext: return r
                if is_param:
                    # date +/- PARAMETER timedelta -> datetime(julianday(x) + ?) -> 'YYYY-MM-DD HH:MM:SS' text
                    self.sites.add('date_param_delta')
                    if 'date_param_delta' in self.dev: return _DateTimeText(r)
                    return r
                if isinstance(a, _DateTimeText):
                    secs = b.days * 86400 + b.seconds
                    return a if secs == 0 else r          # date(x, '+N days') normalises; a zero delta is a no-op
                return r
            if isinstance(a, date) and isinstance(b, date) and opn == 'Sub': return a - b
        except OverflowError: return self.pyraise('date overflow')
        raise NoReference('date arithmetic %s' % opn)

    # comparisons ---------------------------------------------------------------------------------------------------
    def is_none_literal(self, node):
        if isinstance(node, ast.Constant) and node.value is None: return True
        return isinstance(node, ast.Name) and node.id in self.params and self.params[node.id] is None

    def ev_Compare(self, node, env):
        saved = self.strict
        left = self.ev(node.left, env)
        results = []
        lnode = node.left
        for op, rnode in zip(node.ops, node.comparators):
            right = self.ev(rnode, env)
            results.append(self.compare(op, left, right, lnode, rnode, env))
            left, lnode = right, rnode
        r = results[0] if len(results) == 1 else self.t_and(results)
        if r is U and saved: raise PyWouldRaise('comparison with None in projection')
        return r

    def compare(self, op, a, b, lnode=None, rnode=None, env=None):
        opn = type(op).__name__
        if opn in ('Is', 'IsNot'):
            if not (a is None or b is None): raise Unsupported('is between non-None')
            r = (a is None and b is None)
            if a is U or b is U: raise Unsupported('is on UNKNOWN')
            return r if opn == 'Is' else not r
        if opn in ('In', 'NotIn'):
            if opn == 'NotIn' and isinstance(b, list) and rnode is not None and (isinstance(rnode, ast.GeneratorExp) or (
                    isinstance(rnode, ast.Call) and isinstance(rnode.func, ast.Name) and rnode.func.id == 'select')) \
                    and any(i is None for i in b):
                # pony renders `x not in (subquery)` with IS NOT NULL conditions on the subquery columns
                nn = [i for i in b if i is not None]
                if not nn and a is None:
                    self.sites.add('notin_subquery_nulls')
                    if 'notin_subquery_nulls' in self.dev: return True
            r = self.contains(a, b, rnode, ignore_none=(opn == 'NotIn' and not getattr(self, '_plain_not_in', False)))
            return r if opn == 'In' else self.t_not(r)
        if a is U or b is U: raise Unsupported('comparison of UNKNOWN')
        if opn in ('Eq', 'NotEq') and ((lnode is not None and self.is_none_literal(lnode)) or
                                       (rnode is not None and self.is_none_literal(rnode))):
            r = (a is None and b is None)              # pony: == None means IS NULL (python: identical)
            return r if opn == 'Eq' else not r
        if isinstance(a, tuple) or isinstance(b, tuple):
            if not (isinstance(a, tuple) and isinstance(b, tuple) and len(a) == len(b)): raise Unsupported('tuple cmp')
            if opn == 'Eq': return self.t_and([self.compare(ast.Eq(), x, y) for x, y in zip(a, b)])
            if opn == 'NotEq': return self.t_or([self.compare(ast.NotEq(), x, y) for x, y in zip(a, b)])
            raise Unsupported('tuple ordering')
        if a is None or b is None: return U
        if isinstance(a, GroupConcat) or isinstance(b, GroupConcat): raise NoReference('comparison of a group_concat value')
        if isinstance(a, (list, set)) or isinstance(b, (list, set)): raise Unsupported('collection comparison')
        if isinstance(a, MObj) or isinstance(b, MObj):
            if not (isinstance(a, MObj) and isinstance(b, MObj)): raise NoReference('entity vs scalar')
            if opn == 'Eq': return a is b
            if opn == 'NotEq': return a is not b
            raise NoReference('entity ordering')
        ta, tb = isinstance(a, DecText), isinstance(b, DecText)
        if (ta or tb) and isinstance(a, NUM) and isinstance(b, NUM) and not (
                lnode is not None and rnode is not None and self.is_external(lnode) and self.is_external(rnode)):   # python folds it
            # a TEXT-bound Decimal compared with something without column affinity: sqlite orders number < text,
            # and compares two texts as strings
            if ta and tb:
                self.sites.add('dec_param_text')
                if 'dec_param_text' in self.dev: a, b = str(a), str(b)
            elif not self.is_column(rnode if ta else lnode):
                self.sites.add('dec_param_text')
                if 'dec_param_text' in self.dev:
                    num_is_left = tb
                    return {'Eq': False, 'NotEq': True, 'Lt': num_is_left, 'LtE': num_is_left,
                            'Gt': not num_is_left, 'GtE': not num_is_left}[opn]
        if isinstance(a, _DateTimeText) or isinstance(b, _DateTimeText):
            a = a.text if isinstance(a, _DateTimeText) else (a.isoformat() if isinstance(a, date) else a)
            b = b.text if isinstance(b, _DateTimeText) else (b.isoformat() if isinstance(b, date) else b)
        num = isinstance(a, NUM) and isinstance(b, NUM)
        if not num and type(a) is not type(b):
            if opn == 'Eq': return False
            if opn == 'NotEq': return True
            raise NoReference('ordering of %s and %s' % (type(a).__name__, type(b).__name__))
        if num and (a != b or isinstance(a, Decimal) or isinstance(b, Decimal)):
            try:
                fa, fb = float(a), float(b)
                near = abs(fa - fb) <= 1e-9 * max(abs(fa), abs(fb), 1e-300)
                if near and a != b: self.row_flag = True                      # float boundary: free row
                if near and a == b and (isinstance(a, Decimal) or isinstance(b, Decimal)) and opn in ('Eq', 'NotEq', 'Lt', 'LtE', 'Gt', 'GtE'):
                    computed = lambda n: n is not None and not self.is_column(n) and not isinstance(n, (ast.Constant, ast.Name)) \
                        and not (isinstance(n, ast.Call) and isinstance(n.func, ast.Name) and n.func.id == 'Decimal')
                    if computed(lnode) or computed(rnode): self.row_flag = True   # Decimal arithmetic is done in floats by sqlite
            except OverflowError: pass
        try:
            if opn == 'Eq': return a == b
            if opn == 'NotEq': return a != b
            if opn == 'Lt': return a < b
            if opn == 'LtE': return a <= b
            if opn == 'Gt': return a > b
            if opn == 'GtE': return a >= b
        except TypeError: raise NoReference('comparison type error')
        raise Unsupported('cmp op ' + opn)

    def contains(self, x, coll, rnode=None, ignore_none=False):
        if coll is U or x is U: raise Unsupported('in with UNKNOWN')
        if isinstance(coll, str) or (coll is None and not isinstance(x, (MObj, tuple)) and (x is None or isinstance(x, str))):
            if x is None or coll is None: return self.amb()
            if not isinstance(x, str): raise NoReference('non-str in str')
            return x in coll
        if coll is None: return self.amb()
        if not isinstance(coll, (list, tuple, set, frozenset)): raise Unsupported('in %r' % type(coll).__name__)
        items = list(coll)
        if not items: return False
        if x is None: return U
        res, saw_none = False, False
        subq = rnode is not None and not isinstance(rnode, (ast.List, ast.Tuple, ast.Name, ast.Constant))
        for it in items:
            if it is None: saw_none = True; continue
            r = self.compare(ast.Eq(), x, it)
            if r is True: return True
            if r is U: saw_none = True
        if saw_none and not (subq and ignore_none): return self.amb()    # IN (.., NULL) is unknown in SQL, False in python
        return False                        # x NOT IN (subquery): pony filters missing elements out, as python's != does

    def ev_Subscript(self, node, env):
        s = self.ev(node.value, env)
        if s is U: raise Unsupported('subscript of UNKNOWN')
        if s is not None and not isinstance(s, str): raise Unsupported('subscript of %s' % type(s).__name__)
        sl = node.slice
        if isinstance(sl, ast.Slice):
            if sl.step is not None: raise Unsupported('slice step')
            lo = None if sl.lower is None else self.ev(sl.lower, env)
            hi = None if sl.upper is None else self.ev(sl.upper, env)
            for b in (lo, hi):
                if b is not None and (isinstance(b, bool) or not isinstance(b, int)): raise Unsupported('slice bound')
            if s is None: return self.nullprop()
            def static_int(n):
                if n is None: return True, None
                if isinstance(n, ast.Constant): return True, n.value
                if isinstance(n, ast.UnaryOp) and isinstance(n.op, ast.USub) and isinstance(n.operand, ast.Constant):
                    return True, -n.operand.value
                if isinstance(n, ast.Name) and n.id in self.params: return True, self.params[n.id]
                return False, None
            ok1, v1 = static_int(sl.lower); ok2, v2 = static_int(sl.upper)
            if ok1 and ok2 and v1 in (None, 0) and v2 == -1 and not self.is_external(node):
                self.sites.add('slice_stop_m1')
                if 'slice_stop_m1' in self.dev: return s
            return s[lo:hi]
        i = self.ev(sl, env)
        if i is None and s is not None: return self.pyraise('string index None')     # python: TypeError -> the row is free
        if i is None or s is None: return self.nullprop()
        if isinstance(i, bool) or not isinstance(i, int): raise Unsupported('index type')
        try: return s[i]
        except IndexError:
            return self.pyraise('index out of range') if self.strict else self._soft(' ', '')

    def _soft(self, why, value):
        self.row_flag = True
        return value

    def ev_JoinedStr(self, node, env):
        out = []
        for v in node.values:
            if isinstance(v, ast.Constant): out.append(v.value); continue
            if isinstance(v, ast.FormattedValue):
                if v.format_spec is not None or v.conversion not in (-1, 115): raise Unsupported('fstring spec')
                x = self.ev(v.value, env)
                if x is None: return self.nullprop()
                if isinstance(x, float): self.row_flag = True        # float text formatting is not modelled
                if isinstance(x, bool): x = int(x)
                if not isinstance(x, (str, int)): raise Unsupported('fstring value')
                out.append(str(x)); continue
            raise Unsupported('fstring part')
        return ''.join(out)

    def ev_GeneratorExp(self, node, env):
        """Nested generator -> bag (list) of element values."""
        return self.gen_bag(node, env)

    def gen_bag(self, node, env):
        saved_tenv, saved_strict = self.tenv, self.strict
        self.tenv = dict(self.tenv); self.strict = False
        try:
            self.bind_static(node.generators)
            if any(self.has_qaggr(g) for gen in node.generators for g in gen.ifs) or self.has_qaggr(node.elt):
                raise Unsupported('aggregate inside nested generator')
        except Unsupported:
            self.tenv, self.strict = saved_tenv, saved_strict
            raise
        self.depth += 1
        out = []
        try:
            self.bind_static(node.generators)
            level_vars = {n.id for g in node.generators for n in ast.walk(g.target) if isinstance(n, ast.Name)}
            for e in self.bindings(node.generators, 0, dict(env)):
                if all(self.cond(c, e) is True for gen in node.generators for c in gen.ifs):
                    if self.optref_drop(node, level_vars, e): continue
                    v = self.ev(node.elt, e)
                    out.append(None if v is U else v)
        finally:
            self.tenv, self.strict = saved_tenv, saved_strict
            self.depth -= 1
        return out

    def bindings(self, generators, i, env, outer=False):
        if i == len(generators):
            yield env; return
        g = generators[i]
        it = self.ev(g.iter, env)
        if it is None: it = set()
        if outer and isinstance(g.target, ast.Name) and isinstance(it, (set, frozenset)) and not it and (
                g.target.id in self.leftjoin_targets or
                (self.o2o_active and 'o2o_left_join' in self.dev and isinstance(g.iter, ast.Attribute))):
            # LEFT JOIN: an empty collection still yields one binding, with a NULL item
            for e3 in self.bindings(generators, i + 1, dict(env, **{g.target.id: None}), outer): yield e3
            return
        if isinstance(g.target, ast.Name):
            t = self.stype(g.iter)
            if isinstance(t, tuple) and t[0] in ('set', 'ent'): self.tenv[g.target.id] = ('ent', t[1])
            elif isinstance(g.iter, ast.GeneratorExp) or (isinstance(g.iter, ast.Call)):
                inner = g.iter if isinstance(g.iter, ast.GeneratorExp) else (g.iter.args[0] if g.iter.args else None)
                if isinstance(inner, ast.GeneratorExp):
                    et = self._elt_type(inner)
                    if et is not None: self.tenv[g.target.id] = et
        if not isinstance(it, (list, set, frozenset, tuple)): raise Unsupported('iteration over %s' % type(it).__name__)
        items = sorted(it, key=lambda o: (o._root, o.id)) if all(isinstance(o, MObj) for o in it) else list(it)
        for o in items:
            e2 = dict(env)
            if isinstance(g.target, ast.Name): e2[g.target.id] = o
            elif isinstance(g.target, ast.Tuple) and isinstance(o, tuple) and len(o) == len(g.target.elts):
                for n, v in zip(g.target.elts, o): e2[n.id] = v
            else: raise Unsupported('loop target')
            for e3 in self.bindings(generators, i + 1, e2, outer): yield e3

    def _elt_type(self, gen):
        saved = self.tenv
        self.tenv = dict(saved)
        try:
            for g in gen.generators:
                if isinstance(g.target, ast.Name):
                    t = self.stype(g.iter)
                    if isinstance(t, tuple) and t[0] in ('set', 'ent'): self.tenv[g.target.id] = ('ent', t[1])
            t = self.stype(gen.elt)
            return t if isinstance(t, tuple) and t[0] == 'ent' else None
        finally: self.tenv = saved

    # calls -----------------------------------------------------------------------------------------------------------
    def ev_Call(self, node, env):
        f = node.func
        if isinstance(f, ast.Name): return self.call_func(f.id, node, env)
        if isinstance(f, ast.Attribute): return self.call_method(f, node, env)
        raise Unsupported('call form')

    def kwargs(self, node, env):
        return {k.arg: self.ev(k.value, env) for k in node.keywords}

    def aggregate(self, name, values, distinct=None, sep=None):
        vals = [v for v in values if v is not None and v is not U]
        if any(isinstance(v, GroupConcat) for v in vals): raise Unsupported('aggregate over group_concat values')
        if name == 'count':
            if distinct is False: return len(vals)
            return len({canon(v) for v in vals})
        if distinct: 
            seen, out = set(), []
            for v in vals:
                k = canon(v)
                if k not in seen: seen.add(k); out.append(v)
            vals = out
        tagged = bool(vals) and all(isinstance(v, (bool, BoolTyped)) for v in vals)
        if name == 'sum':
            tot = 0
            for v in vals:
                if not isinstance(v, NUM): raise NoReference('sum of non-numbers')
                tot = tot + v
            return BoolTyped(int(tot)) if tagged else tot
        if not vals: return None
        if name == 'avg':
            for v in vals:
                if not isinstance(v, NUM): raise NoReference('avg of non-numbers')
            return float(sum(float(v) for v in vals) / len(vals))
        if name in ('min', 'max'):
            if any(isinstance(v, MObj) for v in vals): raise NoReference('min/max of entities')
            if any(isinstance(v, DecText) for v in vals) and len(vals) > 1:
                self.sites.add('dec_param_text')         # sqlite orders every number before every text
                if 'dec_param_text' in self.dev:
                    key = lambda v: (1, str(v)) if isinstance(v, DecText) else (0, v)
                    return min(vals, key=key) if name == 'min' else max(vals, key=key)
            try: r = min(vals) if name == 'min' else max(vals)
            except TypeError: raise NoReference('min/max mixed types')
            return BoolTyped(int(r)) if tagged and isinstance(r, BoolTyped) else r
        if name == 'group_concat':
            parts = []
            for v in vals:
                if isinstance(v, MObj): v = v.id
                if isinstance(v, bool): v = int(v)
                if isinstance(v, float): self.row_flag = True
                parts.append(v)
            return GroupConcat(parts, ',' if sep is None else sep) if parts else None
        raise Unsupported('aggregate ' + name)

    def call_func(self, name, node, env):
        args = node.args
        if name in AGGS:
            if self.is_qaggr(node): raise Unsupported('query-level aggregate in row context')
            if name in ('min', 'max') and len(args) > 1:
                vals = [self.ev(a, env) for a in args]
                if any(v is None for v in vals): return self.nullprop()
                try: return min(vals) if name == 'min' else max(vals)
                except TypeError: raise NoReference('min/max mixed')
            kw = self.kwargs(node, env)
            g = args[0]
            if isinstance(g, ast.Call) and isinstance(g.func, ast.Name) and g.func.id in ('select', 'distinct') and g.args: g = g.args[0]
            if isinstance(g, ast.GeneratorExp):
                own = {x.id for c in g.generators for x in ast.walk(c.target) if isinstance(x, ast.Name)}
                names = {x.id for x in ast.walk(g.elt) if isinstance(x, ast.Name)}
                if not (names & own) and any(x in env and x not in self.params for x in names):
                    self.sites.add('outer_aggr_arg')
            saved, self.strict = self.strict, False
            try: coll = self.ev(args[0], env)
            finally: self.strict = saved
            if coll is None: coll = []
            if not isinstance(coll, (list, set, frozenset)): raise Unsupported('aggregate over %r' % type(coll).__name__)
            sep = kw.get('sep')
            if len(args) > 1 and name == 'group_concat': sep = self.ev(args[1], env)
            return self.aggregate(name, list(coll), kw.get('distinct'), sep)
        if name in ('select', 'JOIN'):
            return self.ev(args[0], env)
        if name == 'distinct':
            v = self.ev(args[0], env)
            if isinstance(v, list):
                seen, out = set(), []
                for x in v:
                    k = canon(x)
                    if k not in seen: seen.add(k); out.append(x)
                return out
            return v
        if name == 'exists':
            saved, self.strict = self.strict, False
            try:
                v = self.ev(args[0], env)
                if isinstance(v, (set, frozenset)): return len(v) > 0
                if not isinstance(v, list): raise Unsupported('exists of %s' % type(v).__name__)
                if all(isinstance(x, MObj) for x in v): return len(v) > 0
                raise Unsupported('exists over non-entity elements (pony tests element truth)')
            finally: self.strict = saved
        if name == 'len':
            v = self.ev(args[0], env)
            if v is None: return self.nullprop()
            if isinstance(v, str): return len(v)
            if isinstance(v, (set, frozenset)): return len(v)
            if isinstance(v, list): return len({canon(x) for x in v if x is not None})
            raise Unsupported('len of %s' % type(v).__name__)
        vals = [self.ev(a, env) for a in args]
        if any(v is U for v in vals): raise Unsupported('UNKNOWN as function argument')
        if any(isinstance(v, GroupConcat) for v in vals): raise Unsupported('group_concat value used as an operand')
        if name == 'abs':
            if vals[0] is None: return self.nullprop()
            if not isinstance(vals[0], NUM): raise Unsupported('abs arg')
            if isinstance(vals[0], (bool, BoolTyped)): return BoolTyped(abs(int(vals[0])))
            return abs(vals[0])
        if name == 'coalesce':
            allbool = all(self.stype(a) == 'bool' for a in args)
            for v in vals:
                if v is not None: return int(v) if isinstance(v, BoolTyped) and not allbool else v
            return None
        if name == 'concat':
            out = []
            for v in vals:
                if v is None: return self.nullprop()
                if isinstance(v, bool): v = int(v)
                if isinstance(v, float): self.row_flag = True       # float text formatting is not modelled
                if isinstance(v, (Decimal, date, MObj)): raise Unsupported('concat arg')
                out.append(str(v))
            return ''.join(out)
        if name == 'between':
            x, a, b = vals
            return self.t_and([self.compare(ast.LtE(), a, x), self.compare(ast.LtE(), x, b)])
        if name == 'isinstance':
            o = vals[0]
            if o is None: return self.pyraise('isinstance of None') or False
            cls = node.args[1]
            names = [c.id for c in cls.elts] if isinstance(cls, ast.Tuple) else [cls.id]
            return any(self.schema.is_sub(o._ent, n) for n in names)
        if name == 'date': return date(*vals)
        if name == 'timedelta':
            kw = self.kwargs(node, env)
            return timedelta(*vals, **kw)
        if name == 'Decimal': return Decimal(vals[0])
        if name in ('int', 'float', 'str'):
            v = vals[0]
            if v is None: return self.nullprop()
            if name == 'int':
                if isinstance(v, (int, float)): 
                    try: return int(v)
                    except (OverflowError, ValueError): return self.pyraise('int()')
                raise Unsupported('int() arg')
            if name == 'float':
                if isinstance(v, NUM): return float(v)
                raise Unsupported('float() arg')
            if isinstance(v, bool): raise Unsupported('str(bool)')
            if isinstance(v, int) or isinstance(v, str): return str(v)
            raise Unsupported('str() arg')
        if name == 'desc': raise Unsupported('desc outside order_by')
        raise Unsupported('function ' + name)

    def call_method(self, f, node, env):
        name = f.attr
        if name in ('select', 'filter', 'exists') and node.args and isinstance(node.args[0], ast.Lambda):
            coll = self.ev(f.value, env)
            lam = node.args[0]
            var = lam.args.args[0].arg
            saved_tenv, saved_strict = self.tenv, self.strict
            self.tenv = dict(self.tenv); self.strict = False
            t = self.stype(f.value)
            if isinstance(t, tuple) and t[0] == 'set': self.tenv[var] = ('ent', t[1])
            self.depth += 1
            try:
                out = [o for o in sorted(coll, key=lambda o: o.id) if self.cond(lam.body, dict(env, **{var: o})) is True
                       and not self.optref_drop(lam, {var}, dict(env, **{var: o}))]
            finally:
                self.tenv, self.strict = saved_tenv, saved_strict
                self.depth -= 1
            return (len(out) > 0) if name == 'exists' else set(out)
        base = self.ev(f.value, env)
        if isinstance(base, tuple) and len(base) == 3 and base[0] == 'hybrid':
            raise Unsupported('method object')
        if isinstance(base, MObj):
            h = self.schema.ents[base._ent].all_hybrids.get(name)
            if h is None or h.kind != 'method': raise Unsupported('method %s' % name)
            return self.call_hybrid(h, base, [self.ev(a, env) for a in node.args], self.kwargs(node, env))
        if isinstance(base, (set, frozenset, list)):
            if name == 'is_empty': return len(base) == 0
            if name in ('select', 'filter') and not node.args: return base
            if name == 'exists' and not node.args: return len(base) > 0
            if name == 'count': return len({canon(x) for x in base if x is not None})
            raise Unsupported('collection method ' + name)
        args = [self.ev(a, env) for a in node.args]
        if isinstance(base, GroupConcat) or any(isinstance(a, GroupConcat) for a in args):
            raise Unsupported('group_concat value used as an operand')
        if name in ('startswith', 'endswith'):
            if base is None or args[0] is None: return self.amb()
            if base is U or not isinstance(base, str) or not isinstance(args[0], str): raise Unsupported('startswith args')
            return getattr(base, name)(args[0])
        if name in ('upper', 'lower', 'strip', 'lstrip', 'rstrip'):
            if base is None or any(a is None for a in args): return self.nullprop()
            if not isinstance(base, str): raise Unsupported('str method on %s' % type(base).__name__)
            if name in ('upper', 'lower'): return getattr(base, name)()
            if args: return getattr(base, name)(args[0])
            py = getattr(base, name)()
            lite = getattr(base, name)(' ')
            if py != lite and not self.is_external(node):
                self.sites.add('strip_spaces_only')
                if 'strip_spaces_only' in self.dev: return lite
            return py
        if base is None: return self.pyraise('method of None')
        raise Unsupported('method ' + name)

    def ev_Lambda(self, node, env): raise Unsupported('lambda value')


class BoolTyped(int):
    """Result of bool (+|-|*) bool: pony types the expression bool, so a PROJECTED value goes through bool()."""


class DecText(Decimal):
    """A Decimal that pony binds as a TEXT parameter (any variable-free Decimal expression other than a bare
    Decimal('...') literal).  Arithmetic gives plain numbers again; CASE/coalesce pass the text through."""


class _DateTimeText(object):
    """date +/- PARAMETER timedelta is emitted as datetime(julianday(x) + ?) -> 'YYYY-MM-DD HH:MM:SS' text."""
    def __init__(self, d): self.d, self.text = d, d.isoformat() + ' 00:00:00'


# ----------------------------------------------------------------------------------------------------------------
# 6. canonical values and tolerant comparison
# ----------------------------------------------------------------------------------------------------------------
def canon(v):
    """Canonical hashable form: bool==int, ints/floats/Decimals numerically, entities by (root, pk, class)."""
    if v is None: return None
    if v is U: return None
    if isinstance(v, bool): return int(v)
    if isinstance(v, int): return v if abs(v) < 2 ** 53 else float('%.12g' % v)
    if isinstance(v, Decimal): v = float(v)
    if isinstance(v, float):
        if v != v: return ('nan',)
        if abs(v) < 2 ** 53 and v == int(v): return int(v)
        return float('%.12g' % v)
    if isinstance(v, str): return v
    if isinstance(v, _DateTimeText): return ('d', v.d.isoformat())
    if isinstance(v, date): return ('d', v.isoformat())
    if isinstance(v, timedelta): return ('td', float('%.9g' % v.total_seconds()))
    if isinstance(v, MObj): return ('@', v._root, v.id, v._ent)
    if isinstance(v, GroupConcat): return ('gc', tuple(sorted(v.parts)), v.sep)
    if isinstance(v, tuple):
        if len(v) == 4 and v[0] == '@': return v
        return tuple(canon(i) for i in v)
    if isinstance(v, list): return tuple(canon(i) for i in v)
    return ('?', repr(v))


def approx(a, b):
    if a == b: return True
    if isinstance(a, (int, float)) and isinstance(b, (int, float)) and not isinstance(a, bool):
        # relative tolerance, plus an absolute one: Decimal/float arithmetic is done in binary REAL arithmetic by sqlite and
        # projected expressions are not quantized, so an exact 0 comes back as 5e-15
        return abs(a - b) <= 1e-9 * max(abs(a), abs(b)) or abs(a - b) <= 1e-9
    if isinstance(a, tuple) and isinstance(b, tuple) and len(a) == len(b):
        if a and a[0] == 'gc' and isinstance(b, str): return False
        return all(approx(x, y) for x, y in zip(a, b))
    return False


def match_gc(ref, pony):
    """ref: canonical GroupConcat ('gc', parts, sep); pony: str or None."""
    parts, sep = ref[1], ref[2]
    if not parts: return pony is None
    if not isinstance(pony, str): return False
    if sep == '' or any(sep in p for p in parts):
        return sorted(pony) == sorted(sep.join(parts))        # weak: same characters
    return tuple(sorted(pony.split(sep))) == tuple(parts)


def value_match(ref, pony):
    if isinstance(ref, tuple) and ref and ref[0] == 'gc': return match_gc(ref, pony)
    if isinstance(ref, tuple) and isinstance(pony, tuple) and len(ref) == len(pony) and not (ref and ref[0] in ('@', 'd', 'td')):
        return all(value_match(r, p) for r, p in zip(ref, pony))
    return approx(ref, pony)


def has_gc(v):
    return isinstance(v, tuple) and bool(v) and (v[0] == 'gc' or any(has_gc(i) for i in v if isinstance(i, tuple)))


def counter_diff(need, have):
    """Multiset matching with tolerance: returns (unmatched from need, unmatched from have)."""
    need, have = Counter(need), Counter(have)
    common_ = need & have
    need, have = need - common_, have - common_
    if not need or not have: return need, have
    rest_have = list(have.elements())
    left = Counter()
    for n in need.elements():
        for i, h in enumerate(rest_have):
            if value_match(n, h):
                del rest_have[i]; break
        else: left[n] += 1
    return left, Counter(rest_have)


# ----------------------------------------------------------------------------------------------------------------
# 7. reference of a whole program
# ----------------------------------------------------------------------------------------------------------------
class Row(object):
    __slots__ = ('incA', 'incB', 'flag', 'valA', 'valB', 'env')
    def definite(self):
        return not self.flag and self.incA == self.incB and (not self.incA or self.valA == self.valB)


class RefResult(object):
    """must/may are Counters of canonical row values; compare() applies the set/bag/list discipline."""
    def __init__(self):
        self.kind = 'rows'
        self.must, self.may = Counter(), Counter()
        self.flagged = False            # some source row would make python raise -> surplus rows are no_reference
        self.uncertain = False          # some row is free (ambiguous reading or flagged)
        self.mode = 'set'               # set | bag | list
        self.ordered = None             # reference list when mode == 'list'
        self.no_dups = False            # result must not contain duplicates (entity results, distinct())
        self.alts = None                # for aggregated queries with uncertain rows: acceptable alternative results
        self.value = None               # scalar programs
        self.sites = set()
        self.aggregated = False
        self.nrows_source = 0
        self.order_check = None         # callable(pony_rows) -> None | str describing an ordering violation
        self.unpredictable = False
    def summary(self):
        if self.kind == 'scalar': return {'value': enc_canon(self.value), 'alts': [enc_canon(a) for a in (self.alts or [])]}
        return {'must': sorted((repr(k), n) for k, n in self.must.items())[:40],
                'may_extra': sorted((repr(k), n) for k, n in (self.may - self.must).items())[:40],
                'mode': self.mode, 'flagged': self.flagged}


def enc_canon(v):
    try: json.dumps(v); return v
    except TypeError: return repr(v)


def parse_src(src):
    tree = ast.parse('(' + src + ')', mode='eval').body
    if not isinstance(tree, ast.GeneratorExp): raise Unsupported('not a generator expression')
    return tree


def split_and(node):
    if isinstance(node, ast.BoolOp) and isinstance(node.op, ast.And):
        out = []
        for v in node.values: out.extend(split_and(v))
        return out
    return [node]


def eval_rows(it, tree):
    """Non-aggregated query -> list of Row."""
    rows = []
    conds = [c for g in tree.generators for c in g.ifs]
    it.tenv = {}
    it.bind_static(tree.generators)
    it.o2o_active = it.find_o2o_reads(tree)
    if it.o2o_active and any(it.is_coll(g.iter) and isinstance(g.iter, ast.Attribute) for g in tree.generators):
        it.sites.add('o2o_left_join')
    it.mode, it.row_flag, it.amb_seen, it.strict = 'A', False, False, False
    all_envs = list(it.bindings(tree.generators, 0, {}, outer=True))
    src_flag, only_b = it.row_flag, set()
    if it.amb_seen:
        # the iterated source itself (a subquery) is ambiguous: bindings that exist only under reading B are free
        def ekey(e): return tuple(sorted((k, id(v) if isinstance(v, MObj) else repr(canon(v))) for k, v in e.items()))
        have = {ekey(e) for e in all_envs}
        it.mode = 'B'
        for e in it.bindings(tree.generators, 0, {}, outer=True):
            if ekey(e) not in have: all_envs.append(e); only_b.add(id(e))
    level_vars = {n.id for g in tree.generators for n in ast.walk(g.target) if isinstance(n, ast.Name)}
    extra = [tree.elt] if it._opt_attr(tree.elt) is not None else []
    for env in all_envs:
        r = Row(); r.env = env
        r.flag = src_flag
        res = {}
        for mode in ('A', 'B'):
            it.mode, it.row_flag, it.amb_seen, it.strict = mode, False, False, False
            inc = it.t_and([it.cond(c, env) for c in conds]) is True
            val = None
            if it.optref_drop(tree, level_vars, env, extra): inc = False
            if inc:
                it.strict = True
                try: val = it.ev(tree.elt, env)
                except PyWouldRaise:
                    it.strict = False; it.row_flag = True
                    val = it.ev(tree.elt, env)
                finally: it.strict = False
                if val is U or (isinstance(val, tuple) and any(v is U for v in val)):
                    it.row_flag = True
                if isinstance(val, (set, frozenset, list)) or (isinstance(val, tuple) and any(
                        isinstance(v, (set, frozenset, list)) for v in val)):
                    raise Unsupported('collection-valued projection (pony flattens it)')
                if isinstance(val, DecText) or (isinstance(val, tuple) and any(isinstance(v, DecText) for v in val)):
                    it.dectext_projected = True
                val = it.project_bool(val)
                val = canon(val)
            r.flag = r.flag or it.row_flag
            res[mode] = (inc, val)
            if mode == 'A' and not it.amb_seen:
                res['B'] = res['A']; break
        (r.incA, r.valA), (r.incB, r.valB) = res['A'], res['B']
        if id(env) in only_b: r.incA = False
        rows.append(r)
    return rows


def eval_aggregated(it, tree):
    """Aggregated query (query-level aggregates in the projection and/or conditions) -> (result list, uncertain?)."""
    elts = tree.elt.elts if isinstance(tree.elt, ast.Tuple) else [tree.elt]
    def has_subquery(n):
        for x in ast.walk(n):
            if isinstance(x, (ast.GeneratorExp, ast.Lambda)): return True
            if isinstance(x, ast.Call) and isinstance(x.func, ast.Name) and x.func.id in AGGS + ('len', 'exists') and not it.is_qaggr(x) \
                    and not (x.func.id in ('min', 'max') and len(x.args) > 1) and not (x.func.id == 'len' and not it.is_coll(x.args[0])): return True
            if isinstance(x, ast.Attribute):
                t = it.stype(x.value)
                if isinstance(t, tuple) and t[0] == 'ent':
                    h = it.schema.ents[t[1]].all_hybrids.get(x.attr)
                    if h is not None and any(isinstance(y, ast.Call) and isinstance(y.func, ast.Name) and y.func.id in AGGS
                                             for y in ast.walk(h.tree)): return True
                if isinstance(t, tuple) and t[0] in ('set', 'bag'): return True
        return False
    rewritten = getattr(it, 'rewritten', False)
    key_idx = [i for i, e in enumerate(elts) if not it.has_qaggr(e) and not (rewritten and has_subquery(e))]
    where, having = [], []
    for g in tree.generators:
        for c in g.ifs:
            for part in split_and(c): (having if it.has_qaggr(part) else where).append(part)
    if having and not key_idx: raise Unsupported('HAVING without grouping columns')
    if not rewritten and any(has_subquery(e) for e in elts):
        raise Unsupported('aggregated query mixing query-level aggregates with subqueries/collections')
    envs = list(it.bindings(tree.generators, 0, {}, outer=True))
    level_vars = {n.id for g in tree.generators for n in ast.walk(g.target) if isinstance(n, ast.Name)}
    uncertain = [False]

    def run(mode):
        it.mode = mode
        groups = OrderedDict()
        for env in envs:
            it.row_flag, it.amb_seen, it.strict = False, False, False
            inc = it.t_and([it.cond(c, env) for c in where]) is True
            if it.amb_seen or it.row_flag: uncertain[0] = True
            if not inc: continue
            if it.optref_drop(tree, level_vars, env): continue
            it.row_flag = False
            kv = [it.ev(elts[i], env) for i in key_idx]
            if any(isinstance(v, DecText) for v in kv): it.sites.add('dec_param_text')
            key = tuple(('$text', str(v)) if isinstance(v, DecText) and 'dec_param_text' in it.dev else canon(v) for v in kv)
            if it.row_flag: uncertain[0] = True
            groups.setdefault(key, []).append(env)
        if not key_idx and not groups: groups[()] = []
        out = []
        for key, genvs in groups.items():
            it.row_flag, it.amb_seen = False, False
            ok = it.t_and([it.truth(ev_group(it, h, genvs)) for h in having]) is True
            if ok:
                vals = [ev_group(it, e, genvs) for e in elts]
                vals = [None if v is U else it.project_bool(v) for v in vals]
                out.append(canon(vals[0]) if not isinstance(tree.elt, ast.Tuple) else tuple(canon(v) for v in vals))
            if it.row_flag or it.amb_seen: uncertain[0] = True
        return out
    a = run('A')
    b = run('B') if uncertain[0] else a
    return a, b, uncertain[0]


def ev_group(it, node, genvs):
    """Evaluate an expression over a group of bindings: query-level aggregates range over the group, every other
    sub-expression is a bare column (the same for all rows of a well-formed group; else `unpredictable`)."""
    def one_aggr(n):
        name = n.func.id
        kw = {k.arg: it.ev(k.value, {}) for k in n.keywords}
        if not n.args or (isinstance(n.args[0], ast.Constant) and n.args[0].value == '*'):
            return len(genvs)
        vals = []
        for env in genvs:
            it.strict = False
            vals.append(it.ev(n.args[0], env))
        if name == 'count' and it.stype(n.args[0]) == 'bool': raise Unsupported('count of a boolean expression')
        sep = kw.get('sep')
        if name == 'group_concat' and len(n.args) > 1: sep = it.ev(n.args[1], {})
        return it.aggregate(name, vals, kw.get('distinct'), sep)
    if it.is_qaggr(node): return one_aggr(node)
    aggs = {}
    if it.has_qaggr(node):
        class R(ast.NodeTransformer):
            def visit_GeneratorExp(self, n): return n
            def visit_Lambda(self, n): return n
            def visit_Call(self, n):
                if it.is_qaggr(n):
                    nm = '_agg%d' % len(aggs)
                    aggs[nm] = one_aggr(n)
                    return ast.copy_location(ast.Name(nm, ast.Load()), n)
                return self.generic_visit(n)
        node = ast.fix_missing_locations(R().visit(copy.deepcopy(node)))
    if not genvs:
        saved = it.null_item_ok
        it.null_item_ok = True
        try: return it.ev(node, dict({k: None for k in it.tenv}, **aggs))
        finally: it.null_item_ok = saved
    v0 = it.ev(node, dict(genvs[0], **aggs))
    if len(genvs) > 1 and not isinstance(node, (ast.Constant, ast.Name)):
        c0 = canon(None if v0 is U else v0)
        for e in genvs[1:]:
            v = it.ev(node, dict(e, **aggs))
            if canon(None if v is U else v) != c0:
                it.unpredictable = True; break           # bare column in an aggregate query: backend picks any row
    return v0


def aggr_opt_rewrite(it, tree):
    """Model of pony's aggregated-subquery optimisation (Query.__init__ -> translator.can_be_optimized): a query that
    aggregates exactly one collection path (count(p.items), sum(p.items.price), p.items.count(), hybrid n_items ...)
    and whose every joined table alias is a STRING PREFIX of that path ('p-items'.startswith('p')) is re-translated as
    FROM p LEFT JOIN items ... GROUP BY <non-aggregated projection items>, every join becoming a LEFT JOIN.
    Returns (equivalent tree with an extra `for _j in p.items` and query-level aggregates over _j, left-joined targets)
    or None when the optimisation does not apply / is not modelled."""
    # cheap pre-scan: is there any collection aggregate at all?
    hyb = getattr(it.schema, '_aggr_hybrids', None)
    if hyb is None:
        hyb = it.schema._aggr_hybrids = {h.name for e in it.schema.ents.values() for h in e.all_hybrids.values()
                                         if any(isinstance(y, ast.Call) and isinstance(y.func, ast.Name) and y.func.id in AGGS + ('len',)
                                                for y in ast.walk(h.tree))}
    for n in ast.walk(tree):
        if isinstance(n, ast.Call) and isinstance(n.func, ast.Name) and n.func.id in AGGS + ('len',) and n.args \
                and isinstance(n.args[0], ast.Attribute): break
        if isinstance(n, ast.Attribute) and (n.attr == 'count' or n.attr in hyb): break
    else: return None
    tree_in = tree
    tree = flatten_source(it, tree)
    flattened = tree is not tree_in
    gens = tree.generators
    g0 = gens[0]
    if not (isinstance(g0.target, ast.Name) and isinstance(g0.iter, ast.Name) and g0.iter.id in it.schema.ents): return None
    loopvars = OrderedDict([(g0.target.id, g0.iter.id)])
    left_targets = set()
    for g in gens[1:]:
        if not (isinstance(g.target, ast.Name) and isinstance(g.iter, ast.Attribute) and isinstance(g.iter.value, ast.Name)
                and g.iter.value.id in loopvars): return None
        a = it.schema.ents[loopvars[g.iter.value.id]].attrs.get(g.iter.attr)
        if a is None or not a.is_set: return None
        loopvars[g.target.id] = a.typ
        left_targets.add(g.target.id)
    paths, blocked = set(), [False]

    def expand_hybrids(node):
        """Inline hybrid properties/methods of the loop variables so that their bodies are analysed like query text."""
        class Tr(ast.NodeTransformer):
            def visit_Attribute(self, n):
                n = self.generic_visit(n)
                if isinstance(n.value, ast.Name) and n.value.id in loopvars:
                    h = it.schema.ents[loopvars[n.value.id]].all_hybrids.get(n.attr)
                    if h is not None and h.kind == 'property':
                        return _subst(copy.deepcopy(h.tree), {'self': ast.Name(n.value.id, ast.Load())})
                return n
            def visit_Call(self, n):
                if isinstance(n.func, ast.Attribute) and isinstance(n.func.value, ast.Name) and n.func.value.id in loopvars:
                    h = it.schema.ents[loopvars[n.func.value.id]].all_hybrids.get(n.func.attr)
                    if h is not None and h.kind == 'method':
                        m = {'self': ast.Name(n.func.value.id, ast.Load())}
                        for (a, d), v in zip(h.args, n.args): m[a] = self.visit(v)
                        for (a, d) in h.args:
                            if a not in m: m[a] = ast.parse(d, mode='eval').body
                        return _subst(copy.deepcopy(h.tree), m)
                return self.generic_visit(n)
        return ast.fix_missing_locations(Tr().visit(copy.deepcopy(node)))

    tree2 = expand_hybrids(tree)

    def set_path(node):
        """node is v.S or v.S.attr -> (v, S, attr|None)"""
        if isinstance(node, ast.Attribute) and isinstance(node.value, ast.Name) and node.value.id in loopvars:
            a = it.schema.ents[loopvars[node.value.id]].attrs.get(node.attr)
            if a is not None and a.is_set: return node.value.id, a.name, None
        if isinstance(node, ast.Attribute) and isinstance(node.value, ast.Attribute):
            p = set_path(node.value)
            if p is not None and p[2] is None:
                b = it.schema.ents[it.schema.ents[loopvars[p[0]]].attrs[p[1]].typ].attrs.get(node.attr)
                if b is not None and b.is_scalar: return p[0], p[1], node.attr
        return None

    class Rw(ast.NodeTransformer):
        def __init__(self): self.depth = 0
        def visit_GeneratorExp(self, n):
            if n is tree2: return self.generic_visit(n)
            self.depth += 1
            try: return self.generic_visit(n)
            finally: self.depth -= 1
        def visit_Lambda(self, n):
            self.depth += 1
            try: return self.generic_visit(n)
            finally: self.depth -= 1
        def visit_comprehension(self, n):
            if n in tree2.generators:              # the loop sources themselves are not aggregate sites
                n.ifs = [self.visit(c) for c in n.ifs]
                return n
            return self.generic_visit(n)
        def visit_Call(self, n):
            f = n.func
            if self.depth == 0 and isinstance(f, ast.Name) and f.id in AGGS + ('len',) and n.args:
                p = set_path(n.args[0])
                if p is not None and (p[2] is not None or f.id in ('count', 'len')):
                    paths.add(p[:2])
                    j = ast.Name('_j', ast.Load())
                    arg = j if p[2] is None else ast.Attribute(j, p[2], ast.Load())
                    return ast.Call(ast.Name('count' if f.id == 'len' else f.id, ast.Load()), [arg] + n.args[1:], n.keywords)
            if self.depth == 0 and isinstance(f, ast.Attribute) and f.attr == 'count' and not n.args:
                p = set_path(f.value)
                if p is not None and p[2] is None:
                    paths.add(p[:2])
                    return ast.Call(ast.Name('count', ast.Load()), [ast.Name('_j', ast.Load())], [])
            return self.generic_visit(n)
        def visit_Attribute(self, n):
            # any other join from a loop variable blocks the optimisation: v.ref.attr (attr needs the joined table)
            root = it._root_name(n)
            if isinstance(n.value, ast.Attribute) and root in loopvars:
                bt = it.stype(n.value)
                if isinstance(bt, tuple) and bt[0] == 'ent' and not set_path(n.value):
                    pt = it.stype(n.value.value)
                    ra = it.schema.ents[pt[1]].attrs.get(n.value.attr) if isinstance(pt, tuple) else None
                    if not (n.attr == 'id' and ra is not None and not (ra.reverse.is_ref and ra.kind == 'opt' and ra.reverse.kind == 'req')):
                        blocked[0] = True
            if isinstance(n.value, ast.Name) and n.value.id in loopvars:
                a = it.schema.ents[loopvars[n.value.id]].attrs.get(n.attr)
                if a is not None and a.is_ref and a.kind == 'opt' and a.reverse.is_ref and a.reverse.kind == 'req':
                    blocked[0] = True            # reverse one-to-one read joins the other table
            return self.generic_visit(n)
    new = Rw().visit(tree2)
    if blocked[0] or len(paths) != 1: return None
    v, S = next(iter(paths))
    path_str = '%s-%s' % (v, S)
    if not all(path_str.startswith(name) for name in loopvars): return None      # sic: string prefix of the alias
    new.generators.append(ast.comprehension(ast.Name('_j', ast.Store()),
                                            ast.Attribute(ast.Name(v, ast.Load()), S, ast.Load()), [], 0))
    if flattened and len(gens) > 1: return None
    return ast.fix_missing_locations(new), (left_targets | {'_j'}) if not flattened else set()


def flatten_source(it, tree):
    """`... for x in select(v for v in E if c) if d`  ->  `... for x in E if c[v:=x] if d`  (pony merges the two)."""
    g0 = tree.generators[0]
    inner = g0.iter
    if isinstance(inner, ast.Call) and isinstance(inner.func, ast.Name) and inner.func.id == 'select' and inner.args:
        inner = inner.args[0]
    if not (isinstance(inner, ast.GeneratorExp) and isinstance(g0.target, ast.Name) and len(inner.generators) == 1): return tree
    ig = inner.generators[0]
    if not (isinstance(ig.target, ast.Name) and isinstance(inner.elt, ast.Name) and inner.elt.id == ig.target.id
            and isinstance(ig.iter, ast.Name) and ig.iter.id in it.schema.ents): return tree
    new = copy.deepcopy(tree)
    ng0 = new.generators[0]
    m = {ig.target.id: ast.Name(g0.target.id, ast.Load())}
    ng0.ifs = [_subst(copy.deepcopy(c), m) for c in ig.ifs] + ng0.ifs
    ng0.iter = ast.Name(ig.iter.id, ast.Load())
    return ast.fix_missing_locations(new)


def _subst(node, mapping):
    class Sb(ast.NodeTransformer):
        def visit_Name(self, n):
            return copy.deepcopy(mapping[n.id]) if n.id in mapping else n
    return Sb().visit(node)


def scan_shapes(it, tree):
    """Static shape predicates (mechanisms whose deviant answer depends on backend row choice / alias allocation):
    outer_aggr_arg  an aggregate over a nested generator whose element mentions no variable of that generator but an
                    outer one: SQL attributes such an aggregate to the OUTER query, which collapses to one row;
    alias_clash     inside a nested scope, a join-requiring reference chain of an OUTER variable and a table of the
                    nested scope both get the alias derived from the same entity name: the inner one shadows."""
    sites = set()
    def joins(node, own, tenv):
        """(entity names joined by chains rooted at own variables, ... rooted at outer variables) directly in `node`'s
        scope and below."""
        inner, outer = set(), set()
        for n in ast.walk(node):
            if isinstance(n, ast.Attribute) and isinstance(n.value, ast.Attribute):
                saved = it.tenv; it.tenv = tenv
                try: bt = it.stype(n.value); pt = it.stype(n.value.value)
                finally: it.tenv = saved
                if isinstance(bt, tuple) and bt[0] == 'ent' and isinstance(pt, tuple) and pt[0] == 'ent' and n.attr != 'id':
                    root = it._root_name(n)
                    (inner if root in own else outer).add(bt[1])
            if isinstance(n, ast.Attribute):
                saved = it.tenv; it.tenv = tenv
                try: a = it._opt_attr(n)
                finally: it.tenv = saved
                if a is not None and a.reverse.is_ref and a.reverse.kind == 'req':      # reverse one-to-one: needs its table
                    (inner if it._root_name(n) in own else outer).add(a.typ)
        return inner, outer
    def visit(node, tenv, depth):
        for child in ast.iter_child_nodes(node):
            if isinstance(child, ast.GeneratorExp):
                t2 = dict(tenv)
                saved = it.tenv; it.tenv = t2
                try: it.bind_static(child.generators)
                finally: it.tenv = saved
                own = {x.id for g in child.generators for x in ast.walk(g.target) if isinstance(x, ast.Name)}
                if depth >= 0:
                    inner, outer = joins(child, own, t2)
                    for g in child.generators:
                        if isinstance(g.iter, ast.Attribute) and False: pass
                    if inner & outer: sites.add('alias_clash')
                scope_vars.append(own)
                visit(child, t2, depth + 1)
                scope_vars.pop()
            elif isinstance(child, ast.Lambda):
                t2 = dict(tenv)
                own = {a.arg for a in child.args.args}
                coll_ent = None
                if depth >= 1 and isinstance(node, ast.Call) and isinstance(node.func, ast.Attribute):
                    # a collection of a variable bound two or more levels up, iterated inside an intermediate subquery
                    rootv = it._root_name(node.func.value)
                    if rootv is not None and rootv in tenv and rootv not in scope_vars[-1]: sites.add('alias_clash')
                if isinstance(node, ast.Call) and isinstance(node.func, ast.Attribute):
                    saved = it.tenv; it.tenv = tenv
                    try: ct = it.stype(node.func.value)
                    finally: it.tenv = saved
                    if isinstance(ct, tuple) and ct[0] == 'set':
                        coll_ent = ct[1]
                        for v in own: t2[v] = ('ent', ct[1])
                inner, outer = joins(child, own, t2)
                if coll_ent: inner.add(coll_ent)
                if inner & outer: sites.add('alias_clash')
                scope_vars.append(own)
                visit(child, t2, depth + 1)
                scope_vars.pop()
            else:
                if isinstance(child, ast.Call) and isinstance(child.func, ast.Name) and child.func.id in AGGS and child.args:
                    g = child.args[0]
                    if isinstance(g, ast.Call) and isinstance(g.func, ast.Name) and g.func.id in ('select', 'distinct') and g.args: g = g.args[0]
                    if isinstance(g, ast.GeneratorExp):
                        own = {x.id for c in g.generators for x in ast.walk(c.target) if isinstance(x, ast.Name)}
                        names = {x.id for x in ast.walk(g.elt) if isinstance(x, ast.Name)}
                        if not (names & own) and (names & set(tenv)): sites.add('outer_aggr_arg')
                visit(child, tenv, depth)
    t0 = {}
    saved = it.tenv; it.tenv = t0
    try: it.bind_static(tree.generators)
    finally: it.tenv = saved
    scope_vars = [set(t0)]
    visit(tree, t0, 0)
    return sites


def reference(program, mirror, dev=()):
    """Reference result of the program's base query plus the simple C01 chain (distinct / without_distinct /
    order_by).  Longer chains are judged by apply_chain_ref (C24).  Raises Unsupported / NoReference."""
    tree = tree0 = parse_src(program.src)
    it = Interp(mirror, program.params, dev)
    rr = RefResult()
    try:
        it.tenv = {}
        it.bind_static(tree.generators)
        aggregated = it.has_qaggr(tree.elt) or any(it.has_qaggr(c) for g in tree.generators for c in g.ifs)
        rew = None
        if not aggregated:
            try: rew = aggr_opt_rewrite(it, tree)
            except Unsupported: rew = None
            if rew is not None:
                it.sites.add('aggr_optimize')
                if 'aggr_optimize' in it.dev:
                    tree, aggregated = rew[0], True
                    if any(isinstance(n, ast.Compare) and any(isinstance(c, (ast.List, ast.Tuple)) and not c.elts for c in n.comparators)
                           for n in ast.walk(tree0)):
                        it.unpredictable = True      # `x in ()` is rendered as 0 = 1: an aggregate operand vanishes, the join stays
                    it.leftjoin_targets = rew[1]
                    it.null_item_ok, it.rewritten = True, True
                    it.tenv = {}
                    it.bind_static(tree.generators)
        if aggregated:
            it.o2o_active = it.find_o2o_reads(tree)
            if it.o2o_active and any(it.is_coll(g.iter) and isinstance(g.iter, ast.Attribute) for g in tree.generators):
                it.sites.add('o2o_left_join')
            a, b, unc = eval_aggregated(it, tree)
            rr.aggregated = True
            rr.must = rr.may = Counter(a)
            rr.uncertain = unc
            if unc: rr.alts = [Counter(a), Counter(b)]; rr.flagged = True
            rr.mode = 'bag'
        else:
            rows = eval_rows(it, tree)
            rr.nrows_source = len(rows)
            for r in rows:
                if r.definite():
                    if r.incA: rr.must[r.valA] += 1; rr.may[r.valA] += 1
                else:
                    rr.uncertain = True
                    if r.flag: rr.flagged = True
                    if r.incA and r.incB and r.valA == r.valB: rr.may[r.valA] += 1
                    else:
                        if r.incA: rr.may[r.valA] += 1
                        if r.incB: rr.may[r.valB] += 1
            et = it.stype(tree.elt) if not isinstance(tree.elt, ast.Tuple) else None
            is_entity = isinstance(et, tuple) and et[0] == 'ent'
            rr.mode = 'set'
            rr.no_dups = is_entity
            g0 = tree.generators[0]
            if len(tree.generators) == 1 and isinstance(g0.target, ast.Name) and isinstance(g0.iter, ast.Name) \
                    and g0.iter.id in it.schema.ents and not is_entity:
                # one loop over an entity: pony documents an implicit DISTINCT unless the projection contains the object
                # or its WHOLE primary key -- in which case every selected object gives exactly one row
                var, pkn = g0.target.id, it.schema.pk(g0.iter.id)
                elts = tree.elt.elts if isinstance(tree.elt, ast.Tuple) else [tree.elt]
                direct = {e.attr for e in elts if isinstance(e, ast.Attribute) and isinstance(e.value, ast.Name) and e.value.id == var}
                plain = not any(isinstance(x, (ast.GeneratorExp, ast.Lambda)) or (isinstance(x, ast.Call) and isinstance(x.func, ast.Name)
                                and x.func.id in AGGS + ('len', 'exists', 'select')) or (isinstance(x, ast.Attribute) and x.attr in ('count',))
                                for x in ast.walk(tree.elt)) and aggr_opt_rewrite(it, tree) is None
                if any(isinstance(e, ast.Name) and e.id == var for e in elts) or set(pkn) <= direct: rr.mode = 'bag'
                elif plain: rr.no_dups = True
            rr._rows, rr._tree, rr._it, rr._is_entity = rows, tree, it, is_entity
    except RecursionError:
        raise Unsupported('recursion')
    rr.sites = set(it.sites) | scan_shapes(it, tree0)
    rr.unpredictable = it.unpredictable
    for step in program.chain:
        op = step[0]
        if op == 'without_distinct':
            if not rr.aggregated: rr.mode, rr.no_dups = 'bag', False
        elif op == 'distinct':
            if not rr.aggregated: rr.mode, rr.no_dups = 'set', True
        elif op in ('order_by', 'sort_by'):
            rr.no_dups = False
            if not rr.aggregated: rr.order_check = make_order_check(rr, step, program)
            if 'date_param_delta' in it.sites and 'date_param_delta' in it.dev: rr.order_check = None
            if 'bool_arith_bool' in it.sites and 'bool_arith_bool' in it.dev: rr.order_check = None   # sorted by the integer, shown as bool
            if it.dectext_projected:
                # a TEXT-bound Decimal in the ordered projection sorts after every number in sqlite
                rr.sites.add('dec_param_text')
                if 'dec_param_text' in it.dev: rr.order_check = None
        else: raise Unsupported('chain step %s in reference()' % op)
    if it.dectext_projected: rr.sites.add('dec_param_text')
    for sw in ('dec_param_text', 'bool_arith_bool', 'date_param_delta'):
        # values that differ in the database (text '0.00' vs number 0, -1 vs 1 typed bool, datetime text vs date text) but
        # coincide after pony's result conversion: DISTINCT cannot merge them
        if sw in rr.sites and sw in it.dev: rr.no_dups = False
    return rr


def _dir_keys(spec_exprs):
    return spec_exprs


def make_order_check(rr, step, program):
    """Return f(pony_rows) -> None|str checking that pony's sequence is sorted by the requested keys (rows whose key
    contains None are not judged: python has no order for None)."""
    kind, spec = step[1], step[2]
    tree, it = rr._tree, rr._it
    keyfuncs = []     # list of (func(row_value_canonical) -> key, descending)
    if kind == 'numbers':
        for n in spec:
            idx = abs(n) - 1
            keyfuncs.append((lambda row, idx=idx: row[idx] if isinstance(row, tuple) and not (row and row[0] == '@') else row, n < 0))
    else:
        if not (rr._is_entity and len(tree.generators) == 1 and isinstance(tree.elt, ast.Name)): return None
        var = tree.elt.id
        ename = it.stype(tree.elt)[1]
        if kind == 'attrs': exprs = [(ast.parse('%s.%s' % (var, a), mode='eval').body, d) for _e, a, d in spec]
        else:
            text = spec
            node = ast.parse('(' + text + ')', mode='eval').body
            if isinstance(node, ast.Lambda):
                if len(node.args.args) == 1 and node.args.args[0].arg != var:
                    return None
                node = node.body
            elts = node.elts if isinstance(node, ast.Tuple) else [node]
            exprs = []
            for e in elts:
                if isinstance(e, ast.Call) and isinstance(e.func, ast.Name) and e.func.id == 'desc': exprs.append((e.args[0], True))
                else: exprs.append((e, False))
        by_pk = {o.id: o for o in it.m.objs[ename]}
        for node, d in exprs:
            def kf(row, node=node):
                o = by_pk.get(row[2])
                it.tenv = {var: ('ent', ename)}; it.strict = False; it.mode = 'A'
                try: return canon(it.ev(node, {var: o}))
                except (Unsupported, NoReference, PyWouldRaise): return None
            keyfuncs.append((kf, d))
    def check(pony_rows):
        keys = []
        for row in pony_rows:
            k = [f(row) for f, d in keyfuncs]
            if any(x is None or isinstance(x, tuple) and x and x[0] in ('?',) for x in k): return None
            keys.append(k)
        for i in range(len(keys) - 1):
            a, b = keys[i], keys[i + 1]
            for (f, d), x, y in zip(keyfuncs, a, b):
                if isinstance(x, tuple) and x and x[0] == '@': x, y = x[2], y[2]
                try:
                    if x == y and not (isinstance(x, float) or isinstance(y, float)): continue
                    if x == y or approx(x, y): break            # equal up to rounding noise: the database orders them by the noise
                    if (x < y) != (not d): return 'rows %d,%d out of order: %r then %r (desc=%s)' % (i, i + 1, a, b, d)
                except TypeError: return None
                break
        return None
    return check


# ----------------------------------------------------------------------------------------------------------------
# 8. comparison
# ----------------------------------------------------------------------------------------------------------------
def compare(result, rr):
    """-> (status, detail).  status: agree | lenient_agree | disagree | no_reference"""
    if result.kind != 'rows': return 'disagree', 'pony returned a scalar, reference is a row list'
    prow = [canon(v) for v in result.rows]
    if rr.aggregated and rr.alts:
        for alt in rr.alts:
            miss, extra = counter_diff(alt, Counter(prow))
            if not miss and not extra: return 'lenient_agree', 'aggregated with uncertain rows'
        return 'no_reference', 'aggregated query with ambiguous/flagged source rows and no matching reading'
    if rr.mode == 'set' and any(has_gc(k) for k in rr.may):
        # group_concat values: the order of the parts is unspecified, so two differently ordered strings of one
        # reference value both match it (and DISTINCT may or may not merge them): many-to-many matching
        ps, must_s, may_s = set(prow), set(rr.must), set(rr.may)
        miss = [m for m in must_s if not any(value_match(m, p) for p in ps)]
        extra = [p for p in ps if not any(value_match(m, p) for m in may_s)]
        if miss: return 'disagree', 'missing rows %s' % sorted(map(repr, miss))[:6]
        if extra: return ('no_reference', 'surplus rows while python would raise on some row') if rr.flagged else \
            ('disagree', 'surplus rows %s' % sorted(map(repr, extra))[:6])
        return ('lenient_agree' if rr.uncertain else 'agree'), ''
    if rr.mode == 'set' or rr.aggregated and False:
        pc = Counter(set(prow))
        must = Counter(set(rr.must)); may = Counter(set(rr.may))
    else:
        pc, must, may = Counter(prow), rr.must, rr.may
    miss, _ = counter_diff(must, pc)
    _, extra = counter_diff(may, pc)
    if rr.mode != 'set' and rr.uncertain and extra:
        # bag with free rows: multiplicities of free rows are not pinned down
        _, extra = counter_diff(Counter(set(may)), Counter(set(pc)))
    if miss: return 'disagree', 'missing rows %s' % sorted(map(repr, miss))[:6]
    if extra:
        if rr.flagged: return 'no_reference', 'surplus rows while python would raise on some row'
        return 'disagree', 'surplus rows %s' % sorted(map(repr, extra))[:6]
    if rr.no_dups:
        try: dup = len(set(result.rows)) != len(result.rows)          # exact values: 2 and 1.9999999999999998 are distinct rows
        except TypeError: dup = len(set(prow)) != len(prow)
        if dup: return 'disagree', 'duplicates in a result that must not contain any'
    if rr.order_check is not None:
        bad = rr.order_check(prow)
        if bad: return 'disagree', 'ordering: ' + bad
    return ('lenient_agree' if rr.uncertain else 'agree'), ''


class Verdict(object):
    def __init__(self, outcome, program, result=None, ref=None, detail='', findings=()):
        self.outcome, self.program, self.result, self.ref, self.detail, self.findings = \
            outcome, program, result, ref, detail, list(findings)
        self.nontrivial = False
        self.lenient = False
    def witness(self, env):
        w = {'program': self.program.to_json(), 'text': self.program.text(), 'data': env.data, 'detail': self.detail,
             'outcome': self.outcome}
        if self.result is not None: w['pony'] = self.result.summary(); w['sql'] = self.result.sql
        if self.ref is not None: w['reference'] = self.ref.summary()
        return w


def judge(env, program, dev_rules=None, result=None, shape_rules=None):
    """Run the program, compute the reference, compare, and re-judge a disagreement under the deviation rules."""
    dev_rules = DEVIATIONS if dev_rules is None else dev_rules
    shape_rules = SHAPE_RULES if shape_rules is None else shape_rules
    if result is None: result = run_program(env, program)
    if result.kind == 'raised':
        if result.exc == 'HarnessSyntaxError': return Verdict('unsupported', program, result, detail=result.exc_msg)
        return Verdict('db_error' if result.db_error else 'pony_raised', program, result, detail=result.exc)
    try:
        rr = reference(program, env.mirror)
    except Unsupported as e: return Verdict('unsupported', program, result, detail=str(e))
    except NoReference as e: return Verdict('no_reference', program, result, detail=str(e))
    except RecursionError: return Verdict('unsupported', program, result, detail='recursion')
    status, detail = compare(result, rr)
    if status in ('agree', 'lenient_agree'):
        v = Verdict('agree', program, result, rr)
        v.lenient = status != 'agree'
        n_inc = sum(rr.must.values())
        v.nontrivial = (not v.lenient) and not rr.aggregated and 0 < n_inc < rr.nrows_source
        v.aggregated = rr.aggregated
        return v
    if status == 'no_reference': return Verdict('no_reference', program, result, rr, detail)
    # deviation-rule pass: KNOWN only if some combination of the encountered deviation sites reproduces pony exactly.
    # Sites hidden behind another deviation (rows the base reading never evaluates) surface in later rounds.
    all_sites, tried = set(rr.sites), set()
    dev_unsupported = False
    for _round in range(3):
        sites = [s for s in dev_rules if s in all_sites]
        combos = [(s,) for s in sites]
        if len(sites) > 1:
            combos.append(tuple(sites))
            if 2 < len(sites) <= 5: combos.extend(itertools.combinations(sites, 2))
            if 3 < len(sites) <= 5: combos.extend(itertools.combinations(sites, 3))
        before = set(all_sites)
        for combo in combos:
            if combo in tried: continue
            tried.add(combo)
            try:
                rr2 = reference(program, env.mirror, dev=combo)
            except (Unsupported, NoReference):
                dev_unsupported = True; continue
            all_sites |= rr2.sites
            st2, _ = compare(result, rr2)
            if st2 in ('agree', 'lenient_agree') or (rr2.unpredictable and 'aggr_optimize' in combo):
                v = Verdict('known', program, result, rr, detail, findings=[dev_rules[s] for s in combo])
                v.by_shape = st2 not in ('agree', 'lenient_agree')
                return v
        if all_sites == before: break
    rr.sites |= all_sites
    for sname, fid in shape_rules.items():
        if sname in rr.sites:
            v = Verdict('known', program, result, rr, detail, findings=[fid])
            v.by_shape = True
            return v
    if dev_unsupported:
        # rows that only a deviant reading includes reach constructs outside the modelled fragment: not judged
        return Verdict('unsupported', program, result, rr, 'outside the model under a deviation rule')
    return Verdict('disagree', program, result, rr, detail)


def _fold_neg(node):
    class F(ast.NodeTransformer):
        def visit_UnaryOp(self, n):
            n = self.generic_visit(n)
            if isinstance(n.op, ast.USub) and isinstance(n.operand, ast.Constant) and isinstance(n.operand.value, (int, float)) \
                    and not isinstance(n.operand.value, bool):
                return ast.copy_location(ast.Constant(-n.operand.value), n)
            return n
    return ast.fix_missing_locations(F().visit(node))


def lint_program(src):
    """None if fine, else the reason the draft is not worth running."""
    tree = parse_src(src)
    loopvars = set()
    for n in ast.walk(tree):
        if isinstance(n, ast.comprehension):
            loopvars |= {x.id for x in ast.walk(n.target) if isinstance(x, ast.Name)}
        elif isinstance(n, ast.Lambda): loopvars |= {a.arg for a in n.args.args}
    def varfree(n): return not any(isinstance(x, ast.Name) and x.id in loopvars for x in ast.walk(n))
    elts = tree.elt.elts if isinstance(tree.elt, ast.Tuple) else [tree.elt]
    if any(varfree(e) for e in elts): return 'variable-free projection item'
    for n in ast.walk(tree):
        if isinstance(n, ast.Call) and isinstance(n.func, ast.Name) and n.func.id in AGGS + ('len', 'exists') and n.args:
            if not (n.func.id in ('min', 'max') and len(n.args) > 1) and varfree(n.args[0]) and n.func.id != 'len':
                return 'aggregate of a variable-free expression'
        recv = None
        if isinstance(n, ast.Attribute): recv = n.value
        elif isinstance(n, ast.Subscript): recv = n.value
        if recv is not None and varfree(recv) and not isinstance(recv, (ast.Name, ast.Constant, ast.Attribute)):
            return 'compound constant receiver'
        if isinstance(n, ast.IfExp) and varfree(n): return 'constant conditional expression'
        if isinstance(n, (ast.BinOp, ast.UnaryOp, ast.Compare, ast.BoolOp, ast.Call, ast.Subscript)) and varfree(n) \
                and not any(isinstance(x, (ast.GeneratorExp, ast.Lambda)) for x in ast.walk(n)):
            # pony evaluates a variable-free expression from the text ast2src() renders: it must parse back to the same tree
            try:
                from pony.orm.asttranslation import ast2src
                back = ast.parse(ast2src(copy.deepcopy(n)), mode='eval').body
                if ast.dump(back) != ast.dump(n): return 'constant sub-expression does not survive ast2src (C04)'
                # generator/lambda form: the compiler folds -1 into one constant, which ast2src prints without parentheses
                folded = _fold_neg(copy.deepcopy(n))
                back = _fold_neg(ast.parse(ast2src(copy.deepcopy(folded)), mode='eval').body)
                if ast.dump(back) != ast.dump(folded): return 'constant sub-expression does not survive ast2src after folding (C04)'
            except Exception: return 'constant sub-expression not renderable by ast2src (C04)'
        conds = []
        if isinstance(n, ast.BoolOp): conds = n.values
        elif isinstance(n, ast.UnaryOp) and isinstance(n.op, ast.Not): conds = [n.operand]
        elif isinstance(n, ast.IfExp): conds = [n.test]
        elif isinstance(n, ast.comprehension): conds = n.ifs
        for c in conds:
            if not any(isinstance(x, ast.Name) for x in ast.walk(c)): return 'constant-only condition operand'
    return None


# ----------------------------------------------------------------------------------------------------------------
# 9. typed expression grammar -> programs
# ----------------------------------------------------------------------------------------------------------------
class X(object):
    """Expression text + whether it can be used as an operand without parentheses."""
    __slots__ = ('t', 'atomic')
    def __init__(self, t, atomic=False): self.t, self.atomic = t, atomic
    def __str__(self): return self.t

def P(x): return x.t if x.atomic else '(' + x.t + ')'

_ATOMIC_FMT = re.compile(r'^(\w+\(.*\)|\{0\}\.\w+(\(.*\))?|\{0\}\[.*\])$')

def T(name, rtype, args, fmt, *feats):
    return {'name': name, 'rtype': rtype, 'args': args, 'fmt': fmt, 'feats': set(feats), 'atomic': bool(_ATOMIC_FMT.match(fmt))}

CMP_OPS = [('eq', '=='), ('ne', '!='), ('lt', '<'), ('le', '<='), ('gt', '>'), ('ge', '>=')]

TEMPLATES = [
    T('int.add', 'int', ('int', 'int'), '{0} + {1}'), T('int.sub', 'int', ('int', 'int'), '{0} - {1}'),
    T('int.mul', 'int', ('int', 'int'), '{0} * {1}'),
    T('int.floordiv', 'int', ('int', 'int'), '{0} // {1}', 'div'), T('int.mod', 'int', ('int', 'int'), '{0} % {1}', 'div'),
    T('int.neg', 'int', ('int',), '-{0}'), T('int.abs', 'int', ('int',), 'abs({0})'),
    T('int.len', 'int', ('str',), 'len({0})'),
    T('int.coalesce', 'int', ('int', 'int'), 'coalesce({0}, {1})'),
    T('int.min2', 'int', ('int', 'int'), 'min({0}, {1})'), T('int.max2', 'int', ('int', 'int'), 'max({0}, {1})'),
    T('int.year', 'int', ('date',), '{0}.year', 'date'), T('int.month', 'int', ('date',), '{0}.month', 'date'),
    T('int.day', 'int', ('date',), '{0}.day', 'date'),
    T('int.boolarith', 'int', ('boolattr', 'int'), '{0} + {1}'),
    T('int.boolbool.add', 'int', ('boolattr', 'boolattr'), '{0} + {1}'), T('int.boolbool.mul', 'int', ('boolattr', 'boolattr'), '{0} * {1}'),
    T('int.boolbool.sub', 'int', ('boolattr', 'boolattr'), '{0} - {1}'),
    T('float.div', 'float', ('num', 'num'), '{0} / {1}', 'div', 'float'),
    T('float.add', 'float', ('float', 'num'), '{0} + {1}', 'float'), T('float.sub', 'float', ('num', 'float'), '{0} - {1}', 'float'),
    T('float.mul', 'float', ('float', 'num'), '{0} * {1}', 'float'),
    T('float.neg', 'float', ('float',), '-{0}', 'float'), T('float.abs', 'float', ('float',), 'abs({0})', 'float'),
    T('float.pow', 'float', ('num', 'smallexp'), '{0} ** {1}', 'pow', 'float'),
    T('float.fromint', 'float', ('int',), 'float({0})', 'float'),
    T('float.floordiv', 'float', ('float', 'num'), '{0} // {1}', 'div', 'float'),
    T('float.mod', 'float', ('float', 'num'), '{0} % {1}', 'div', 'float'),
    T('float.coalesce', 'float', ('float', 'float'), 'coalesce({0}, {1})', 'float'),
    T('str.cat', 'str', ('str', 'str'), '{0} + {1}'),
    T('str.upper', 'str', ('str',), '{0}.upper()'), T('str.lower', 'str', ('str',), '{0}.lower()'),
    T('str.strip', 'str', ('str',), '{0}.strip()', 'strip0'), T('str.lstrip', 'str', ('str',), '{0}.lstrip()', 'strip0'),
    T('str.rstrip', 'str', ('str',), '{0}.rstrip()', 'strip0'),
    T('str.stripc', 'str', ('str', 'strconst'), '{0}.strip({1})'), T('str.lstripc', 'str', ('str', 'strconst'), '{0}.lstrip({1})'),
    T('str.rstripc', 'str', ('str', 'strconst'), '{0}.rstrip({1})'),
    T('str.index', 'str', ('str', 'idx'), '{0}[{1}]'),
    T('str.slice', 'str', ('str', 'idx?', 'idx?'), '{0}[{1}:{2}]', 'slice'),
    T('str.concat2', 'str', ('str', 'int'), 'concat({0}, {1})'), T('str.concat3', 'str', ('str', 'str', 'str'), 'concat({0}, {1}, {2})'),
    T('str.coalesce', 'str', ('str', 'str'), 'coalesce({0}, {1})'),
    T('str.fromint', 'str', ('int',), 'str({0})'),
    T('str.min2', 'str', ('str', 'str'), 'min({0}, {1})'), T('str.max2', 'str', ('str', 'str'), 'max({0}, {1})'),
    T('date.addc', 'date', ('date', 'tdconst'), '{0} + {1}', 'date'), T('date.subc', 'date', ('date', 'tdconst'), '{0} - {1}', 'date'),
    T('date.coalesce', 'date', ('date', 'date'), 'coalesce({0}, {1})', 'date'),
    T('dec.addi', 'dec', ('dec', 'int'), '{0} + {1}', 'dec'), T('dec.muli', 'dec', ('dec', 'int'), '{0} * {1}', 'dec'),
    T('dec.sub', 'dec', ('dec', 'dec'), '{0} - {1}', 'dec'), T('dec.neg', 'dec', ('dec',), '-{0}', 'dec'),
    T('dec.abs', 'dec', ('dec',), 'abs({0})', 'dec'), T('dec.coalesce', 'dec', ('dec', 'dec'), 'coalesce({0}, {1})', 'dec'),
]
for _n, _op in CMP_OPS:
    TEMPLATES.append(T('cmp.int.' + _n, 'bool', ('int', 'int'), '{0} %s {1}' % _op))
    TEMPLATES.append(T('cmp.num.' + _n, 'bool', ('num', 'float'), '{0} %s {1}' % _op, 'float'))
    TEMPLATES.append(T('cmp.str.' + _n, 'bool', ('str', 'str'), '{0} %s {1}' % _op))
    TEMPLATES.append(T('cmp.date.' + _n, 'bool', ('date', 'date'), '{0} %s {1}' % _op, 'date'))
    TEMPLATES.append(T('cmp.dec.' + _n, 'bool', ('dec', 'dec'), '{0} %s {1}' % _op, 'dec'))
TEMPLATES += [
    T('cmp.bool.eq', 'bool', ('boolattr', 'boolconst'), '{0} == {1}'), T('cmp.bool.ne', 'bool', ('boolattr', 'boolconst'), '{0} != {1}'),
    T('cmp.chain.int', 'bool', ('int', 'int', 'int'), '{0} < {1} <= {2}'),
    T('cmp.chain.str', 'bool', ('str', 'str', 'str'), '{0} <= {1} < {2}'),
    T('isnone', 'bool', ('nullable',), '{0} is None'), T('notnone', 'bool', ('nullable',), '{0} is not None'),
    T('eqnone', 'bool', ('nullable',), '{0} == None'), T('nenone', 'bool', ('nullable',), '{0} != None'),
    T('in.intlist', 'bool', ('int', 'intlist'), '{0} in {1}'), T('notin.intlist', 'bool', ('int', 'intlist'), '{0} not in {1}'),
    T('in.strlist', 'bool', ('str', 'strlist'), '{0} in {1}'), T('notin.strlist', 'bool', ('str', 'strlist'), '{0} not in {1}'),
    T('in.exprs', 'bool', ('int', 'int', 'int'), '{0} in ({1}, {2})'),
    T('str.in', 'bool', ('str', 'str'), '{0} in {1}'), T('str.notin', 'bool', ('str', 'str'), '{0} not in {1}'),
    T('startswith', 'bool', ('str', 'str'), '{0}.startswith({1})'), T('endswith', 'bool', ('str', 'str'), '{0}.endswith({1})'),
    T('between.int', 'bool', ('int', 'int', 'int'), 'between({0}, {1}, {2})'),
    T('between.str', 'bool', ('str', 'str', 'str'), 'between({0}, {1}, {2})'),
    T('and', 'bool', ('cond', 'cond'), '{0} and {1}'), T('or', 'bool', ('cond', 'cond'), '{0} or {1}'),
    T('and3', 'bool', ('cond', 'cond', 'cond'), '{0} and {1} and {2}'), T('or3', 'bool', ('cond', 'cond', 'cond'), '{0} or {1} or {2}'),
    T('not', 'bool', ('cond',), 'not {0}'),
    T('not.str', 'bool', ('str',), 'not {0}'), T('not.int', 'bool', ('int',), 'not {0}'), T('not.float', 'bool', ('float',), 'not {0}', 'float'),
]
TEMPLATES_BY_RTYPE = {}
for _t in TEMPLATES: TEMPLATES_BY_RTYPE.setdefault(_t['rtype'], []).append(_t)
NEUTRAL_EXCLUDED = {'div', 'date', 'dec', 'float', 'pow'}
VALUE_TYPES = ('int', 'float', 'str', 'date', 'dec')


class ProgramGen(object):
    """Random and bounded-exhaustive derivation of query programs from the typed grammar."""
    def __init__(self, schema, rng, max_depth=4, neutral_domain=False, p_param=0.3, exclude=()):
        self.schema, self.rng, self.max_depth, self.neutral = schema, rng, max_depth, neutral_domain
        self.p_param = p_param
        self.exclude = set(exclude) | (NEUTRAL_EXCLUDED if neutral_domain else set())
        self.dom = NEUTRAL_DOMAINS if neutral_domain else DOMAINS
        self.types = [t for t in VALUE_TYPES if t not in self.exclude]
        self.reset()

    def reset(self):
        self.params, self.prods, self.vars, self.nvar = {}, [], [], 0

    def use(self, name): self.prods.append(name)
    def ok(self, tpl): return not (tpl['feats'] & self.exclude)

    # -- leaves -----------------------------------------------------------------------------------------------------
    def const(self, typ, value=None, allow_param=True):
        v = self.rng.choice(self.dom[typ]) if value is None else value
        if allow_param and self.rng.random() < self.p_param:
            n = 'a%d' % len(self.params)
            self.params[n] = v
            self.use('leaf.param.' + typ)
            return X(n, True)
        self.use('leaf.const.' + typ)
        return X(lit(v), True)

    def attr_paths(self, typ, want_nullable=None, direct_only=False):
        """[(text, nullable)] attribute chains of scalar type `typ` reachable from the variables in scope."""
        out = []
        for var, ename in self.vars:
            e = self.schema.ents[ename]
            for a in e.attrs.values():
                if a.is_scalar and a.typ == typ: out.append(('%s.%s' % (var, a.name), a.nullable, 0))
                elif a.is_ref and not direct_only:
                    t = self.schema.ents[a.typ]
                    for b in t.attrs.values():
                        if b.is_scalar and b.typ == typ and b.kind != 'pk':
                            out.append(('%s.%s.%s' % (var, a.name, b.name), True if a.kind == 'opt' else b.nullable,
                                        2 if a.kind == 'opt' else 1))
        if want_nullable is not None: out = [o for o in out if o[1] == want_nullable] or out
        return out

    def attr_leaf(self, typ, **kw):
        paths = self.attr_paths(typ, **kw)
        if not paths: return None
        weights = [{0: 8, 1: 2, 2: 0.5}[p[2]] for p in paths]
        text = self.rng.choices(paths, weights)[0][0]
        self.use('leaf.attr.' + typ + ('.chain' if text.count('.') > 1 else ''))
        return X(text, True)

    def leaf(self, typ):
        if typ == 'num': typ = self.rng.choice(['int', 'float'] if 'float' not in self.exclude else ['int'])
        if typ in ('cond', 'bool'): return self.bool_leaf()
        if self.rng.random() < 0.7:
            x = self.attr_leaf(typ)
            if x is not None: return x
        return self.const(typ)

    def bool_leaf(self):
        r = self.rng.random()
        paths = self.attr_paths('bool')
        if paths and r < 0.25:
            self.use('truth.boolattr'); return X(self.rng.choice(paths)[0], True)
        typ = self.rng.choice(self.types)
        a = self.attr_leaf(typ)
        if a is not None and r < 0.35 and typ in ('int', 'str', 'float'):
            self.use('truth.' + typ); return a
        a = a or self.const(typ)
        n, op = self.rng.choice(CMP_OPS)
        self.use('cmp.%s.%s' % (typ, n))
        return X('%s %s %s' % (a.t, op, self.const(typ).t))

    def special(self, tok, d):
        rng = self.rng
        if tok == 'strconst':
            return self.const('str', value=rng.choice(['a', 'ab', ' ', 'x', 'A', '%', 'a ']))
        if tok in ('idx', 'idx?'):
            if tok == 'idx?' and rng.random() < 0.3:
                self.use('leaf.slice.none'); return X('', True)
            if rng.random() < 0.12 and d > 0:
                x = self.attr_leaf('int', direct_only=True)
                if x is not None: self.use('leaf.idx.expr'); return x
            v = rng.choice([0, 1, 2, 3, -1, -2, -3, 5])
            return self.const('int', value=v)
        if tok == 'tdconst':
            v = timedelta(days=rng.choice([0, 1, 30, 365, -1, 7]))
            return self.const('date', value=v)
        if tok == 'smallexp':
            return self.const('int', value=rng.choice([0, 1, 2, 2, 3, -1]), allow_param=rng.random() < 0.5)
        if tok in ('intlist', 'strlist'):
            typ = tok[:3]
            k = rng.choice([0, 1, 2, 3])
            vals = [rng.choice(self.dom[typ]) for _ in range(k)]
            if rng.random() < 0.08 and k: vals[rng.randrange(k)] = None
            if rng.random() < self.p_param and None not in vals:
                n = 'a%d' % len(self.params); self.params[n] = vals if rng.random() < 0.5 else tuple(vals)
                self.use('leaf.param.list'); return X(n, True)
            self.use('leaf.const.list' + ('.none' if None in vals else '') + ('.empty' if not vals else ''))
            return X(lit(vals if rng.random() < 0.5 else tuple(vals)), True)
        if tok == 'boolattr':
            paths = self.attr_paths('bool')
            if not paths: return None
            self.use('leaf.attr.bool'); return X(rng.choice(paths)[0], True)
        if tok == 'boolconst':
            return self.const('bool')
        if tok == 'nullable':
            typ = rng.choice(self.types)
            r = rng.random()
            if r < 0.25:
                x = self.ref_expr(optional=True)
                if x is not None: return x[0]
            if r < 0.85:
                x = self.attr_leaf(typ, want_nullable=True)
                if x is not None: return x
            return self.gen(typ, max(d - 1, 0))
        raise ValueError(tok)

    # -- expressions ----------------------------------------------------------------------------------------------
    def gen(self, typ, d):
        rng = self.rng
        if typ in ('strconst', 'idx', 'idx?', 'tdconst', 'smallexp', 'intlist', 'strlist', 'boolattr', 'boolconst', 'nullable'):
            return self.special(typ, d)
        if typ == 'num': typ = rng.choice(['int', 'int', 'float'] if 'float' not in self.exclude else ['int'])
        if typ == 'cond':
            if d <= 0 or rng.random() < 0.15: return self.bool_leaf()
            if rng.random() < 0.08:
                vt = rng.choice([t for t in ('str', 'str', 'int', 'float') if t not in self.exclude])
                self.use('truth.expr.' + vt)
                x = self.gen(vt, d - 1)               # truth test of a computed value (method call, coalesce, arithmetic ...)
                if any((v + '.') in x.t for v, _e in self.vars): return X(P(x), True)
                self.prods.pop()                      # a constant is not a truth test worth running (and is a C03 shape)
                return self.bool_leaf()
            typ = 'bool'
        if d <= 0 or rng.random() < 0.22: return self.leaf(typ)
        # special (non-template) productions
        specials = {'int': [self.p_ifexp, self.p_hybrid, self.p_coll_aggr, self.p_coll_aggr, self.p_coll_count],
                    'float': [self.p_ifexp, self.p_coll_aggr],
                    'str': [self.p_ifexp, self.p_hybrid, self.p_fstring, self.p_coll_aggr],
                    'date': [self.p_ifexp], 'dec': [self.p_ifexp],
                    'bool': [self.p_hybrid, self.p_ent_cmp, self.p_ent_cmp, self.p_coll_test, self.p_coll_test, self.p_in_coll,
                             self.p_in_subquery, self.p_exists, self.p_isinstance, self.p_ent_truth, self.p_tuple_cmp]}[typ]
        if rng.random() < (0.30 if typ == 'bool' else 0.22):
            for _ in range(3):
                x = rng.choice(specials)(typ, d)
                if x is not None: return x
        tpls = [t for t in TEMPLATES_BY_RTYPE[typ] if self.ok(t)]
        for _ in range(5):
            tpl = rng.choice(tpls)
            args = []
            for a in tpl['args']:
                x = self.gen(a, d - 1)
                if x is None: break
                args.append(x)
            else:
                self.use(tpl['name'])
                return X(tpl['fmt'].format(*[P(a) if a.t else '' for a in args]), tpl['atomic'])
        return self.leaf(typ)

    def newvar(self, ename):
        base = ename[0].lower()
        used = {v for v, _ in self.vars} | set(getattr(self, 'reserved', ()))
        for cand in [base, base + '2', base + '3', base + '4', base + '5']:
            if cand not in used: return cand
        self.nvar += 1
        return '%s%d' % (base, 10 + self.nvar)

    def ref_expr(self, optional=None, entity=None):
        """(X, entity name, nullable) of an entity-typed expression: a variable or a to-one attribute of one."""
        cands = []
        for var, en in self.vars:
            if optional is not True and (entity is None or self.schema.is_sub(en, entity) or self.schema.is_sub(entity, en)):
                cands.append((var, en, False))
            for a in self.schema.ents[en].attrs.values():
                if a.is_ref and (entity is None or a.typ == entity) and (optional is None or (a.kind == 'opt') == optional):
                    cands.append(('%s.%s' % (var, a.name), a.typ, a.kind == 'opt'))
        if not cands: return None
        t, en, nullable = self.rng.choice(cands)
        self.use('leaf.ref' + ('.opt' if nullable else ''))
        return X(t, True), en, nullable

    def coll_expr(self, d, allow_filter=True):
        """(X, item entity) for a collection-valued expression over the variables in scope."""
        rng = self.rng
        cands = []
        for var, en in self.vars:
            for a in self.schema.ents[en].attrs.values():
                if a.is_set: cands.append(('%s.%s' % (var, a.name), a.typ, var, en, a))
        if not cands: return None
        text, item, var, en, a = rng.choice(cands)
        r = rng.random()
        if not allow_filter or d <= 0 or r < 0.45:
            self.use('coll.attr'); return X(text, True), item
        v = self.newvar(item)
        self.vars.append((v, item))
        try: c = self.gen('cond', d - 1)
        finally: self.vars.pop()
        if r < 0.65:
            self.use('coll.select_lambda')
            return X('%s.%s(lambda %s: %s)' % (text, rng.choice(['select', 'filter']), v, c.t), True), item
        if r < 0.85:
            self.use('coll.genexpr')
            return X('(%s for %s in %s if %s)' % (v, v, text, c.t), True), item
        # correlated subquery over the whole entity
        rev = a.reverse
        self.use('coll.correlated')
        link = ('%s.%s == %s' % (v, rev.name, var)) if rev.is_ref else ('%s in %s.%s' % (var, v, rev.name))
        return X('select(%s for %s in %s if %s and %s)' % (v, v, item, link, P(c)), True), item

    # special productions ---------------------------------------------------------------------------------------------
    def p_ifexp(self, typ, d):
        if 'ifexp' in self.exclude: return None
        c = self.gen('cond', d - 1); a = self.gen(typ, d - 1); b = self.gen(typ, d - 1)
        self.use('ifexp.' + typ)
        return X('%s if %s else %s' % (P(a), P(c), P(b)))

    def p_hybrid(self, typ, d):
        cands = []
        for var, en in self.vars:
            for h in self.schema.ents[en].all_hybrids.values():
                if h.rtype == typ: cands.append((var, h))
        if not cands: return None
        var, h = self.rng.choice(cands)
        self.use('hybrid.' + h.name)
        if h.kind == 'property': return X('%s.%s' % (var, h.name), True)
        args = []
        for a, dflt in h.args:
            if dflt is not None and self.rng.random() < 0.4: continue
            args.append(self.const('int').t if self.rng.random() < 0.7 else self.gen('int', 0).t)
        return X('%s.%s(%s)' % (var, h.name, ', '.join(args)), True)

    def p_fstring(self, typ, d):
        if 'fstring' in self.exclude: return None
        a = self.attr_leaf('str') or self.const('str', allow_param=False)
        b = self.attr_leaf(self.rng.choice(['int', 'str'])) or self.const('int', allow_param=False)
        self.use('fstring')
        sep = self.rng.choice(['-', ' ', '', ':'])
        return X('f"{%s}%s{%s}"' % (a.t, sep, b.t), True)

    def p_coll_count(self, typ, d):
        c = self.coll_expr(d - 1)
        if c is None: return None
        fn = self.rng.choice(['count', 'len', 'count'])
        self.use('aggr.coll.' + fn)
        return X('%s(%s)' % (fn, c[0].t), True)

    def p_coll_aggr(self, typ, d):
        """sum/min/max/avg/group_concat over a collection: lifted attribute or generator with a projection."""
        rng = self.rng
        c = self.coll_expr(d - 1, allow_filter=False)
        if c is None: return None
        cx, item = c
        e = self.schema.ents[item]
        want = {'int': 'int', 'float': 'float' if rng.random() < 0.5 else 'int', 'str': 'str'}[typ]
        if want in self.exclude: want = 'int'
        attrs = [a for a in e.attrs.values() if a.is_scalar and a.typ == want and a.kind != 'pk']
        if not attrs: return None
        a = rng.choice(attrs)
        if typ == 'int': fn = rng.choice(['sum', 'sum', 'max', 'min'])
        elif typ == 'float': fn = 'avg' if want == 'int' else rng.choice(['avg', 'sum', 'max'])
        else: fn = rng.choice(['min', 'max', 'group_concat'])
        if fn == 'group_concat' and 'group_concat' in self.exclude: fn = 'max'
        if rng.random() < 0.4:
            self.use('aggr.lifted.' + fn)
            return X('%s(%s.%s)' % (fn, cx.t, a.name), True)
        v = self.newvar(item)
        self.vars.append((v, item))
        try:
            cond = self.gen('cond', d - 1).t if d > 1 and rng.random() < 0.6 else None
            proj = '%s.%s' % (v, a.name)
            if d > 1 and rng.random() < 0.3 and typ in ('int', 'str'): proj = self.gen(typ, d - 2).t
        finally: self.vars.pop()
        self.use('aggr.genexpr.' + fn)
        extra = ''
        if fn == 'group_concat' and rng.random() < 0.5: extra = ', %s' % lit(rng.choice(['|', ', ', '-']))
        return X('%s(%s for %s in %s%s)%s' % (fn, proj, v, cx.t, (' if ' + cond) if cond else '', '') if not extra else
                 '%s((%s for %s in %s%s)%s)' % (fn, proj, v, cx.t, (' if ' + cond) if cond else '', extra), True)

    def p_ent_cmp(self, typ, d):
        a = self.ref_expr()
        if a is None: return None
        b = self.ref_expr(entity=a[1])
        if b is None or a[0].t == b[0].t:
            if a[2]:
                self.use('ent.isnone'); return X('%s %s None' % (a[0].t, self.rng.choice(['is', 'is not', '==', '!='])))
            return None
        op = self.rng.choice(['==', '!='])
        self.use('ent.cmp')
        return X('%s %s %s' % (a[0].t, op, b[0].t))

    def p_ent_truth(self, typ, d):
        a = self.ref_expr(optional=True)
        if a is None: return None
        self.use('truth.ref')
        return a[0]

    def p_coll_test(self, typ, d):
        c = self.coll_expr(d - 1)
        if c is None: return None
        r = self.rng.random()
        if r < 0.3: self.use('coll.truth'); return c[0]
        if r < 0.5 and c[0].t.count('(') == 0: self.use('coll.is_empty'); return X('%s.is_empty()' % c[0].t, True)
        if r < 0.7: self.use('coll.not'); return X('not %s' % c[0].t)
        self.use('coll.exists'); return X('exists(%s)' % c[0].t, True)

    def p_in_coll(self, typ, d):
        c = self.coll_expr(d - 1)
        if c is None: return None
        x = self.ref_expr(entity=c[1])
        if x is None: return None
        neg = self.rng.random() < 0.3
        self.use('in.coll' + ('.not' if neg else ''))
        return X('%s %s %s' % (x[0].t, 'not in' if neg else 'in', c[0].t))

    def p_in_subquery(self, typ, d):
        """x in (generator over a whole entity) -- entity or scalar membership."""
        rng = self.rng
        ename = rng.choice([e.name for e in self.schema.roots()])
        v = self.newvar(ename)
        self.vars.append((v, ename))
        try:
            cond = self.gen('cond', d - 1).t if d > 1 else self.bool_leaf().t
            if rng.random() < 0.5:
                refs = [a for a in self.schema.ents[ename].attrs.values() if a.is_ref]
                if rng.random() < 0.5 or not refs: elt, et = v, ename
                else:
                    a = rng.choice(refs); elt, et = '%s.%s' % (v, a.name), a.typ
                kind = 'ent'
            else:
                st = rng.choice([t for t in ('int', 'str') if t not in self.exclude])
                paths = [p for p in self.attr_paths(st, direct_only=True) if p[0].startswith(v + '.')]
                if not paths: return None
                elt, et, kind = rng.choice(paths)[0], st, 'scalar'
        finally: self.vars.pop()
        if kind == 'ent':
            x = self.ref_expr(entity=et)
            if x is None: return None
            xt = x[0].t
        else: xt = self.leaf(et).t
        neg = rng.random() < 0.3
        wrap = rng.choice(['select(%s)', '(%s)'])
        self.use('in.subquery.%s%s' % (kind, '.not' if neg else ''))
        return X('%s %s %s' % (xt, 'not in' if neg else 'in', wrap % ('%s for %s in %s if %s' % (elt, v, ename, cond))))

    def p_exists(self, typ, d):
        rng = self.rng
        ename = rng.choice([e.name for e in self.schema.roots()])
        v = self.newvar(ename)
        outer = list(self.vars)
        self.vars.append((v, ename))
        try: cond = self.gen('cond', d - 1).t
        finally: self.vars.pop()
        self.use('exists.genexpr')
        return X('exists(%s for %s in %s if %s)' % (v, v, ename, cond), True)

    def p_isinstance(self, typ, d):
        cands = [(var, en) for var, en in self.vars if self.schema.ents[en].subclasses]
        if not cands: return None
        var, en = self.rng.choice(cands)
        subs = self.schema.ents[en].subclasses
        k = self.rng.choice([1, 1, 2])
        names = self.rng.sample(subs, min(k, len(subs)))
        self.use('isinstance')
        return X('isinstance(%s, %s)' % (var, names[0] if len(names) == 1 else '(%s)' % ', '.join(names)), True)

    def p_tuple_cmp(self, typ, d):
        a, b = self.attr_leaf('int'), self.attr_leaf('str')
        if a is None or b is None: return None
        if self.rng.random() < 0.5:
            self.use('tuple.eq')
            return X('(%s, %s) %s (%s, %s)' % (a.t, b.t, self.rng.choice(['==', '!=']), self.const('int').t, self.const('str').t))
        self.use('tuple.in')
        items = ', '.join('(%s, %s)' % (lit(self.rng.choice(self.dom['int'])), lit(self.rng.choice(self.dom['str']))) for _ in range(2))
        return X('(%s, %s) in [%s]' % (a.t, b.t, items))

    # -- whole programs ------------------------------------------------------------------------------------------
    SHAPES = [('filter', 30), ('proj', 22), ('join2', 10), ('cart2', 5), ('aggr', 8), ('group', 10), ('subsrc', 5), ('join_proj', 6)]

    def program(self, shape=None):
        """Random program; drafts whose constant sub-expressions python would fold in an uninteresting or
        pony-specific way (aggregates/projections of variable-free expressions, compound constant receivers that
        pony re-renders through ast2src -- property C04) are re-drawn."""
        for _ in range(40):
            p = self._program(shape)
            if lint_program(p.src) is None: return p
        return self._program('filter' if shape is None else shape) if False else Program('p for p in Person', {}, 'gen', [], {'ent': 'Person', 'var': 'p', 'cond': None}, ['shape.filter'], self.schema.name)

    def _program(self, shape=None):
        self.reset()
        rng = self.rng
        shape = shape or rng.choices([s for s, w in self.SHAPES], [w for s, w in self.SHAPES])[0]
        D = rng.randint(1, self.max_depth)
        roots = [e.name for e in self.schema.ents.values()]
        main = rng.choice(['Person', 'Person', 'Person', 'Item', 'Dept', 'Tag', 'Passport', 'Gadget', 'Book', 'Course', 'Course', 'Grade'])
        if main not in self.schema.ents: main = roots[0]
        lam = None
        chain = []
        self.use('shape.' + shape)
        if shape == 'filter':
            v = self.newvar(main); self.vars = [(v, main)]
            cond = self.gen('cond', D) if rng.random() < 0.93 else None
            src = '%s for %s in %s%s' % (v, v, main, (' if ' + cond.t) if cond else '')
            lam = {'ent': main, 'var': v, 'cond': cond.t if cond else None}
        elif shape == 'proj':
            v = self.newvar(main); self.vars = [(v, main)]
            elt = self.projection(D)
            cond = self.gen('cond', max(D - 1, 1)) if rng.random() < 0.7 else None
            src = '%s for %s in %s%s' % (elt, v, main, (' if ' + cond.t) if cond else '')
        elif shape in ('join2', 'join_proj'):
            owners = [(e.name, a) for e in self.schema.ents.values() for a in e.own_attrs if a.is_set]
            en, a = rng.choice(owners)
            v = self.newvar(en); self.vars = [(v, en)]
            w = self.newvar(a.typ); self.vars.append((w, a.typ))
            if shape == 'join2': elt = rng.choice([w, w, v, '(%s, %s)' % (v, w)])
            else: elt = self.projection(max(D - 1, 1))
            cond = self.gen('cond', max(D - 1, 1)) if rng.random() < 0.75 else None
            src = '%s for %s in %s for %s in %s.%s%s' % (elt, v, en, w, v, a.name, (' if ' + cond.t) if cond else '')
        elif shape == 'cart2':
            e1, e2 = rng.choice([('Person', 'Person'), ('Person', 'Item'), ('Person', 'Dept'), ('Person', 'Tag'), ('Item', 'Person')])
            v = self.newvar(e1); self.vars = [(v, e1)]
            w = self.newvar(e2); self.vars.append((w, e2))
            link = self.link_cond(v, e1, w, e2)
            cond = self.gen('cond', max(D - 1, 1)) if rng.random() < 0.6 else None
            conds = [c for c in (link, cond.t if cond else None) if c]
            if len(conds) == 2: conds[1] = '(%s)' % conds[1]
            elt = rng.choice(['(%s, %s)' % (v, w), '(%s.id, %s.id)' % (v, w), v, w]) if rng.random() < 0.7 else self.projection(1)
            src = '%s for %s in %s for %s in %s%s' % (elt, v, e1, w, e2, (' if ' + ' and '.join(conds)) if conds else '')
        elif shape in ('aggr', 'group'):
            if rng.random() < 0.3:
                owners = [(e.name, a) for e in self.schema.ents.values() for a in e.own_attrs if a.is_set]
                en, a = rng.choice(owners)
                v = self.newvar(en); self.vars = [(v, en)]
                w = self.newvar(a.typ); self.vars.append((w, a.typ))
                loops = 'for %s in %s for %s in %s.%s' % (v, en, w, v, a.name)
            else:
                v = self.newvar(main); self.vars = [(v, main)]
                loops = 'for %s in %s' % (v, main)
            naggr = rng.choice([1, 1, 2, 3])
            aggs = [self.query_aggr(max(D - 1, 0)) for _ in range(naggr)]
            keys = []
            if shape == 'group':
                for _ in range(rng.choice([1, 1, 2])): keys.append(self.group_key(max(D - 2, 0)))
            cond = self.gen('cond', max(D - 1, 1)) if rng.random() < 0.6 else None
            conds = [cond.t] if cond else []
            if keys and rng.random() < 0.3:
                self.use('having')
                h = '%s %s %s' % (self.query_aggr(0, numeric=True), rng.choice(['>', '>=', '<', '==', '!=']), self.const('int').t)
                if conds: conds = ['(%s)' % conds[0], h] if rng.random() < 0.5 else [h, '(%s)' % conds[0]]
                else: conds = [h]
            items = keys + aggs
            rng.shuffle(items) if rng.random() < 0.3 else None
            elt = items[0] if len(items) == 1 else '(%s)' % ', '.join(items)
            src = '%s %s%s' % (elt, loops, (' if ' + ' and '.join(conds)) if conds else '')
        elif shape == 'subsrc':
            v = self.newvar(main); self.vars = [(v, main)]
            c1 = self.gen('cond', max(D - 1, 1))
            inner_elt = v
            self.use('subsrc.entity')
            inner = '%s for %s in %s if %s' % (inner_elt, v, main, c1.t)
            x = 'x'
            self.vars = [(x, main)]
            c2 = self.gen('cond', max(D - 1, 1)) if rng.random() < 0.7 else None
            elt = x if rng.random() < 0.5 else self.projection(1)
            wrap = rng.choice(['select(%s)', '(%s)'])
            src = '%s for %s in %s%s' % (elt, x, wrap % inner, (' if ' + c2.t) if c2 else '')
        else: raise ValueError(shape)
        # trailing C01 chain: distinct handling and ordering
        r = rng.random()
        if shape not in ('aggr', 'group'):
            if r < 0.10: chain.append(['without_distinct']); self.use('chain.without_distinct')
            elif r < 0.15: chain.append(['distinct']); self.use('chain.distinct')
            elif r < 0.30:
                st = self.order_step(src, lam)
                if st is not None: chain.append(st); self.use('chain.order_by.' + st[1])
        p = Program(src, self.params, 'gen', chain, lam, self.prods, self.schema.name)
        return p

    def link_cond(self, v, e1, w, e2):
        rng = self.rng
        opts = []
        for a in self.schema.ents[e1].attrs.values():
            if a.is_ref and self.schema.is_sub(e2, a.typ): opts.append('%s.%s == %s' % (v, a.name, w))
            if a.is_set and self.schema.is_sub(e2, a.typ): opts.append('%s in %s.%s' % (w, v, a.name))
        for a in self.schema.ents[e2].attrs.values():
            if a.is_ref and self.schema.is_sub(e1, a.typ): opts.append('%s.%s == %s' % (w, a.name, v))
            if a.is_set and self.schema.is_sub(e1, a.typ): opts.append('%s in %s.%s' % (v, w, a.name))
        if e1 == e2: opts.append('%s.id < %s.id' % (v, w))
        if not opts or rng.random() < 0.1: return None
        self.use('link')
        return rng.choice(opts)

    def projection(self, D):
        rng = self.rng
        n = rng.choice([1, 1, 2, 2, 3])
        items = []
        for _ in range(n):
            r = rng.random()
            if r < 0.12:
                x = self.ref_expr()
                if x is not None: items.append(x[0].t); self.use('proj.entity'); continue
            if r < 0.2:
                self.use('proj.bool'); items.append(self.gen('bool', max(D - 1, 0)).t); continue
            typ = rng.choice(self.types)
            items.append(self.gen(typ, D).t); self.use('proj.' + typ)
        if rng.random() < 0.5 and self.vars:
            var, en = self.vars[0]
            pk = self.schema.pk(en)
            if len(pk) > 1 and rng.random() < 0.6:
                part = rng.sample(pk, rng.randint(1, len(pk) - 1))        # part of a composite key: still a set
                for k in part: items.insert(0, '%s.%s' % (var, k))
                self.use('proj.partial_pk')
            else:
                for k in reversed(pk): items.insert(0, '%s.%s' % (var, k))
                self.use('proj.pk')
        if len(items) == 1: return items[0] if not items[0].startswith('(') or True else items[0]
        return '(%s)' % ', '.join(items)

    def query_aggr(self, d, numeric=False):
        rng = self.rng
        var = self.vars[-1][0] if rng.random() < 0.5 else self.vars[0][0]
        fns = ['count_ent', 'count_star', 'sum', 'sum', 'min', 'max', 'avg', 'count_attr']
        if not numeric: fns += ['min_str', 'max_str', 'group_concat']
        fn = rng.choice(fns)
        if fn == 'count_ent': self.use('qaggr.count.entity'); return 'count(%s)' % var
        if fn == 'count_star': self.use('qaggr.count.star'); return 'count()'
        if fn == 'count_attr':
            typ = rng.choice(['int', 'str'])
            x = self.attr_leaf(typ) or self.const(typ)
            self.use('qaggr.count.attr'); return 'count(%s)' % x.t
        if fn in ('sum', 'avg'):
            typ = rng.choice(['int', 'int', 'float'] if 'float' not in self.exclude else ['int'])
            x = self.gen(typ, d)
            self.use('qaggr.%s.%s' % (fn, typ)); return '%s(%s)' % (fn, x.t)
        if fn in ('min', 'max'):
            typ = rng.choice([t for t in ('int', 'float', 'date', 'dec') if t not in self.exclude])
            if numeric: typ = 'int'
            x = self.gen(typ, d)
            self.use('qaggr.%s.%s' % (fn, typ)); return '%s(%s)' % (fn, x.t)
        if fn in ('min_str', 'max_str'):
            x = self.gen('str', d); self.use('qaggr.%s' % fn); return '%s(%s)' % (fn[:3], x.t)
        x = self.attr_leaf(rng.choice(['str', 'int'])) or self.const('str')
        self.use('qaggr.group_concat')
        if rng.random() < 0.4: return 'group_concat(%s, %s)' % (x.t, lit(rng.choice(['|', '-', ', '])))
        return 'group_concat(%s)' % x.t

    def group_key(self, d):
        rng = self.rng
        r = rng.random()
        if r < 0.3:
            x = self.ref_expr()
            if x is not None: self.use('groupkey.entity'); return x[0].t
        typ = rng.choice([t for t in ('int', 'str', 'bool', 'date') if t not in self.exclude])
        if typ == 'bool':
            paths = self.attr_paths('bool')
            if paths: self.use('groupkey.bool'); return rng.choice(paths)[0]
            typ = 'int'
        self.use('groupkey.' + typ)
        if d > 0 and rng.random() < 0.4: return self.gen(typ, d).t
        return (self.attr_leaf(typ) or self.const(typ, allow_param=False)).t

    def order_step(self, src, lam):
        """order_by step with a pk tiebreak where the result is an entity of a single loop; positional otherwise."""
        rng = self.rng
        tree = parse_src(src)
        method = rng.choice(['order_by', 'order_by', 'sort_by'])
        if isinstance(tree.elt, ast.Name) and len(tree.generators) == 1 and isinstance(tree.generators[0].iter, ast.Name) \
                and tree.generators[0].iter.id in self.schema.ents:
            var, en = tree.elt.id, tree.generators[0].iter.id
            e = self.schema.ents[en]
            scal = [a for a in e.attrs.values() if a.is_scalar and a.kind != 'pk' and a.typ not in self.exclude]
            ks = rng.sample(scal, min(len(scal), rng.choice([1, 1, 2])))
            r = rng.random()
            if r < 0.35:
                return [method, 'attrs', [[en, a.name, rng.random() < 0.4] for a in ks] + [[en, k, rng.random() < 0.3] for k in self.schema.pk(en)]]
            parts = [('desc(%s.%s)' if rng.random() < 0.4 else '%s.%s') % (var, a.name) for a in ks] + ['%s.%s' % (var, k) for k in self.schema.pk(en)]
            if r < 0.7: return [method, 'lambda', 'lambda %s: (%s)' % (var, ', '.join(parts))]
            return [method, 'str', ', '.join(parts)]
        n = len(tree.elt.elts) if isinstance(tree.elt, ast.Tuple) else 1
        nums = list(range(1, n + 1))
        rng.shuffle(nums)
        return [method, 'numbers', [k if rng.random() < 0.7 else -k for k in nums]]

    # -- bounded-exhaustive enumeration -----------------------------------------------------------------------------
    def small_leaves(self, ename='Person', var='p', per_type=2):
        """Reduced leaf set per type token for the exhaustive enumeration (deterministic)."""
        e = self.schema.ents[ename]
        L = {}
        for typ in VALUE_TYPES:
            attrs = [a for a in e.attrs.values() if a.is_scalar and a.typ == typ and a.kind != 'pk']
            attrs.sort(key=lambda a: (not a.nullable, a.name))
            L[typ] = ['%s.%s' % (var, a.name) for a in attrs[:per_type]]
            L[typ] += [lit(v) for v in self.dom[typ][1:max(per_type, 2)]]
        L['num'] = L['int'][:1] + L['float'][:1]
        L['strconst'] = ["'a'"]; L['idx'] = ['0', '(-1)', '1']; L['idx?'] = ['', '1', '(-1)']
        L['tdconst'] = ['timedelta(days=1)']; L['smallexp'] = ['2']
        L['intlist'] = ['[1, 2]', '[]']; L['strlist'] = ["['a', 'ab']"]
        L['boolattr'] = ['%s.%s' % (var, a.name) for a in e.attrs.values() if a.is_scalar and a.typ == 'bool'][:2]
        L['boolconst'] = ['True']
        L['nullable'] = ['%s.%s' % (var, a.name) for a in e.attrs.values() if a.is_scalar and a.nullable][:4] + \
                        ['%s.%s' % (var, a.name) for a in e.attrs.values() if a.is_ref and a.kind == 'opt'][:1]
        L['cond'] = L['boolattr'][:1] + ['%s.%s' % (var, a.name) for a in e.attrs.values() if a.is_scalar and a.nullable and a.typ == 'int'][:1]
        L['bool'] = L['cond']
        return L

    REDUCED_OPS = frozenset("""int.add int.sub int.mul int.floordiv int.mod int.neg int.abs int.len int.coalesce int.year
        float.div float.mul float.pow str.cat str.upper str.strip str.index str.slice str.concat2 str.coalesce date.addc
        dec.addi cmp.int.lt cmp.int.eq cmp.str.le cmp.str.ne cmp.date.gt cmp.dec.ge cmp.num.lt isnone notnone in.intlist
        notin.intlist str.in startswith endswith between.int and or not not.str not.int cmp.chain.int cmp.bool.eq""".split())

    def enumerate_small(self, ename='Person', var='p', per_type=2, max_ops=2, exclude_ops=(), ops=None):
        """All expressions with <= max_ops template operators over the reduced leaf set, wrapped into programs:
        bool-typed ones as filters (all three forms possible), value-typed ones as (pk, expr) projections."""
        L = self.small_leaves(ename, var, per_type)
        tpls = [t for t in TEMPLATES if self.ok(t) and t['name'] not in exclude_ops and (ops is None or t['name'] in ops)]
        memo = {}
        def exprs(tok, ops):
            """list of (text, atomic, prods) with exactly `ops` operators"""
            key = (tok, ops)
            if key in memo: return memo[key]
            out = []
            if ops == 0:
                out = [(t, True, ()) for t in L.get(tok, [])]
            else:
                rt = {'cond': 'bool', 'num': None}.get(tok, tok)
                for tpl in tpls:
                    if tok == 'num':
                        if tpl['rtype'] not in ('int', 'float'): continue
                    elif tpl['rtype'] != rt: continue
                    k = len(tpl['args'])
                    for split in itertools.product(range(ops), repeat=k):
                        if sum(split) != ops - 1: continue
                        pools = [exprs(a, n) for a, n in zip(tpl['args'], split)]
                        if any(not p for p in pools): continue
                        for combo in itertools.product(*pools):
                            text = tpl['fmt'].format(*[(c[0] if c[1] else '(' + c[0] + ')') if c[0] else '' for c in combo])
                            out.append((text, tpl['atomic'], (tpl['name'],) + tuple(p for c in combo for p in c[2])))
            memo[key] = out
            return out
        for ops in range(1, max_ops + 1):
            for text, atomic, prods in exprs('bool', ops):
                src = '%s for %s in %s if %s' % (var, var, ename, text)
                yield Program(src, {}, 'gen', [], {'ent': ename, 'var': var, 'cond': text}, list(prods) + ['shape.filter'], self.schema.name)
            for typ in self.types:
                for text, atomic, prods in exprs(typ, ops):
                    pk = self.schema.pk(ename)
                    src = '(%s, %s) for %s in %s' % (', '.join('%s.%s' % (var, k) for k in pk), text, var, ename)
                    yield Program(src, {}, 'gen', [], None, list(prods) + ['shape.proj'], self.schema.name)
                    if len(pk) > 1:      # part of a composite key (implicit DISTINCT applies), and no key at all
                        src = '(%s.%s, %s) for %s in %s' % (var, pk[0], text, var, ename)
                        yield Program(src, {}, 'gen', [], None, list(prods) + ['shape.proj', 'proj.partial_pk'], self.schema.name)
                        yield Program('%s for %s in %s' % (text, var, ename), {}, 'gen', [], None, list(prods) + ['shape.proj'], self.schema.name)


# ----------------------------------------------------------------------------------------------------------------
# 10. greedy shrinking of a disagreeing case
# ----------------------------------------------------------------------------------------------------------------
def derive_lam(src, schema):
    """lam description if `src` is `v for v in Entity [if cond]`, else None."""
    try: tree = parse_src(src)
    except (SyntaxError, Unsupported): return None
    if len(tree.generators) != 1: return None
    g = tree.generators[0]
    if not (isinstance(tree.elt, ast.Name) and isinstance(g.target, ast.Name) and tree.elt.id == g.target.id
            and isinstance(g.iter, ast.Name) and g.iter.id in schema.ents): return None
    cond = ' and '.join('(%s)' % ast.unparse(c) if len(g.ifs) > 1 else ast.unparse(c) for c in g.ifs) or None
    return {'ent': g.iter.id, 'var': g.target.id, 'cond': cond}


def _src_candidates(src):
    """Smaller variants of a generator-expression text: each replaces one node by one of its children or drops a part."""
    try: tree = parse_src(src)
    except SyntaxError: return
    nodes = [n for n in ast.walk(tree)]
    seen = set()
    def emit(new_tree):
        try: text = ast.unparse(new_tree)
        except Exception: return None
        if text.startswith('(') and text.endswith(')'): text = text[1:-1]
        if text != src and text not in seen:
            seen.add(text); return text
        return None
    def replace(target, repl):
        class R(ast.NodeTransformer):
            def visit(self, n):
                if n is target: return repl
                return self.generic_visit(n)
        t2 = copy.deepcopy(tree)
        # map target in the copy by position in walk order
        idx = nodes.index(target)
        tnodes = list(ast.walk(t2))
        tgt2 = tnodes[idx]
        repl2 = copy.deepcopy(repl) if isinstance(repl, ast.AST) else repl
        class R2(ast.NodeTransformer):
            def visit(self, n):
                if n is tgt2: return repl2
                return self.generic_visit(n)
        return ast.fix_missing_locations(R2().visit(t2))
    for n in nodes:
        kids = []
        if isinstance(n, ast.BoolOp): kids = n.values
        elif isinstance(n, ast.BinOp): kids = [n.left, n.right]
        elif isinstance(n, ast.IfExp): kids = [n.body, n.orelse]
        elif isinstance(n, ast.UnaryOp): kids = [n.operand]
        elif isinstance(n, ast.Call) and isinstance(n.func, ast.Name) and n.func.id in ('abs', 'coalesce', 'min', 'max', 'concat', 'float', 'int', 'str') \
                and n.args and not isinstance(n.args[0], ast.GeneratorExp): kids = list(n.args)
        elif isinstance(n, ast.Call) and isinstance(n.func, ast.Attribute) and n.func.attr in ('upper', 'lower', 'strip', 'lstrip', 'rstrip'):
            kids = [n.func.value]
        elif isinstance(n, ast.Subscript): kids = [n.value]
        elif isinstance(n, ast.Compare) and len(n.ops) > 1:
            kids = [ast.Compare(n.left, n.ops[:1], n.comparators[:1]), ast.Compare(n.comparators[0], n.ops[1:], n.comparators[1:])]
        for k in kids:
            if n is tree: continue
            t = emit(replace(n, k))
            if t: yield t
        if isinstance(n, ast.Tuple) and n is tree.elt and len(n.elts) > 1:
            for i in range(len(n.elts)):
                rest = n.elts[:i] + n.elts[i + 1:]
                t = emit(replace(n, rest[0] if len(rest) == 1 else ast.Tuple(rest, ast.Load())))
                if t: yield t
        if isinstance(n, ast.GeneratorExp):
            for gi, g in enumerate(n.generators):
                for ci in range(len(g.ifs)):
                    t2 = copy.deepcopy(tree)
                    tn = list(ast.walk(t2))[nodes.index(n)]
                    del tn.generators[gi].ifs[ci]
                    t = emit(t2)
                    if t: yield t


def _data_candidates(schema, data):
    """Data sets with one row removed (references to it cleared; rows that REQUIRE it removed as well is not attempted)."""
    for root in [r.name for r in schema.roots()][::-1]:
        rows = data.get(root, [])
        for i in range(len(rows) - 1, -1, -1):
            pk = rows[i]['id']
            d2 = copy.deepcopy(data)
            del d2[root][i]
            ok = True
            for r2 in schema.roots():
                for row in d2.get(r2.name, []):
                    e = schema.ents[row['_cls']]
                    for a in e.attrs.values():
                        if a.is_scalar or a.name not in row or schema.ents[a.typ].root != root: continue
                        if a.is_ref and row[a.name] == pk:
                            if a.kind == 'req': ok = False
                            else: row[a.name] = None
                        elif a.is_set and isinstance(row[a.name], list) and pk in row[a.name]:
                            row[a.name] = [x for x in row[a.name] if x != pk]
            if ok: yield d2


def shrink(env, program, data, still_bad, budget=60):
    """Greedy reduction: still_bad(program, data) -> bool re-runs the monitor (it may reload env).  Returns the
    smallest (program, data) found within `budget` monitor runs."""
    schema = env.schema
    steps = [0]
    def test(p, d):
        if steps[0] >= budget: return False
        steps[0] += 1
        try: return bool(still_bad(p, d))
        except Exception: return False
    progress = True
    while progress and steps[0] < budget:
        progress = False
        if program.chain:
            for i in range(len(program.chain)):
                p2 = program.clone(chain=program.chain[:i] + program.chain[i + 1:])
                if test(p2, data): program, progress = p2, True; break
            if progress: continue
        for text in _src_candidates(program.src):
            lam = derive_lam(text, schema)
            if program.form == 'lam' and lam is None: continue
            p2 = program.clone(src=text, lam=lam)
            if test(p2, data): program, progress = p2, True; break
            if steps[0] >= budget: break
        if progress: continue
        for d2 in _data_candidates(schema, data):
            if test(program, d2): data, progress = d2, True; break
            if steps[0] >= budget: break
    return program, data

"""E2 part 2 — in-memory reference model of an entity diagram's data.

State.objs: {oid: Obj}; Obj.ent (entity name), Obj.vals {attr: value}:
scalar -> python value; ref -> oid|None; set -> python set of oids.
Links are kept on both ends by the operations below, which implement the
documented semantics of assignment / collection change / delete (cascade rules).

Every mutating operation works on the State in place and raises ModelRefuse
when the documented rules say the call must be refused:
  kind 'validation'  required attribute missing / set to None
  kind 'constraint'  unlink of a required one-to-one partner
  kind 'cascade'     delete refused by a required dependent without cascade   (C15: pony MUST raise)
Key conflicts are *not* refused by the model: duplicates are tolerated in the
working state and `State.dups()` is consulted at flush time (conflict timing is free).
Callers apply operations to a deepcopy and install it only when pony succeeded too.
"""
import copy


class ModelRefuse(Exception):
    def __init__(self, kind, msg=''):
        Exception.__init__(self, '%s: %s' % (kind, msg))
        self.kind = kind


class Obj(object):
    __slots__ = ('oid', 'ent', 'vals')

    def __init__(self, oid, ent, vals):
        self.oid, self.ent, self.vals = oid, ent, vals

    def __deepcopy__(self, memo):
        return Obj(self.oid, self.ent, {k: (set(v) if isinstance(v, set) else v) for k, v in self.vals.items()})


class State(object):
    def __init__(self, rules):
        self.rules = rules
        self.objs = {}
        self.cascade_revisit = False

    def copy(self):
        s = State(self.rules)
        s.objs = {k: copy.deepcopy(v) for k, v in self.objs.items()}
        return s

    # ---- helpers -----------------------------------------------------
    def er(self, o): return self.rules.ents[o.ent]

    def attr(self, o, name): return self.rules.ents[o.ent].attrs[name]

    def pk(self, oid):
        o = self.objs[oid]
        er = self.er(o)
        vals = []
        for n in er.pk:
            a = er.attrs[n]
            v = o.vals.get(n)
            if a.kind == 'ref' and v is not None: v = self.pk(v)
            vals.append(v)
        return tuple(vals)

    def key_value(self, oid, key):
        o = self.objs[oid]
        out = []
        for n in key:
            a = self.attr(o, n)
            v = o.vals.get(n)
            if a.kind == 'ref' and v is not None: v = ('ref', v)
            out.append(v)
        return tuple(out)

    def of_entity(self, ent):
        sub = self.rules.ents[ent].subclasses
        return [oid for oid, o in self.objs.items() if o.ent in sub]

    def dups(self):
        """[(root entity, key attrs, value, [oids])] for every duplicated pk/unique/composite key value."""
        out = []
        by_root = {}
        for oid, o in self.objs.items():
            by_root.setdefault(self.er(o).root, []).append(oid)
        for root, oids in by_root.items():
            seen = {}
            for oid in oids:
                o = self.objs[oid]
                for key in self.rules.unique_keys(o.ent):
                    if any(n not in self.er(o).attrs for n in key): continue
                    val = self.key_value(oid, key)
                    if any(v is None for v in val): continue
                    seen.setdefault((key, val), []).append(oid)
            for (key, val), l in seen.items():
                if len(l) > 1: out.append((root, key, val, sorted(l)))
        return out

    def norm_scalar(self, a, v, explicit=True):
        if v is None and not a.nullable and not a.required:
            if explicit: raise ModelRefuse('validation', '%s cannot be set to None' % a.name)
            return '' if a.type == 'str' else None
        return v

    # ---- low level link primitives (one side only) --------------------
    def _unlink_ref_side(self, oid, a):
        """oid.a (ref) := None without touching the other side."""
        self.objs[oid].vals[a.name] = None

    # ---- operations -----------------------------------------------------
    def create(self, oid, ent, kwargs):
        er = self.rules.ents[ent]
        for n in kwargs:
            if n not in er.attrs: raise ModelRefuse('type', 'unknown attribute %s' % n)
        vals = {}
        o = Obj(oid, ent, vals)
        for n, a in er.attrs.items():
            if a.kind == 'set': vals[n] = set()
            elif a.kind == 'ref': vals[n] = None
            else:
                if n in kwargs: v = self.norm_scalar(a, kwargs[n])
                elif a.has_default: v = a.default
                else: v = self.norm_scalar(a, None, explicit=False)
                if a.required and not a.auto and (v is None or v == ''):
                    raise ModelRefuse('validation', '%s.%s required' % (ent, n))
                vals[n] = v
        for n, a in er.attrs.items():
            if a.kind == 'ref' and a.required and kwargs.get(n) is None:
                raise ModelRefuse('validation', '%s.%s required' % (ent, n))
        self.objs[oid] = o
        for n, a in er.attrs.items():
            if a.kind == 'ref' and kwargs.get(n) is not None:
                self._assign_ref(oid, a, kwargs[n], creating=True)
        for n, a in er.attrs.items():
            if a.kind == 'set' and kwargs.get(n):
                self.coll_assign(oid, n, set(kwargs[n]))

    def set_scalar(self, oid, name, v):
        o = self.objs[oid]
        a = self.attr(o, name)
        if a.is_pk:
            if v == o.vals[name]: return
            raise ModelRefuse('type', 'cannot change primary key')
        v = self.norm_scalar(a, v)
        if a.required and (v is None or v == ''): raise ModelRefuse('validation', '%s required' % name)
        o.vals[name] = v

    def set_ref(self, oid, name, new):
        o = self.objs[oid]
        a = self.attr(o, name)
        if a.is_pk:
            if new == o.vals[name]: return
            raise ModelRefuse('type', 'cannot change primary key')
        if new is None and a.required: raise ModelRefuse('validation', '%s required' % name)
        if new is not None and not self.rules.isa(self.objs[new].ent, a.target):
            raise ModelRefuse('type', 'wrong entity')
        self._assign_ref(oid, a, new)

    def _assign_ref(self, oid, a, new, creating=False):
        """oid.a := new with reverse maintenance (documented semantics of assignment)."""
        o = self.objs[oid]
        r = self.rules.rev(a)
        old = o.vals.get(a.name)
        if old == new: return
        if r.kind == 'ref':                        # one-to-one
            if old is not None:
                if a.cascade: self.delete(old)
                elif r.required: raise ModelRefuse('constraint', 'cannot unlink required partner')
                else: self.objs[old].vals[r.name] = None
            if new is not None:
                if new not in self.objs: raise ModelRefuse('deleted', 'target deleted by cascade')
                prev = self.objs[new].vals.get(r.name)
                if prev is not None and prev != oid:
                    if a.required: raise ModelRefuse('constraint', 'cannot unlink required partner')
                    # the partner's previous owner loses it
                    self.objs[prev].vals[a.name] = None
                self.objs[new].vals[r.name] = oid
                if a.name == r.name and a.owner == r.owner:   # symmetric one-to-one
                    pass
            if oid in self.objs: self.objs[oid].vals[a.name] = new
        else:                                      # many-to-one: reverse is a collection
            if old is not None and old in self.objs: self.objs[old].vals[r.name].discard(oid)
            if new is not None: self.objs[new].vals[r.name].add(oid)
            o.vals[a.name] = new

    def coll_add(self, oid, name, items):
        o = self.objs[oid]
        a = self.attr(o, name)
        r = self.rules.rev(a)
        for it in items:
            if not self.rules.isa(self.objs[it].ent, a.target): raise ModelRefuse('type', 'wrong entity')
        items = [it for it in items if it not in o.vals[name]]
        if r.kind == 'ref':
            for it in items: self._assign_ref(it, r, oid)
        else:
            for it in items:
                o.vals[name].add(it)
                self.objs[it].vals[r.name].add(oid)

    def coll_remove(self, oid, name, items):
        o = self.objs[oid]
        a = self.attr(o, name)
        r = self.rules.rev(a)
        items = [it for it in items if it in o.vals[name]]
        if r.kind == 'ref':
            for it in items:
                if it not in self.objs: continue
                if a.cascade: self.delete(it)
                elif r.required: raise ModelRefuse('validation', '%s required' % r.name)
                else:
                    self.objs[it].vals[r.name] = None
                    o.vals[name].discard(it)
        else:
            for it in items:
                o.vals[name].discard(it)
                self.objs[it].vals[r.name].discard(oid)

    def coll_assign(self, oid, name, new_items):
        o = self.objs[oid]
        cur = set(o.vals[name])
        new_items = set(new_items)
        self.coll_remove(oid, name, sorted(cur - new_items))
        if oid in self.objs:
            self.coll_add(oid, name, sorted(new_items - cur))

    def delete(self, oid, _stack=None):
        if oid not in self.objs: return
        o = self.objs[oid]
        if _stack is None: _stack = set()
        if oid in _stack:
            self.cascade_revisit = True     # the cascade came back to an object that is being deleted (cycle)
            return
        _stack.add(oid)
        er = self.er(o)
        for n, a in er.attrs.items():
            if a.kind != 'set': continue
            items = sorted(o.vals[n])
            if not items: continue
            r = self.rules.rev(a)
            if a.cascade:
                for it in items: self.delete(it, _stack)
            elif not (r.kind == 'ref' and r.required):
                self.coll_assign(oid, n, set())
            else:
                raise ModelRefuse('cascade', 'non-empty set %s.%s with required reverse and no cascade' % (o.ent, n))
        for n, a in er.attrs.items():
            if a.kind != 'ref': continue
            r = self.rules.rev(a)
            v = o.vals.get(n)
            if v is None or v not in self.objs: continue
            if r.kind == 'ref':
                if a.cascade: self.delete(v, _stack)
                elif not r.required: self.objs[v].vals[r.name] = None
                else: raise ModelRefuse('cascade', 'associated %s.%s is required and no cascade' % (o.ent, n))
            else:
                self.objs[v].vals[r.name].discard(oid)
        del self.objs[oid]
        _stack.discard(oid)

    # ---- consistency of the model itself (sanity) ------------------------
    def check_links(self):
        for oid, o in self.objs.items():
            for n, a in self.er(o).attrs.items():
                if a.kind == 'scalar': continue
                r = self.rules.rev(a)
                v = o.vals[n]
                targets = [v] if a.kind == 'ref' else list(v)
                for t in targets:
                    if t is None: continue
                    assert t in self.objs, ('dangling', oid, n, t)
                    rv = self.objs[t].vals[r.name]
                    if r.kind == 'ref': assert rv == oid, ('asym', oid, n, t, rv)
                    else: assert oid in rv, ('asym', oid, n, t, rv)

"""E5 -- dialect shims: helper library behind the stub driver modules in /verif/shims.

The stub modules (shims/psycopg2/psycopg2, shims/MySQLdb/MySQLdb, shims/cx_Oracle/cx_Oracle.py)
are minimal DB-API modules so that pony's REAL PGProvider / MySQLProvider / OraProvider,
translators, SQL builders and schema generators run without a server.

Every stub module has a module-level CONNECTION_FACTORY (default: RecordConnection) that
its connect() / SessionPool.acquire() consult at call time, so a test can swap the class:

    import psycopg2; psycopg2.CONNECTION_FACTORY = MyExecutingConnection

RECORD MODE (RecordConnection): every statement is accepted and appended to the module's
shared LOG (and to conn.statements); version/catalog probes are answered with canned rows;
INSERT .. RETURNING / lastrowid / Oracle out-variables hand out fresh integer ids;
rowcount is 1 for UPDATE/DELETE so optimistic checks pass; plain SELECTs return no rows.
A `responder(sql, args) -> rows | None` attribute can be set on the log (LOG.responder)
to answer more statements.

Nothing here imports pony at module import time.
"""
import itertools, re, threading


# ----------------------------------------------------------------------------------------
# DB-API exception hierarchy factory (each stub module gets its own classes)
# ----------------------------------------------------------------------------------------
def make_exceptions(ns):
    class Warning(Exception): pass
    class Error(Exception):
        pgcode = None
    class InterfaceError(Error): pass
    class DatabaseError(Error): pass
    class DataError(DatabaseError): pass
    class OperationalError(DatabaseError): pass
    class IntegrityError(DatabaseError): pass
    class InternalError(DatabaseError): pass
    class ProgrammingError(DatabaseError): pass
    class NotSupportedError(DatabaseError): pass
    for c in (Warning, Error, InterfaceError, DatabaseError, DataError, OperationalError, IntegrityError,
              InternalError, ProgrammingError, NotSupportedError):
        ns[c.__name__] = c


# ----------------------------------------------------------------------------------------
# statement log
# ----------------------------------------------------------------------------------------
class StatementLog(object):
    """Shared by all connections of one stub module."""
    def __init__(self, flavor):
        self.flavor = flavor
        self.entries = []          # dicts {seq, conn, kind, sql, args}
        self.lock = threading.Lock()
        self.seq = itertools.count(1)
        self.ids = itertools.count(1)
        self.conn_ids = itertools.count(1)
        self.responder = None      # optional callable(sql, args) -> list of rows | None
    def add(self, conn, kind, sql, args):
        e = {'seq': next(self.seq), 'conn': conn, 'kind': kind, 'sql': sql, 'args': args}
        with self.lock: self.entries.append(e)
        return e
    def clear(self):
        with self.lock: del self.entries[:]
    def mark(self):
        return self.entries[-1]['seq'] if self.entries else 0
    def statements(self, since=0, kinds=('execute', 'executemany')):
        return [e for e in self.entries if e['seq'] > since and e['kind'] in kinds]
    def sql_texts(self, since=0):
        return [e['sql'] for e in self.statements(since)]


# canned answers: (flavor, compiled regex on the statement, rows)
_CANNED = [
    ('mysql', re.compile(r'^\s*select\s+version\(\)', re.I), [('8.0.33',)]),
    ('mysql', re.compile(r'^\s*select\s+database\(\)', re.I), [('verif',)]),
    ('mysql', re.compile(r"^\s*SHOW\s+VARIABLES\s+LIKE\s+'foreign_key_checks'", re.I), [('foreign_key_checks', 'ON')]),
    ('oracle', re.compile(r'^\s*SELECT\s+version\s+FROM\s+product_component_version', re.I), [('19.0.0.0.0',)]),
    ('oracle', re.compile(r"^\s*SELECT\s+sys_context", re.I), [('VERIF',)]),
]
# catalog probes (table/index/fk/sequence/trigger exists): "nothing exists yet"
_CATALOG = re.compile(r'\b(pg_catalog\.|pg_class|information_schema\.|all_tables|all_indexes|user_constraints|'
                      r'all_sequences|all_triggers|sqlite_master)\b', re.I)


class Var(object):
    """cx_Oracle cursor.var() stand-in (out-bind for RETURNING .. INTO :new_id)."""
    def __init__(self, cursor, typ=None, size=None, arraysize=None, outconverter=None, **kw):
        self.cursor, self.outconverter, self.value = cursor, outconverter, None
    def getvalue(self, pos=0):
        return self.value
    def setvalue(self, pos, value):
        self.value = value


class RecordCursor(object):
    arraysize = 50
    def __init__(self, connection):
        self.connection = connection
        self.rows = []
        self.rowcount = -1
        self.lastrowid = None
        self.description = None
        self.closed = False
    # -- helpers ----
    def _answer(self, sql, args):
        log = self.connection.log
        if log.responder is not None:
            r = log.responder(sql, args)
            if r is not None: return list(r)
        for flavor, rx, rows in _CANNED:
            if flavor == log.flavor and rx.search(sql): return list(rows)
        return None
    def execute(self, sql, args=None):
        conn = self.connection
        conn.log.add(conn.id, 'execute', sql, args)
        conn.statements.append((sql, args))
        self.rows, self.rowcount, self.lastrowid = [], -1, None
        head = sql.lstrip().split(None, 1)[0].upper() if sql.strip() else ''
        ans = self._answer(sql, args)
        if ans is not None:
            self.rows = ans
            self.rowcount = len(ans)
        elif head == 'INSERT':
            new_id = next(conn.log.ids)
            self.rowcount = 1
            self.lastrowid = new_id
            if re.search(r'\bRETURNING\b', sql, re.I):
                if isinstance(args, dict) and isinstance(args.get('new_id'), Var):
                    args['new_id'].value = new_id          # Oracle: RETURNING "ID" INTO :new_id
                else:
                    self.rows = [(new_id,)]                # PostgreSQL: RETURNING "id"
        elif head in ('UPDATE', 'DELETE'):
            self.rowcount = 1
        elif head == 'SELECT' or head == 'SHOW':
            self.rows = []                                 # catalog probes and queries: no rows
            self.rowcount = 0
            if _CATALOG.search(sql): conn.log_catalog_probes += 1
        return self
    def executemany(self, sql, seq_of_args):
        conn = self.connection
        seq_of_args = list(seq_of_args)
        conn.log.add(conn.id, 'executemany', sql, seq_of_args)
        conn.statements.append((sql, seq_of_args))
        self.rows, self.rowcount = [], len(seq_of_args)
    def fetchone(self):
        return self.rows.pop(0) if self.rows else None
    def fetchmany(self, size=None):
        size = size or self.arraysize
        out, self.rows = self.rows[:size], self.rows[size:]
        return out
    def fetchall(self):
        out, self.rows = self.rows, []
        return out
    def __iter__(self):
        return iter(self.fetchall())
    def close(self):
        self.closed = True
    # cx_Oracle specifics
    def var(self, *a, **kw):
        return Var(self, *a, **kw)
    def setinputsizes(self, *a, **kw):
        pass
    def setoutputsize(self, *a, **kw):
        pass


class RecordConnection(object):
    """Accept-everything connection.  Subclass / replace through <stub module>.CONNECTION_FACTORY."""
    cursor_class = RecordCursor
    server_version = 160000          # psycopg2: connection.server_version (PostgreSQL 16)
    def __init__(self, log, *args, **kwargs):
        self.log = log
        self.id = next(log.conn_ids)
        self.connect_args, self.connect_kwargs = args, kwargs
        self.statements = []
        self.autocommit = False
        self.closed = 0
        self.encoding = None
        self.outputtypehandler = None
        self.log_catalog_probes = 0
        self.commits = self.rollbacks = 0
        log.add(self.id, 'connect', None, None)
    def cursor(self, *a, **kw):
        return self.cursor_class(self)
    def commit(self):
        self.commits += 1
        self.log.add(self.id, 'commit', None, None)
    def rollback(self):
        self.rollbacks += 1
        self.log.add(self.id, 'rollback', None, None)
    def close(self):
        self.closed += 1
        self.log.add(self.id, 'close', None, None)
    def set_client_encoding(self, enc):
        self.encoding = enc
    def ping(self, *a):
        pass


class SessionPool(object):
    """cx_Oracle.SessionPool stand-in; `module` is the stub module (for CONNECTION_FACTORY)."""
    def __init__(self, module, **kwargs):
        self.module, self.kwargs = module, kwargs
        self.acquired = 0
    def acquire(self):
        self.acquired += 1
        return self.module.CONNECTION_FACTORY(self.module.LOG, **self.kwargs)
    def release(self, con):
        con.rollback()
    def drop(self, con):
        con.close()


# ----------------------------------------------------------------------------------------
# binding helpers for checks
# ----------------------------------------------------------------------------------------
PROVIDERS = {   # name -> (pony provider name, stub module, bind args, bind kwargs)
    'postgres': ('postgres', 'psycopg2', (), {'user': 'u', 'password': 'p', 'host': 'h', 'database': 'd'}),
    'cockroach': ('cockroach', 'psycopg2', (), {'user': 'u', 'password': 'p', 'host': 'h', 'database': 'd'}),
    'mysql': ('mysql', 'MySQLdb', (), {'host': 'h', 'user': 'u', 'passwd': 'p', 'db': 'verif'}),
    'oracle': ('oracle', 'cx_Oracle', ('u/p@dsn',), {}),
}


def stub_module(name):
    """Import and return the stub driver module behind provider `name`; assert it IS the stub."""
    import importlib
    mod = importlib.import_module(PROVIDERS[name][1])
    assert getattr(mod, 'IS_VERIF_SHIM', False), '%s is not the verif shim: %r' % (PROVIDERS[name][1], mod)
    return mod


def bind(db, name, **extra):
    """db.bind(<dialect>) against the stub driver; returns the stub module's StatementLog."""
    pname, _, args, kwargs = PROVIDERS[name]
    mod = stub_module(name)
    kw = dict(kwargs); kw.update(extra)
    db.bind(pname, *args, **kw)
    return mod.LOG


def make_generic_provider_class(paramstyle='qmark', dialect_name=None):
    """A provider built only from the dialect-neutral base classes (base SQLBuilder, base
    SQLTranslator, base DBSchema) on a record-mode connection -- the 'generic' code path --
    with a selectable DB-API paramstyle."""
    from pony.orm import dbapiprovider, dbschema, sqltranslation, sqlbuilding, ormtypes
    from pony.orm.dbapiprovider import DBAPIProvider
    from pony.py23compat import buffer, int_types
    from decimal import Decimal
    from datetime import datetime, date, time, timedelta
    from uuid import UUID
    import types
    style = paramstyle

    log = StatementLog('generic')
    mod = types.ModuleType('verif_generic_dbapi_' + style)
    make_exceptions(mod.__dict__)
    mod.paramstyle = style
    mod.LOG = log
    mod.CONNECTION_FACTORY = RecordConnection
    mod.IS_VERIF_SHIM = True
    def connect(*a, **kw):
        return mod.CONNECTION_FACTORY(mod.LOG, *a, **kw)
    mod.connect = connect

    class GenericSchema(dbschema.DBSchema):
        dialect = dialect_name
    class GenericTranslator(sqltranslation.SQLTranslator):
        dialect = dialect_name
    class GenericBuilder(sqlbuilding.SQLBuilder):
        dialect = dialect_name
    class GenericProvider(DBAPIProvider):
        dialect = dialect_name
        paramstyle = style
        dbapi_module = mod
        dbschema_cls = GenericSchema
        translator_cls = GenericTranslator
        sqlbuilder_cls = GenericBuilder
        server_version = (1, 0)
        converter_classes = [
            (type(None), dbapiprovider.NoneConverter),
            (bool, dbapiprovider.BoolConverter),
            (str, dbapiprovider.StrConverter),
            (int_types, dbapiprovider.IntConverter),
            (float, dbapiprovider.RealConverter),
            (Decimal, dbapiprovider.DecimalConverter),
            (datetime, dbapiprovider.DatetimeConverter),
            (date, dbapiprovider.DateConverter),
            (time, dbapiprovider.TimeConverter),
            (timedelta, dbapiprovider.TimedeltaConverter),
            (UUID, dbapiprovider.UuidConverter),
            (buffer, dbapiprovider.BlobConverter),
            (ormtypes.Json, dbapiprovider.JsonConverter),
        ]
        def table_exists(provider, connection, table_name, case_sensitive=True): return None
        def index_exists(provider, connection, table_name, index_name, case_sensitive=True): return None
        def fk_exists(provider, connection, table_name, fk_name, case_sensitive=True): return None
    GenericProvider.LOG = log
    GenericProvider.stub = mod
    return GenericProvider


def with_paramstyle(provider_cls, paramstyle):
    """Subclass of a real provider class whose only difference is the DB-API paramstyle
    (the real SQLBuilder then renders the other placeholder forms)."""
    return type(provider_cls.__name__ + '_' + paramstyle, (provider_cls,), {'paramstyle': paramstyle})


def provider_class(name):
    import importlib
    stub_module(name)
    return importlib.import_module('pony.orm.dbproviders.' + PROVIDERS[name][0]).provider_cls


def bind_class(db, name, provider_cls):
    """Bind `db` to an explicit provider class derived from dialect `name` (see with_paramstyle)."""
    _, _, args, kwargs = PROVIDERS[name]
    db.bind(provider_cls, *args, **kwargs)
    return stub_module(name).LOG


# ========================================================================================
# Dialect lexical models (trusted base of C06; reusable by the execute-mode shim)
# ========================================================================================
# backslash: backslash is an escape character inside '...' literals (MySQL default sql_mode;
#            PostgreSQL has standard_conforming_strings=on since 9.1 => no).
# like_escape: default escape character of LIKE when no ESCAPE clause is given
#            (PostgreSQL and MySQL: backslash; Oracle, SQLite, SQL standard: none).
LEXICAL = {
    'sqlite':   {'ident': '"`', 'backslash': False, 'like_escape': None},
    'generic':  {'ident': '"',  'backslash': False, 'like_escape': None},
    'postgres': {'ident': '"',  'backslash': False, 'like_escape': '\\'},
    'cockroach': {'ident': '"', 'backslash': False, 'like_escape': '\\'},
    'mysql':    {'ident': '`',  'backslash': True,  'like_escape': '\\'},
    'oracle':   {'ident': '"',  'backslash': False, 'like_escape': None},
}
MYSQL_ESCAPES = {'0': '\0', "'": "'", '"': '"', 'b': '\b', 'n': '\n', 'r': '\r', 't': '\t', 'Z': '\x1a', '\\': '\\'}


class LexError(Exception):
    pass


class DriverFormatError(Exception):
    """The driver's %-formatting of the statement fails or consumes a different number of arguments."""


MARK = '\x01'


def driver_view(style, sql, args):
    """What the server receives, with every bound argument replaced by a marker \\x01<key>\\x01.
    format/pyformat drivers (MySQLdb, psycopg2) run Python %-formatting over the WHOLE text when
    args is not None -- they do not lex SQL -- so this uses Python's own % operator."""
    if style in ('format', 'pyformat'):
        if args is None: return sql
        try:
            if style == 'format':
                if isinstance(args, dict): raise DriverFormatError('format style got a mapping')
                return sql % tuple('%s%d%s' % (MARK, i, MARK) for i in range(len(args)))
            if not isinstance(args, dict): raise DriverFormatError('pyformat style got a sequence')
            class Used(dict):
                def __init__(self): dict.__init__(self); self.used = set()
                def __getitem__(self, k):
                    if k not in args: raise KeyError(k)
                    self.used.add(k); return '%s%s%s' % (MARK, k, MARK)
                # a positional conversion (%s, %r, ..) in a pyformat statement would consume the whole mapping;
                # psycopg2 refuses it ("dict is not a sequence")
                def __str__(self): raise TypeError('positional format conversion with mapping arguments')
                __repr__ = __str__
            u = Used()
            out = sql % u
            return out
        except (TypeError, ValueError, KeyError) as e:
            raise DriverFormatError('%s: %s' % (type(e).__name__, e))
    return sql


def lex(sql, dialect, style, backslash=None):
    """Tokenize the effective statement (see driver_view) under the dialect's lexical rules.
    -> list of (kind, text, value); kinds: str ident ph num word op.  Raises LexError."""
    rules = LEXICAL[dialect]
    bs = rules['backslash'] if backslash is None else backslash
    out, i, n = [], 0, len(sql)
    while i < n:
        ch = sql[i]
        if ch.isspace(): i += 1; continue
        if ch == "'":
            j, buf = i + 1, []
            while True:
                if j >= n: raise LexError('unterminated string literal at %d' % i)
                c = sql[j]
                if c == "'":
                    if j + 1 < n and sql[j + 1] == "'": buf.append("'"); j += 2; continue
                    j += 1; break
                if c == '\\' and bs:
                    if j + 1 >= n: raise LexError('dangling backslash')
                    e = sql[j + 1]
                    if e in MYSQL_ESCAPES: buf.append(MYSQL_ESCAPES[e])
                    elif e in '%_': buf.append('\\' + e)       # kept for pattern matching contexts
                    else: buf.append(e)
                    j += 2; continue
                buf.append(c); j += 1
            out.append(('str', sql[i:j], ''.join(buf))); i = j; continue
        if ch in rules['ident']:
            j, buf = i + 1, []
            while True:
                if j >= n: raise LexError('unterminated identifier at %d' % i)
                c = sql[j]
                if c == ch:
                    if j + 1 < n and sql[j + 1] == ch: buf.append(ch); j += 2; continue
                    j += 1; break
                buf.append(c); j += 1
            out.append(('ident', sql[i:j], ''.join(buf))); i = j; continue
        if ch == '"' or ch == '`':
            raise LexError('quote character %r is not an identifier quote in %s' % (ch, dialect))
        if ch == MARK:
            j = sql.index(MARK, i + 1)
            key = sql[i + 1:j]
            out.append(('ph', sql[i:j + 1], int(key) if style == 'format' else key)); i = j + 1; continue
        if ch == '?' and style == 'qmark':
            out.append(('ph', '?', None)); i += 1; continue
        if ch == ':' and i + 1 < n and (sql[i + 1].isalnum() or sql[i + 1] == '_') and style in ('named', 'numeric'):
            j = i + 1
            while j < n and (sql[j].isalnum() or sql[j] == '_'): j += 1
            key = sql[i + 1:j]
            if style == 'numeric':
                if not key.isdigit(): raise LexError('numeric style placeholder %r' % sql[i:j])
                out.append(('ph', sql[i:j], int(key) - 1))
            else: out.append(('ph', sql[i:j], key))
            i = j; continue
        if ch.isdigit() or (ch == '.' and i + 1 < n and sql[i + 1].isdigit()):
            m = re.compile(r'\d*\.?\d*(?:[eE][-+]?\d+)?').match(sql, i)
            out.append(('num', m.group(0), m.group(0))); i = m.end(); continue
        if ch.isalpha() or ch == '_':
            j = i + 1
            while j < n and (sql[j].isalnum() or sql[j] in '_$#'): j += 1
            out.append(('word', sql[i:j], sql[i:j].upper())); i = j; continue
        for op in ('||', '<>', '>=', '<=', '!=', '::', '#>>', '#>'):
            if sql.startswith(op, i):
                out.append(('op', op, op)); i += len(op); break
        else:
            out.append(('op', ch, ch)); i += 1
    return out


def resolve(tokens, style, args):
    """-> list of (token_index, value) for every placeholder; raises DriverFormatError on count/name mismatch."""
    out, k = [], 0
    for idx, (kind, text, val) in enumerate(tokens):
        if kind != 'ph': continue
        try:
            if style == 'qmark': v = args[k]
            elif style in ('format', 'numeric'): v = args[val]
            else: v = args[val]
        except (IndexError, KeyError, TypeError):
            raise DriverFormatError('placeholder %r has no argument in %r' % (text, args))
        out.append((idx, v)); k += 1
    return out


def skeleton(tokens):
    """Token skeleton: literals and identifiers blanked."""
    m = {'str': 'S', 'ident': 'I', 'num': 'N', 'ph': 'P'}
    return ' '.join(m.get(k) or v for (k, t, v) in tokens)


def like_match(value, pattern, esc):
    """SQL LIKE (case sensitive) with escape character `esc` (None = no escape character)."""
    if value is None or pattern is None: return None
    rx, i = [], 0
    while i < len(pattern):
        c = pattern[i]
        if esc is not None and c == esc:
            if i + 1 < len(pattern): rx.append(re.escape(pattern[i + 1])); i += 2; continue
            rx.append(re.escape(c)); i += 1; continue       # dangling escape: PostgreSQL errors; treated literally
        if c == '%': rx.append('.*')
        elif c == '_': rx.append('.')
        else: rx.append(re.escape(c))
        i += 1
    return 1 if re.compile(''.join(rx), re.S).fullmatch(value) else 0


EVAL_WORDS = {'SELECT', 'DISTINCT', 'FROM', 'WHERE', 'AND', 'OR', 'NOT', 'LIKE', 'ESCAPE', 'IN', 'IS', 'NULL', 'AS',
              'REPLACE', 'CONCAT', 'COALESCE'}


def to_sqlite(tokens, style, args):
    """Re-emit a lexed statement for SQLite with every literal and argument bound as a parameter.
    -> (sql, params) or None if the statement uses anything outside the whitelist."""
    out, params = [], []
    res = dict(resolve(tokens, style, args)) if any(k == 'ph' for k, _, _ in tokens) else {}
    for idx, (kind, text, val) in enumerate(tokens):
        if kind == 'str': out.append('?'); params.append(val)
        elif kind == 'ph': out.append('?'); params.append(res[idx])
        elif kind == 'ident': out.append('"%s"' % val.replace('"', '""'))
        elif kind == 'num': out.append(text)
        elif kind == 'word':
            if val not in EVAL_WORDS: return None
            out.append(val)
        elif kind == 'op':
            if text not in ('(', ')', ',', '.', '=', '<>', '||', '<', '>', '<=', '>='): return None
            out.append(text)
        else: return None
    return ' '.join(out), params


def register_string_model(con, dialect, like_escape='default'):
    """SQLite UDFs giving LIKE / CONCAT the dialect's semantics (LIKE: case-sensitive, default escape char)."""
    esc = LEXICAL[dialect]['like_escape'] if like_escape == 'default' else like_escape
    con.create_function('like', 2, lambda pattern, value: like_match(value, pattern, esc))
    con.create_function('like', 3, lambda pattern, value, e: like_match(value, pattern, e))
    con.create_function('concat', -1, lambda *a: None if any(x is None for x in a) else ''.join(str(x) for x in a))

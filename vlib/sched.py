"""E4 — deterministic thread scheduler.

Worker threads run session programs; exactly ONE worker is runnable at a time.
At every *yield point* the running worker asks a chooser who runs next and, if
it is not itself, wakes that worker and parks on its own semaphore.  So a
schedule is fully described by the sequence of choices; it is logged and can
be replayed.

Yield-point kinds (enabled per run through `levels`):

  'op'    between harness-level operations of a session program
          (the program calls `handle.op_yield()` between its steps)
  'stmt'  every DB-API boundary call (vlib.dbapi.Recorder.yield_hook)
  'line'  every source line inside selected code objects (sys.monitoring LINE
          events enabled with set_local_events on exactly those code objects)
  'lock'  waits for the SQLite provider's process-wide transaction lock: the
          harness wraps SQLiteProvider.acquire_lock so that a thread that finds
          the lock taken becomes *blocked* (a scheduler state); it is eligible
          again when the lock is free.  The real acquire_lock then runs.
  'wait'  harness-level hand-shakes (`handle.wait_for(pred)`)
  'busy'  SQLite answered SQLITE_BUSY ("database is locked") to a statement or COMMIT issued through a
          connection made by `busy_retry_factory`: instead of sleeping in SQLite's busy handler (nobody else
          could run meanwhile) the worker gives other workers a turn and retries, up to a bounded number of
          turns, then the error surfaces exactly as after an expired busy timeout.  Only used where a yield
          point can sit between a reader's execute() and its fetch (line granularity).

If no worker is eligible (all blocked) the schedule is a DEADLOCK: recorded,
all workers are released with ScheduleAbort and unwind concurrently.  A
wall-clock watchdog in the controlling thread does the same with status
'watchdog' — callers must treat both as *inconclusive*, never as a verdict.

Nothing here imports pony at module level.
"""
import sys, threading, time, hashlib, itertools, math

_TOOL_NAME = 'ponyverif-sched'


class ScheduleAbort(BaseException):
    """Raised inside workers when a schedule is aborted (deadlock / watchdog)."""


# --------------------------------------------------------------------------
# interleaving enumeration (operation granularity)
# --------------------------------------------------------------------------

def n_interleavings(counts):
    n = math.factorial(sum(counts))
    for c in counts: n //= math.factorial(c)
    return n


def interleavings(counts):
    """All sequences over thread indices 0..k-1 in which index i occurs counts[i] times (lexicographic)."""
    counts = list(counts)
    total = sum(counts)
    seq = []
    def rec():
        if len(seq) == total:
            yield tuple(seq); return
        for i in range(len(counts)):
            if counts[i]:
                counts[i] -= 1; seq.append(i)
                for s in rec(): yield s
                seq.pop(); counts[i] += 1
    return rec()


def sample_interleavings(counts, n, rng):
    """n distinct random interleavings (or all of them if there are not more than n)."""
    total = n_interleavings(counts)
    if total <= n: return list(interleavings(counts))
    base = [i for i, c in enumerate(counts) for _ in range(c)]
    seen = set()
    out = []
    tries = 0
    while len(out) < n and tries < 20 * n:
        tries += 1
        s = base[:]; rng.shuffle(s); s = tuple(s)
        if s not in seen: seen.add(s); out.append(s)
    return out


# --------------------------------------------------------------------------
# choosers
# --------------------------------------------------------------------------

class Chooser(object):
    def first(self, sched, eligible): return eligible[0]
    def choose(self, sched, cur, eligible, label): return cur if cur in eligible else eligible[0]


class SequenceChooser(Chooser):
    """Operation-level interleaving: entry i of `seq` names the worker that executes the i-th global step.
    A worker whose step is interrupted by a lock wait is resumed (without consuming an entry) as soon as it is
    eligible again; meanwhile the first entry of the remaining sequence that names an eligible worker is consumed."""
    def __init__(self, seq):
        self.seq = list(seq)
        self.interrupted = []
        self.deviated = 0

    def _pop(self, eligible, cur):
        for w in list(self.interrupted):
            if w in eligible:
                self.interrupted.remove(w); return w
        names = {w.name: w for w in eligible if w not in self.interrupted}
        for i, n in enumerate(self.seq):
            if n in names:
                if i: self.deviated += 1
                del self.seq[i]
                return names[n]
        self.deviated += 1
        return cur if cur in eligible else eligible[0]

    def first(self, sched, eligible):
        return self._pop(eligible, None)

    def choose(self, sched, cur, eligible, label):
        kind = label[0]
        if kind in ('op', 'end'):
            return self._pop(eligible, cur)
        if kind in ('lock', 'wait', 'busy'):
            if cur in eligible: return cur
            if cur not in self.interrupted: self.interrupted.append(cur)
            return self._pop(eligible, cur)
        return cur if cur in eligible else self._pop(eligible, cur)


class RandomChooser(Chooser):
    """Seeded random choice at every yield point; `stick` = probability of staying with the running worker."""
    def __init__(self, rng, stick=0.5):
        self.rng, self.stick = rng, stick

    def first(self, sched, eligible):
        return self.rng.choice(eligible)

    def choose(self, sched, cur, eligible, label):
        if cur in eligible:
            if len(eligible) == 1 or self.rng.random() < self.stick: return cur
            others = [w for w in eligible if w is not cur]
            return self.rng.choice(others)
        return self.rng.choice(eligible)


class PreemptChooser(Chooser):
    """Few-preemption schedules (PCT-like): the running worker keeps running except at `k` preemption points
    drawn uniformly from the expected number of yield points `horizon`; at a preemption point (and whenever the
    running worker ends or blocks) another eligible worker is drawn at random."""
    def __init__(self, rng, horizon, k):
        self.rng = rng
        self.points = set(rng.randrange(max(1, horizon)) for _ in range(k))
        self.n = 0

    def first(self, sched, eligible):
        return self.rng.choice(eligible)

    def choose(self, sched, cur, eligible, label):
        self.n += 1
        if cur in eligible and (self.n not in self.points or len(eligible) == 1): return cur
        others = [w for w in eligible if w is not cur] or eligible
        return self.rng.choice(others)


class ReplayChooser(Chooser):
    """Follow a recorded list of choices (worker names, one per decision point)."""
    def __init__(self, choices):
        self.choices = list(choices); self.i = 0; self.diverged = 0

    def _next(self, eligible, cur):
        if self.i < len(self.choices):
            n = self.choices[self.i]; self.i += 1
            for w in eligible:
                if w.name == n: return w
        self.diverged += 1
        return cur if cur in eligible else eligible[0]

    def first(self, sched, eligible): return self._next(eligible, None)
    def choose(self, sched, cur, eligible, label): return self._next(eligible, cur)


# --------------------------------------------------------------------------
# the scheduler
# --------------------------------------------------------------------------

class Worker(object):
    def __init__(self, name, fn):
        self.name, self.fn = name, fn
        self.sem = threading.Semaphore(0)
        self.done = False
        self.blocked = None          # None or a callable: ready() -> bool
        self.blocked_on = None
        self.result = None
        self.exc = None
        self.aborted = False
        self.thread = None
        self.steps = 0               # op-level steps finished
        self.lock_waits = 0          # times blocked because the SQLite transaction lock was taken
        self.other_waits = 0         # harness hand-shakes (wait_for)
        self.busy_waits = 0          # turns given away after SQLITE_BUSY
        self.busy_released = True
        self.sched = None

    # --- API for session programs ---
    def op_yield(self, tag=None):
        """Call BETWEEN two harness-level steps."""
        self.steps += 1
        self.sched.yield_point('op', tag if tag is not None else self.steps, w=self)

    def wait_for(self, pred, what='cond'):
        """Block (as a scheduler state) until pred() is true."""
        self.sched.block(self, pred, ('wait', what))

    def __repr__(self): return '<W %s>' % self.name


class Scheduler(object):
    """One Scheduler object runs ONE schedule (`run`)."""
    TRACE_KEEP = 400

    def __init__(self, chooser, levels=('op', 'lock'), watchdog=30.0):
        self.chooser = chooser
        self.levels = set(levels) | {'lock', 'wait', 'end', 'busy'}
        self.watchdog = watchdog
        self.workers = []
        self.by_ident = {}
        self.running = False
        self.aborted = False
        self.status = 'ok'            # ok | deadlock | watchdog
        self.status_detail = None
        self.choices = []             # worker name per decision point (replayable)
        self.trace = []               # (worker, label) for every yield event (tail kept)
        self.n_events = 0
        self.n_switches = 0
        self.kind_counts = {}
        self._h = hashlib.blake2b(digest_size=8)
        self._mu = threading.Lock()   # only for abort bookkeeping

    # -- identification ---------------------------------------------------
    def me(self):
        return self.by_ident.get(threading.get_ident())

    def _eligible(self):
        out = []
        for w in self.workers:
            if w.done: continue
            if w.blocked is not None:
                try: ok = w.blocked()
                except Exception: ok = True
                if not ok: continue
            out.append(w)
        return out

    def _log(self, w, label):
        self.n_events += 1
        k = label[0]
        self.kind_counts[k] = self.kind_counts.get(k, 0) + 1
        self._h.update(('%s|%r;' % (w.name, label)).encode())
        if len(self.trace) >= 2 * self.TRACE_KEEP: del self.trace[:self.TRACE_KEEP]
        self.trace.append((w.name, label))

    @property
    def signature(self):
        return self._h.hexdigest()

    # -- yield points -----------------------------------------------------
    def yield_point(self, kind, detail=None, w=None):
        if not self.running or self.aborted: return
        if kind not in self.levels: return
        if w is None:
            w = self.me()
            if w is None: return
        label = (kind, detail)
        self._log(w, label)
        self._decide(w, label)

    def block(self, w, ready, label):
        """w cannot proceed until ready() is true."""
        if not self.running or self.aborted: return False
        first = True
        while not ready():
            if self.aborted: return False
            if first:
                first = False
                if label[0] == 'lock': w.lock_waits += 1
                else: w.other_waits += 1
                self._log(w, label)
            w.blocked, w.blocked_on = ready, label
            try: self._decide(w, label)
            finally: w.blocked = w.blocked_on = None
        return True

    def busy_wait(self, w, n):
        """w got SQLITE_BUSY: let somebody else run up to their next yield point.  False = nobody else can run
        (or not a managed thread): the caller re-raises, like an expired busy timeout."""
        if not self.running or self.aborted: return False
        for x in self.workers:
            if x is not w: x.busy_released = True      # my failed attempt counts as a turn for the others
        if not any(x is not w for x in self._eligible()): return False
        w.busy_waits += 1
        label = ('busy', n if n < 3 else 3)
        self._log(w, label)
        w.busy_released = False
        w.blocked, w.blocked_on = (lambda: w.busy_released), label
        try: self._decide(w, label)
        finally: w.blocked = w.blocked_on = None; w.busy_released = True
        return True

    def _decide(self, w, label):
        for x in self.workers:
            if x is not w: x.busy_released = True      # somebody else made progress
        elig = self._eligible()
        if not elig:
            self._abort('deadlock', {'at': (w.name, label), 'blocked': {x.name: x.blocked_on for x in self.workers if not x.done}})
            raise ScheduleAbort()
        nxt = self.chooser.choose(self, w, elig, label)
        self.choices.append(nxt.name)
        if nxt is w: return
        self.n_switches += 1
        nxt.sem.release()
        w.sem.acquire()
        if self.aborted: raise ScheduleAbort()

    def _abort(self, status, detail=None):
        with self._mu:
            if self.aborted: return
            self.aborted = True
            self.status, self.status_detail = status, detail
        for x in self.workers:
            x.sem.release()          # wake everybody; they raise ScheduleAbort when they return from parking

    # -- worker body ------------------------------------------------------
    def _body(self, w):
        self.by_ident[threading.get_ident()] = w
        w.sem.acquire()
        try:
            if self.aborted: raise ScheduleAbort()
            w.result = w.fn(w)
        except ScheduleAbort:
            w.aborted = True
        except BaseException as e:
            w.exc = e
        finally:
            w.done = True
            w.blocked = None
            self._on_done(w)

    def _on_done(self, w):
        if self.aborted: return
        label = ('end', None)
        self._log(w, label)
        for x in self.workers: x.busy_released = True
        if all(x.done for x in self.workers): return
        elig = self._eligible()
        if not elig:
            self._abort('deadlock', {'at': (w.name, label), 'blocked': {x.name: x.blocked_on for x in self.workers if not x.done}})
            return
        nxt = self.chooser.choose(self, w, elig, label)
        self.choices.append(nxt.name)
        self.n_switches += 1
        nxt.sem.release()

    # -- run --------------------------------------------------------------
    def run(self, programs):
        """programs: list of (name, fn(worker) -> result).  Returns self (see .workers, .status, .choices)."""
        self.workers = [Worker(n, f) for n, f in programs]
        for w in self.workers:
            w.sched = self
            w.thread = threading.Thread(target=self._body, args=(w,), name='sched-' + w.name, daemon=True)
        for w in self.workers: w.thread.start()
        self.running = True
        first = self.chooser.first(self, list(self.workers))
        self.choices.append(first.name)
        first.sem.release()
        deadline = time.time() + self.watchdog
        for w in self.workers:
            w.thread.join(max(0.0, deadline - time.time()))
        if any(w.thread.is_alive() for w in self.workers):
            if not self.aborted:
                self._abort('watchdog', {'alive': [w.name for w in self.workers if w.thread.is_alive()],
                                         'tail': self.trace[-10:]})
            d2 = time.time() + 5.0
            for w in self.workers: w.thread.join(max(0.0, d2 - time.time()))
        self.running = False
        self.leaked = [w.name for w in self.workers if w.thread.is_alive()]
        return self

    def outcome(self, name):
        for w in self.workers:
            if w.name == name: return w
        raise KeyError(name)


# --------------------------------------------------------------------------
# glue: the "current scheduler" used by the hooks below
# --------------------------------------------------------------------------

class Hub(object):
    """Process-wide switchboard: hooks (recorder, line events, lock wrapper) are installed once and forward to
    whatever Scheduler is current."""
    def __init__(self):
        self.sched = None
        self.tool = None
        self.codes = {}
        self.guard_codes = {}
        self.line_events = 0
        self.hits = {}               # co_name -> LINE events seen in workers (before focus filtering)
        self.focus = None            # None = all installed code objects, else a set of code objects
        self._lock_wrapped = None

    # -- statement granularity ------------------------------------------
    STMT_KINDS = ('execute', 'executemany', 'commit', 'rollback', 'connect')

    def recorder_hook(self, ev):
        s = self.sched
        if s is None or not s.running or s.aborted: return
        if ev['kind'] not in self.STMT_KINDS: return
        sql = ev.get('sql')
        s.yield_point('stmt', (ev['kind'], sql[:24] if isinstance(sql, str) else None))

    def attach_recorder(self, rec):
        rec.yield_hook = self.recorder_hook

    # -- SQLITE_BUSY as a scheduler state ----------------------------------
    def busy_retry_factory(self, rec, max_turns=2000):
        """Connection factory derived from rec.factory(): execute/executemany/commit that fail with
        'database is locked' are retried after other workers had a turn (bind with timeout=0)."""
        import sqlite3
        hub = self
        Base = rec.factory()
        probe = Base(':memory:'); VCur = type(probe.cursor()); probe.close()

        def again(e, n):
            if 'locked' not in str(e) and 'busy' not in str(e): return False
            s = hub.sched
            if s is None or n > max_turns: return False
            w = s.by_ident.get(threading.get_ident())
            if w is None: return False
            return s.busy_wait(w, n)

        class RCursor(VCur):
            def execute(self, sql, *a):
                n = 0
                while True:
                    try: return VCur.execute(self, sql, *a)
                    except sqlite3.OperationalError as e:
                        n += 1
                        if not again(e, n): raise
            def executemany(self, sql, seq):
                seq = list(seq); n = 0
                while True:
                    try: return VCur.executemany(self, sql, seq)
                    except sqlite3.OperationalError as e:
                        n += 1
                        if not again(e, n): raise

        class RConn(Base):
            def cursor(self, *a, **kw):
                rec.emit('cursor', 'call', self._vid)
                c = sqlite3.Connection.cursor(self, RCursor)
                rec.emit('cursor', 'ret', self._vid)
                return c
            def commit(self):
                n = 0
                while True:
                    try: return Base.commit(self)
                    except sqlite3.OperationalError as e:
                        n += 1
                        if not again(e, n): raise
        return RConn

    # -- line granularity -------------------------------------------------
    def install_lines(self, code_objects, guards=None):
        """Enable LINE events on exactly these code objects.  guards: {code: fn(frame) -> bool}; when the guard
        returns True the line is NOT a yield point (used for code that holds a real lock)."""
        mon = sys.monitoring
        if self.tool is None:
            for tid in (4, 3, 5, 2, 1):
                if mon.get_tool(tid) is None:
                    mon.use_tool_id(tid, _TOOL_NAME); self.tool = tid; break
            else: raise RuntimeError('no free sys.monitoring tool id')
            mon.register_callback(self.tool, mon.events.LINE, self._on_line)
        for c in code_objects:
            if c in self.codes: continue
            mon.set_local_events(self.tool, c, mon.events.LINE)
            self.codes[c] = True
        if guards: self.guard_codes.update(guards)

    def uninstall_lines(self):
        if self.tool is None: return
        mon = sys.monitoring
        for c in list(self.codes):
            try: mon.set_local_events(self.tool, c, 0)
            except Exception: pass
        self.codes.clear(); self.guard_codes.clear()
        mon.register_callback(self.tool, mon.events.LINE, None)
        mon.free_tool_id(self.tool)
        self.tool = None

    def _on_line(self, code, line):
        # NEVER return sys.monitoring.DISABLE from here
        s = self.sched
        if s is None or not s.running or s.aborted: return None
        if 'line' not in s.levels: return None
        w = s.by_ident.get(threading.get_ident())
        if w is None: return None
        n = code.co_name
        self.hits[n] = self.hits.get(n, 0) + 1
        f = self.focus
        if f is not None and code not in f: return None
        g = self.guard_codes.get(code)
        if g is not None:
            try:
                if g(sys._getframe(1)): return None
            except Exception: return None
        self.line_events += 1
        s.yield_point('line', (code.co_name, line), w=w)
        return None

    # -- lock waits ---------------------------------------------------------
    def wrap_sqlite_lock(self):
        """Wrap SQLiteProvider.acquire_lock: while the transaction lock is taken the calling worker is *blocked*
        in the scheduler; afterwards the REAL acquire_lock runs (it cannot block: one worker runs at a time)."""
        if self._lock_wrapped is not None: return
        from pony.orm.dbproviders.sqlite import SQLiteProvider
        orig = SQLiteProvider.acquire_lock
        hub = self

        def acquire_lock(provider):
            s = hub.sched
            if s is not None and s.running and not s.aborted:
                w = s.by_ident.get(threading.get_ident())
                if w is not None:
                    s.yield_point('lock', 'acquire', w=w)
                    s.block(w, lambda: not provider.transaction_lock.locked()
                                       and not provider.pre_transaction_lock.locked(), ('lock', 'wait'))
            return orig(provider)
        acquire_lock._verif_orig = orig
        SQLiteProvider.acquire_lock = acquire_lock
        self._lock_wrapped = (SQLiteProvider, orig)

    def unwrap_sqlite_lock(self):
        if self._lock_wrapped is None: return
        cls, orig = self._lock_wrapped
        cls.acquire_lock = orig
        self._lock_wrapped = None

    # -- run one schedule ------------------------------------------------
    def run(self, programs, chooser, levels=('op', 'lock'), watchdog=30.0, focus=None):
        s = Scheduler(chooser, levels, watchdog)
        self.sched = s
        self.focus = focus
        try: s.run(programs)
        finally: self.sched = None; self.focus = None
        return s


HUB = Hub()


def shared_cache_code_objects(extra=True):
    """Code objects of the functions that read/modify process-wide caches (DESIGN 2.4), from the tree under test."""
    from pony.orm import core, asttranslation, decompiling, ormtypes
    from pony.utils import utils
    fns = [core.Query._get_translator, core.Query._construct_sql_and_arguments,
           asttranslation.create_extractors, decompiling.decompile, core.string2ast, core.adapt_sql,
           ormtypes.parse_raw_sql, utils.get_lambda_args,
           core.Database._update_local_stat, core.Database.merge_local_stats]
    if extra:
        fns += [core.Query.__init__, core.Query._process_lambda, core.Query._order_by, core.Query._apply_kwargs,
                core.extract_vars]
    codes = []
    for f in fns:
        f = getattr(f, '__wrapped__', f)
        codes.append(f.__code__)
    merge = core.Database.merge_local_stats.__code__

    def merge_guard(frame):
        db = frame.f_locals.get('database')
        return db is not None and db._global_stats_lock._is_owned()
    guards = {merge: merge_guard}
    # create_extractors serialises its miss path with a real lock (if the tree under test has it): a worker that is
    # suspended while it owns a real lock would block the others outside the scheduler's control
    lock = getattr(asttranslation, 'extractors_cache_lock', None)
    if lock is not None and hasattr(lock, '_is_owned'):
        ce = getattr(asttranslation.create_extractors, '__wrapped__', asttranslation.create_extractors).__code__
        guards[ce] = lambda frame: lock._is_owned()
    return codes, guards

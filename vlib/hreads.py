"""E2 part 5 — read operations.  Each read first performs the real pony call, then learns any
auto primary keys the call's implicit flush assigned, and only then asks the reference model for
the expected answer (so an implicit flush inside a read cannot make the expectation stale)."""
from vlib.hist import HarnessSkip

CMP = {'==': lambda a, b: a == b, '!=': lambda a, b: a != b, '<': lambda a, b: a < b,
       '>': lambda a, b: a > b, '<=': lambda a, b: a <= b, '>=': lambda a, b: a >= b}


def _read(self, op):
    kind = op['op']
    w = self.working
    if getattr(self, 'pending_dups', False): return 'skipped_pending_conflict'
    o = target = None
    if kind in ('read', 'coll', 'todict'):
        if op['oid'] not in w.objs: return 'skipped_dead_target'
        o = w.objs[op['oid']]
        target = self.obj(op['oid'])
    mark = self.rec.mark()
    oid_of = self.oid_of
    try:
        if kind == 'read':
            a = w.attr(o, op['attr'])
            got = getattr(target, op['attr'])
            if a.kind == 'ref': got = None if got is None else oid_of(got, 'read')
            elif a.kind == 'set': got = set(oid_of(x, 'read') for x in got)
            def want():
                v = o.vals[op['attr']]
                return set(v) if a.kind == 'set' else v
        elif kind == 'coll':
            coll = getattr(target, op['attr'])
            how = op['how']
            ws = lambda: set(o.vals[op['attr']])
            if how == 'iter': got, want = set(oid_of(x, 'coll') for x in coll), ws
            elif how == 'count': got, want = coll.count(), lambda: len(ws())
            elif how == 'len': got, want = len(coll), lambda: len(ws())
            elif how == 'empty': got, want = coll.is_empty(), lambda: not ws()
            elif how == 'bool': got, want = bool(coll), lambda: bool(ws())
            elif how == 'in':
                if op['item'] not in w.objs: return 'skipped_dead_target'
                item = self.obj(op['item'])
                mark = self.rec.mark()
                got, want = (item in coll), lambda: op['item'] in ws()
            elif how == 'copy': got, want = set(oid_of(x, 'coll') for x in coll.copy()), ws
            elif how == 'select': got, want = set(oid_of(x, 'coll') for x in coll.select()), ws
            else: raise ValueError(how)
        elif kind == 'bypk':
            ent = op['ent']
            er = self.rules.ents[ent]
            if 'pk_of' in op:
                if op['pk_of'] not in w.objs: return 'skipped_dead_target'
                pkflat = self._flat_pk(op['pk_of'])
            else: pkflat = tuple(op['pk'])
            if any(v is None for v in pkflat): return 'skipped_unknown_pk'
            if any(er.attrs[n].kind == 'ref' for n in er.pk): return 'skipped_ref_pk'
            cls = self.cls[ent]
            arg = tuple(pkflat) if len(pkflat) > 1 else pkflat[0]
            how = op['how']
            kw = dict(zip(er.pk, pkflat))
            def found():
                for cand in self.working.of_entity(ent):
                    if self._flat_pk(cand) == tuple(pkflat): return cand
                return None
            want = found
            if how == 'getitem':
                try: p = cls[arg]
                except self.orm.ObjectNotFound: p = None
                got = None if p is None else oid_of(p, 'bypk')
            elif how == 'get':
                p = cls.get(**kw)
                got = None if p is None else oid_of(p, 'bypk')
            elif how == 'exists':
                got = cls.exists(**kw); want = lambda: found() is not None
            elif how == 'select':
                l = list(self._sel(cls, cls.select(**kw)))
                got = None if not l else oid_of(l[0], 'bypk')
                if len(l) > 1: self.report('read', 'select_by_pk_returned_many', {'op': op, 'n': len(l)})
            else: raise ValueError(how)
        elif kind == 'bykey':
            ent = op['ent']; cls = self.cls[ent]
            mkey = {}; key = {}
            for n, v in op['key'].items():
                if isinstance(v, dict) and 'ref' in v:
                    # lookup by a reference value: the related object itself is the argument (it may be new and unflushed)
                    if v['ref'] not in w.objs: return 'skipped_dead_target'
                    mkey[n] = v['ref']; key[n] = self.obj(v['ref'])
                else: mkey[n] = key[n] = v
            mark = self.rec.mark()
            def matches():
                out = set()
                for cand in self.working.of_entity(ent):
                    co = self.working.objs[cand]
                    if all(co.vals.get(n) == v for n, v in mkey.items()): out.add(cand)
                return out
            how = op['how']
            if how == 'get':
                if len(matches()) > 1: return 'skipped_multiple'
                p = cls.get(**key)
                got = None if p is None else oid_of(p, 'bykey')
                def want():
                    m = matches()
                    return sorted(m)[0] if m else None
            elif how == 'exists': got, want = cls.exists(**key), lambda: bool(matches())
            elif how == 'select': got, want = set(oid_of(x, 'bykey') for x in self._sel(cls, cls.select(**key))), matches
            elif how == 'count': got, want = cls.select(**key).count(), lambda: len(matches())
            else: raise ValueError(how)
        elif kind == 'selectall':
            cls = self.cls[op['ent']]
            got = set(oid_of(x, 'selectall') for x in self._sel(cls, cls.select()))
            want = lambda: set(self.working.of_entity(op['ent']))
        elif kind == 'count':
            cls = self.cls[op['ent']]
            got = cls.select().count()
            want = lambda: len(self.working.of_entity(op['ent']))
        elif kind == 'selectcmp':
            cls = self.cls[op['ent']]
            attr, cmp_, val = op['attr'], op['cmp'], op['val']
            v = val   # pony resolves external names through the calling frame
            f = eval('lambda x: x.%s %s v' % (attr, cmp_))
            got = set(oid_of(x, 'selectcmp') for x in self._sel(cls, cls.select(f)))
            def want():
                out = set()
                for cand in self.working.of_entity(op['ent']):
                    cv = self.working.objs[cand].vals.get(attr)
                    if cv is not None and CMP[cmp_](cv, val): out.add(cand)
                return out
        elif kind == 'todict':
            d = target.to_dict(with_collections=True, with_lazy=True)
            er = self.rules.ents[o.ent]
            got = {}
            for n, a in er.attrs.items():
                if n not in d: got[n] = '<absent>'
                elif a.kind == 'set': got[n] = sorted(d[n], key=repr)
                else: got[n] = d[n]
            extra = set(d) - set(er.attrs) - {'classtype'}
            if extra: got['<extra>'] = sorted(extra)
            def want():
                out = {}
                for n, a in er.attrs.items():
                    x = o.vals[n]
                    if a.kind == 'scalar': out[n] = x
                    elif a.kind == 'ref': out[n] = None if x is None else self._pk_public(x)
                    else: out[n] = sorted((self._pk_public(i) for i in x), key=repr)
                return out
        else:
            raise ValueError(kind)
        self._learn_auto_pks(strict=False)
        self._judge_read(op, got, want(), mark)
    except HarnessSkip:
        raise
    except Exception as e:
        name = type(e).__name__
        self.errlog.append((kind, name, str(e)[:160]))
        self.c('raised.read.%s' % name)
        self.c('unexpected_error.%s.%s' % (kind, name))
        self.last_exc = e
        cache = self.cache()
        if cache is None or not cache.is_alive:
            self._reset_after_rollback()
            return 'raised_session_lost'
        if isinstance(e, self.core.IsolationError):
            # a repeatable-read error invalidates the transaction: the program abandons the session
            self.c('session_abandoned_after_isolation_error')
            try: self.orm.rollback()
            except Exception as e2: self.c('rollback_after_isolation_error_raised.' + type(e2).__name__)
            self._reset_after_rollback()
            return 'raised_session_lost'
        self.failed_flush_continued = True    # the read's implicit flush may have failed midway; the session goes on
        return 'raised_unexpected'
    return 'read_ok'


def _sel(self, cls, query):
    """loading-strategy hook (C23): under strategy 'prefetch' every entity query prefetches all relationships"""
    if self.strategy == 'prefetch':
        attrs = [a for a in cls._attrs_ if a.reverse is not None]
        if attrs:
            self.c('strategy.prefetch_applied')
            return query.prefetch(*attrs)
    return query

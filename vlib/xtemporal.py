"""Temporal part of C02: date / datetime / timedelta arithmetic on every dialect.

One entity Ev(id, d, d2: date; dt, dt2: datetime; td: timedelta; od, odt: optional; n: int).  Programs are expression
TREES (so that one source text, one python reference and the deviation models all come from the same object):

    filter       e.id for e in Ev if <bool>
    projection   (e.id, <x1>[, <x2>]) for e in Ev [if <bool>]

    date      e.d | e.d2 | e.od | date(..) | parameter | date +- timedelta(days=k) [constant | parameter] | <datetime>.date()
    datetime  e.dt | e.dt2 | e.odt | datetime(..) | parameter | datetime +- timedelta [constant | parameter | e.td]
    timedelta timedelta(..) | parameter | e.td | date - date | datetime - datetime
    int       <date|datetime>.year/.month/.day, <datetime>.hour/.minute/.second, e.n, constant
    bool      comparisons of equal types, and / or / not, `x is None`

Oracles
    sqlite     real pipeline on a real SQLite database; rows vs PYTHON evaluation of the tree (this is the deciding monitor for
               the SQLite dialect: C01 has no datetimes).  A disagreement is re-judged by `SqliteModel`, a model of two
               mechanisms of the SQLite dialect (TEXT WIDTH: arithmetic results are 19-character texts, stored / literal
               datetimes 26, dates 10, and comparisons are textual; FLOAT DAYS: differences and timedeltas are julianday
               floats); only an exact reproduction of pony's rows makes it the listed finding.
    pg-shim    the statement of the real PG / MySQL provider+translator+builder is EVALUATED by `SqlEval`, a typed evaluator of
    mysql-shim single-table SELECT statements over the python rows (execute-mode model, no SQLite involved): values are python
               date / datetime / timedelta / int objects, so date-vs-timestamp typing follows the dialect's manual:
                 PostgreSQL  DATE '..', TIMESTAMP '..', INTERVAL 'h:m:s' HOUR TO SECOND, interval '1 day'; date +- interval ->
                             timestamp; date - date -> integer days; timestamp - timestamp -> interval; integer * interval;
                             EXTRACT(field FROM x); (x)::date; parameters date / datetime / timedelta (psycopg2 adapts all)
                 MySQL       ADDDATE / SUBDATE(x, INTERVAL 'h:m:s' HOUR_SECOND | HOUR_MICROSECOND) -> DATETIME (the unit has
                             time parts); TIMEDIFF(datetime, datetime) -> TIME clipped to +-838:59:59; year() .. second();
                             DATE(x); DATE '..' / TIMESTAMP '..' literals; TIME column compared with TIME
               NOT modelled (=> unsupported, counted; placeholders are still checked): MySQL timedelta parameters (the driver
               sends a 'H:MM:SS' string; ADDDATE(x, string) and TIME-vs-string comparison are implicit conversions),
               ADDDATE(x, <TIME column>), TIMEDIFF of DATE arguments, an INTERVAL literal outside ADDDATE/SUBDATE (MySQL
               syntax error), PostgreSQL arithmetic on other type pairs.
    oracle / cockroach   record mode: statement generated, placeholders vs arguments, dialect-only internal errors.

Domain: whole-second datetimes and timedeltas (no microseconds), dates +- WHOLE DAYS only (python floors `date + timedelta(hours=5)`
to the date, PostgreSQL / MySQL produce a timestamp), no date-with-datetime comparisons, nullable attributes only as direct
conjuncts or under `is None` guards.
"""
import random, re
from datetime import date, datetime, timedelta, time as dtime

from vlib import shimlib, xdialect

ATTRS = {'id': 'int', 'd': 'date', 'd2': 'date', 'dt': 'dt', 'dt2': 'dt', 'td': 'td', 'od': 'date', 'odt': 'dt', 'n': 'int'}
NULLABLE = ('od', 'odt')
ENTITY_SOURCE = '''class Ev(db.Entity):
    id = PrimaryKey(int)
    d = Required(date)
    d2 = Required(date)
    dt = Required(datetime)
    dt2 = Required(datetime)
    td = Required(timedelta)
    od = Optional(date)
    odt = Optional(datetime)
    n = Required(int)
'''
FIELDS = {'date': ('year', 'month', 'day'), 'dt': ('year', 'month', 'day', 'hour', 'minute', 'second')}
CMP = {'==': lambda a, b: a == b, '!=': lambda a, b: a != b, '<': lambda a, b: a < b, '<=': lambda a, b: a <= b,
       '>': lambda a, b: a > b, '>=': lambda a, b: a >= b}
MIDNIGHT = dtime(0, 0, 0)


class TemporalUnsupported(xdialect.ShimUnsupported):
    pass


class _Null(Exception):
    pass


# ----------------------------------------------------------------------------------------------------------------
# trees: typing, rendering
# ----------------------------------------------------------------------------------------------------------------
def typ(node, params):
    k = node[0]
    if k == 'attr': return ATTRS[node[1]]
    if k == 'const': return {date: 'date', datetime: 'dt', timedelta: 'td', int: 'int'}[type(node[1])]
    if k == 'param': return {date: 'date', datetime: 'dt', timedelta: 'td', int: 'int'}[type(params[node[1]])]
    if k in ('add', 'sub'):
        a, b = typ(node[1], params), typ(node[2], params)
        if b == 'td': return a
        if k == 'sub' and a == b and a in ('date', 'dt'): return 'td'
        raise ValueError(node)
    if k == 'field': return 'int'
    if k == 'date': return 'date'
    return 'bool'


def _lit(v):
    if isinstance(v, datetime): return 'datetime(%d, %d, %d, %d, %d, %d)' % (v.year, v.month, v.day, v.hour, v.minute, v.second)
    if isinstance(v, date): return 'date(%d, %d, %d)' % (v.year, v.month, v.day)
    if isinstance(v, int): return repr(v) if v >= 0 else '(%r)' % v
    raise TypeError(v)


def td_text(td, style=0):
    """Source text of a whole-second timedelta constant, in one of the spellings users write."""
    total = td.days * 86400 + td.seconds
    if style == 1 and td.seconds == 0: return 'timedelta(%d)' % td.days
    if style == 2: return 'timedelta(seconds=%d)' % total
    neg = total < 0
    d, rest = divmod(abs(total), 86400)
    h, rest = divmod(rest, 3600)
    m, s = divmod(rest, 60)
    parts = [('days', d), ('hours', h), ('minutes', m), ('seconds', s)]
    kw = ', '.join('%s=%d' % (k, -v if neg else v) for k, v in parts if v)
    return 'timedelta(%s)' % (kw or 'days=0')


def render(node):
    k = node[0]
    if k == 'attr': return 'e.' + node[1]
    if k == 'const':
        return node[2] if len(node) > 2 else _lit(node[1])
    if k == 'param': return node[1]
    if k == 'add': return '(%s + %s)' % (render(node[1]), render(node[2]))
    if k == 'sub': return '(%s - %s)' % (render(node[1]), render(node[2]))
    if k == 'field': return '%s.%s' % (render(node[1]), node[2])
    if k == 'date': return '%s.date()' % render(node[1])
    if k == 'cmp': return '%s %s %s' % (render(node[2]), node[1], render(node[3]))
    if k == 'and': return '(%s and %s)' % (render(node[1]), render(node[2]))
    if k == 'or': return '(%s or %s)' % (render(node[1]), render(node[2]))
    if k == 'not': return 'not (%s)' % render(node[1])
    if k == 'isnone': return '%s is %sNone' % (render(node[1]), 'not ' if node[2] else '')
    raise ValueError(node)


def v2j(v):
    if isinstance(v, datetime): return ['dt', v.isoformat(' ')]
    if isinstance(v, date): return ['date', v.isoformat()]
    if isinstance(v, timedelta): return ['td', v.days, v.seconds, v.microseconds]
    if isinstance(v, tuple): return ['tuple'] + [v2j(x) for x in v]
    if isinstance(v, list): return ['list'] + [v2j(x) for x in v]
    if isinstance(v, dict): return ['dict', {k: v2j(x) for k, x in v.items()}]
    return v


def j2v(j):
    if isinstance(j, list) and j:
        if j[0] == 'dt': return datetime.fromisoformat(j[1])
        if j[0] == 'date': return date.fromisoformat(j[1])
        if j[0] == 'td': return timedelta(j[1], j[2], j[3])
        if j[0] == 'tuple': return tuple(j2v(x) for x in j[1:])
        if j[0] == 'list': return [j2v(x) for x in j[1:]]
        if j[0] == 'dict': return {k: j2v(x) for k, x in j[1].items()}
    return j


class TProgram(object):
    """cond: bool tree or None; proj: list of value trees (empty: filter program); params: name -> value."""
    def __init__(self, cond, proj, params, prods=()):
        self.cond, self.proj, self.params, self.prods = cond, list(proj), dict(params), list(prods)
    def to_json(self):
        return {'cond': v2j(self.cond), 'proj': v2j(self.proj), 'params': v2j(self.params), 'prods': self.prods}
    @staticmethod
    def from_json(j):
        return TProgram(j2v(j['cond']), j2v(j['proj']), j2v(j['params']), j.get('prods') or [])
    def src(self):
        elt = 'e.id' if not self.proj else '(e.id, %s)' % ', '.join(render(x) for x in self.proj)
        return '%s for e in Ev%s' % (elt, (' if ' + render(self.cond)) if self.cond is not None else '')


# ----------------------------------------------------------------------------------------------------------------
# python reference
# ----------------------------------------------------------------------------------------------------------------
class PyEval(object):
    """Python semantics; a None operand makes a comparison UNKNOWN (the row is then not selected, as in SQL)."""
    def __init__(self, params): self.params = params
    def val(self, node, row):
        k = node[0]
        if k == 'attr':
            v = row[node[1]]
            if v is None: raise _Null()
            return v
        if k == 'const': return node[1]
        if k == 'param': return self.params[node[1]]
        if k == 'add': return self.arith('+', node, row)
        if k == 'sub': return self.arith('-', node, row)
        if k == 'field': return getattr(self.val(node[1], row), node[2])
        if k == 'date': return self.val(node[1], row).date()
        raise ValueError(node)
    def arith(self, op, node, row):
        a, b = self.val(node[1], row), self.val(node[2], row)
        return a + b if op == '+' else a - b
    def compare(self, op, a, b): return CMP[op](a, b)
    def truth(self, node, row):
        """True | False | None (unknown)"""
        k = node[0]
        if k == 'cmp':
            try: a, b = self.val(node[2], row), self.val(node[3], row)
            except _Null: return None
            return self.compare(node[1], a, b)
        if k == 'isnone':
            try: self.val(node[1], row); isnone = False
            except _Null: isnone = True
            return isnone != node[2]
        if k == 'not':
            t = self.truth(node[1], row)
            return None if t is None else (not t)
        if k in ('and', 'or'):
            a, b = self.truth(node[1], row), self.truth(node[2], row)
            if k == 'and':
                if a is False or b is False: return False
                return None if (a is None or b is None) else True
            if a is True or b is True: return True
            return None if (a is None or b is None) else False
        raise ValueError(node)
    def out(self, v, node): return v
    def rows(self, prog, data):
        res = []
        for row in data:
            if prog.cond is not None and self.truth(prog.cond, row) is not True: continue
            if not prog.proj: res.append(row['id'])
            else: res.append((row['id'],) + tuple(self.out(self.val(x, row), x) for x in prog.proj))
        return res


# ----------------------------------------------------------------------------------------------------------------
# model of the SQLite dialect's two mechanisms (deviation rules)
# ----------------------------------------------------------------------------------------------------------------
class Inst(object):
    """A point in time as SQLite holds it: the instant plus the WIDTH of its text (10 date, 19 seconds, 26 microseconds)."""
    __slots__ = ('t', 'w')
    def __init__(self, t, w): self.t, self.w = t, w
    def text(self):
        if self.w == 10: return self.t.date().isoformat()
        s = self.t.strftime('%Y-%m-%d %H:%M:%S')
        return s if self.w == 19 else s + '.%06d' % self.t.microsecond


def julianday(t):
    ms = (t.toordinal() * 86400 + t.hour * 3600 + t.minute * 60 + t.second) * 1000 + t.microsecond // 1000
    return (ms + 148731076800000) / 86400000.0        # 1721424.5 days between ordinal 0 and julian day 0 (checked against sqlite3)


def days_float(td):
    return td.days + (td.seconds + td.microseconds / 1000000.0) / 86400.0


class SqliteModel(PyEval):
    """text_width / float_days switch the two mechanisms on; with both off this IS the python evaluator."""
    def __init__(self, params, text_width, float_days):
        PyEval.__init__(self, params)
        self.tw, self.fd = text_width, float_days
    def inst(self, v):
        if isinstance(v, Inst): return v
        if isinstance(v, datetime): return Inst(v, 26)
        return Inst(datetime.combine(v, MIDNIGHT), 10)
    def val(self, node, row):
        k = node[0]
        if k in ('attr', 'const', 'param'):
            v = PyEval.val(self, node, row)
            if isinstance(v, timedelta) and self.fd:
                return v.total_seconds() / 86400 if k == 'const' else days_float(v)
            return v
        if k == 'field':
            v = self.val(node[1], row)
            return getattr(v.t if isinstance(v, Inst) else v, node[2])
        if k == 'date':
            v = self.val(node[1], row)
            return (v.t if isinstance(v, Inst) else v).date()
        return PyEval.val(self, node, row)
    def arith(self, op, node, row):
        a = self.val(node[1], row)
        tb = typ(node[2], self.params)
        if tb == 'td':
            delta = PyEval.val(self, node[2], row)          # exact timedelta (SQLite rounds julianday sums to milliseconds)
            const = node[2][0] == 'const'
            if not self.tw:
                base = a.t if isinstance(a, Inst) else a
                return base + delta if op == '+' else base - delta
            ia = self.inst(a)
            shifted = ia.t + delta if op == '+' else ia.t - delta
            shifted = shifted.replace(microsecond=0)
            if const and delta.days * 86400 + delta.seconds == 0: return ia          # no modifiers: expression unchanged
            if typ(node[1], self.params) == 'date':
                # constant: date(x, modifiers) -> 10 characters; parameter / column: datetime(julianday(x) +- ?) -> 19
                return Inst(datetime.combine(shifted.date(), MIDNIGHT), 10) if const else Inst(shifted, 19)
            return Inst(shifted, 19)
        # differences
        b = self.val(node[2], row)
        if self.fd:
            return julianday(self.inst(a).t) - julianday(self.inst(b).t)
        ta = a.t if isinstance(a, Inst) else a
        tb_ = b.t if isinstance(b, Inst) else b
        if isinstance(ta, datetime) != isinstance(tb_, datetime):
            ta = ta if isinstance(ta, datetime) else datetime.combine(ta, MIDNIGHT)
            tb_ = tb_ if isinstance(tb_, datetime) else datetime.combine(tb_, MIDNIGHT)
        if typ(node[1], self.params) == 'date':
            ta = ta.date() if isinstance(ta, datetime) else ta
            tb_ = tb_.date() if isinstance(tb_, datetime) else tb_
        return ta - tb_
    def compare(self, op, a, b):
        if isinstance(a, (Inst, date)) and isinstance(b, (Inst, date)):
            if self.tw: return CMP[op](self.inst(a).text(), self.inst(b).text())
            a = a.t if isinstance(a, Inst) else a
            b = b.t if isinstance(b, Inst) else b
            if isinstance(a, datetime) != isinstance(b, datetime):
                a = a if isinstance(a, datetime) else datetime.combine(a, MIDNIGHT)
                b = b if isinstance(b, datetime) else datetime.combine(b, MIDNIGHT)
        return CMP[op](a, b)
    def out(self, v, node):
        t = typ(node, self.params)
        if isinstance(v, Inst): v = v.t
        if t == 'date': return v.date() if isinstance(v, datetime) else v         # SQLiteDateConverter: val[:10]
        if t == 'dt': return v if isinstance(v, datetime) else datetime.combine(v, MIDNIGHT)
        if t == 'td': return timedelta(days=v) if isinstance(v, float) else v      # SQLiteTimedeltaConverter
        return v


# ----------------------------------------------------------------------------------------------------------------
# typed evaluator of the PostgreSQL / MySQL statements (execute-mode model)
# ----------------------------------------------------------------------------------------------------------------
MYSQL_TIME_MAX = timedelta(hours=838, minutes=59, seconds=59)
OPTIONS = {'mysql_timediff_clip': True}       # switched off only by the deviation-rule pass


class MyInterval(object):
    """MySQL INTERVAL literal: only meaningful as the second argument of ADDDATE / SUBDATE."""
    def __init__(self, td): self.td = td


class MyTime(object):
    """MySQL TIME value (TIMEDIFF result, TIME column); the driver converts it to timedelta."""
    def __init__(self, td): self.td = td


def parse_hms(text):
    neg = text.startswith('-')
    t = text[1:] if neg else text
    m = re.match(r'^(\d+):(\d+):(\d+)(?:\.(\d{1,6}))?$', t)
    if not m: raise TemporalUnsupported('interval-format:' + text[:20])
    td = timedelta(hours=int(m.group(1)), minutes=int(m.group(2)), seconds=int(m.group(3)),
                   microseconds=int((m.group(4) or '0').ljust(6, '0')))
    return -td if neg else td


class SqlEval(object):
    def __init__(self, dialect, style, sql, args, seen):
        self.dialect, self.seen = dialect, seen
        self.toks = xdialect.lex_statement(dialect, style, sql, args)
        xdialect.check_placeholders(self.toks, style, args)
        self.res = dict(shimlib.resolve(self.toks, style, args)) if args is not None else {}
        self.sql = sql
        self.i = 0
        self.row = None

    # -- token helpers ----
    def peek(self, k=0): return self.toks[self.i + k] if self.i + k < len(self.toks) else ('eof', '', '')
    def is_word(self, *vals, k=0):
        t = self.peek(k); return t[0] == 'word' and t[2] in vals
    def is_op(self, *vals, k=0):
        t = self.peek(k); return t[0] == 'op' and t[1] in vals
    def take_word(self, *vals):
        if not self.is_word(*vals): raise TemporalUnsupported('expected %s got %s' % ('/'.join(vals), self.peek()[1]), self.sql)
        self.i += 1
    def take_op(self, *vals):
        if not self.is_op(*vals): raise TemporalUnsupported('expected %s got %s' % (' '.join(vals), self.peek()[1]), self.sql)
        self.i += 1
    def note(self, what): self.seen[what] = self.seen.get(what, 0) + 1

    # -- statement ----
    def run(self, rows):
        """-> list of result tuples.  The statement is parsed once per row (tiny statements, few rows)."""
        out, distinct = [], False
        for row in rows:
            self.i, self.row = 0, row
            self.take_word('SELECT')
            distinct = self.is_word('DISTINCT')
            if distinct: self.i += 1
            start = self.i
            # skip the select list to find FROM .. WHERE first (the filter decides whether the row counts)
            depth = 0
            while not (depth == 0 and self.is_word('FROM')):
                if self.peek()[0] == 'eof': raise TemporalUnsupported('select-without-from', self.sql)
                if self.is_op('('): depth += 1
                elif self.is_op(')'): depth -= 1
                self.i += 1
            self.take_word('FROM')
            if self.peek()[0] != 'ident' or self.peek(1)[0] != 'ident': raise TemporalUnsupported('from-clause', self.sql)
            self.alias = self.peek(1)[2]
            self.i += 2
            keep = True
            if self.is_word('WHERE'):
                self.i += 1
                keep = self.to_bool(self.expr()) is True
            if self.peek()[0] != 'eof': raise TemporalUnsupported('trailing:' + self.peek()[1], self.sql)
            if not keep: continue
            self.i = start
            vals = [self.driver_value(self.expr())]
            while self.is_op(','):
                self.i += 1
                vals.append(self.driver_value(self.expr()))
            if not self.is_word('FROM'): raise TemporalUnsupported('select-list:' + self.peek()[1], self.sql)
            out.append(tuple(vals))
        if distinct:
            seen, uniq = set(), []
            for r in out:
                if r not in seen: seen.add(r); uniq.append(r)
            out = uniq
        return out

    def driver_value(self, v):
        if isinstance(v, MyInterval): raise TemporalUnsupported('mysql.interval_outside_date_arithmetic', self.sql)
        if isinstance(v, MyTime): return v.td
        return v

    def to_bool(self, v):
        if v is None or isinstance(v, bool): return v
        if isinstance(v, int): return v != 0
        raise TemporalUnsupported('condition-type:' + type(v).__name__, self.sql)

    # -- expressions (precedence climbing) ----
    def expr(self):
        v = self.and_()
        while self.is_word('OR'):
            self.i += 1
            w = self.and_()
            a, b = self.to_bool(v), self.to_bool(w)
            v = True if (a is True or b is True) else (None if (a is None or b is None) else False)
        return v
    def and_(self):
        v = self.not_()
        while self.is_word('AND'):
            self.i += 1
            w = self.not_()
            a, b = self.to_bool(v), self.to_bool(w)
            v = False if (a is False or b is False) else (None if (a is None or b is None) else True)
        return v
    def not_(self):
        if self.is_word('NOT'):
            self.i += 1
            t = self.to_bool(self.not_())
            return None if t is None else (not t)
        return self.cmp()
    def cmp(self):
        a = self.add()
        if self.is_op('=', '<>', '!=', '<', '<=', '>', '>='):
            op = self.peek()[1]; self.i += 1
            b = self.add()
            return self.compare({'=': '==', '<>': '!='}.get(op, op), a, b)
        if self.is_word('IS'):
            self.i += 1
            neg = self.is_word('NOT')
            if neg: self.i += 1
            self.take_word('NULL')
            return (a is not None) if neg else (a is None)
        return a
    def add(self):
        v = self.mul()
        while self.is_op('+', '-'):
            op = self.peek()[1]; self.i += 1
            v = self.arith(op, v, self.mul())
        return v
    def mul(self):
        v = self.unary()
        while self.is_op('*'):
            self.i += 1
            v = self.arith('*', v, self.unary())
        return v
    def unary(self):
        if self.is_op('-'):
            self.i += 1
            v = self.unary()
            if v is None: return None
            if isinstance(v, (int, timedelta)) and not isinstance(v, bool): return -v
            raise TemporalUnsupported('unary-minus:' + type(v).__name__, self.sql)
        return self.postfix()
    def postfix(self):
        v = self.primary()
        while self.is_op('::'):
            if self.dialect not in ('postgres', 'cockroach'): raise TemporalUnsupported('op:::', self.sql)
            self.i += 1
            t = self.peek()
            if t[0] != 'word': raise TemporalUnsupported('cast-type', self.sql)
            self.i += 1
            if t[2] == 'DATE':
                self.note('pg.cast_date')
                if v is None: pass
                elif isinstance(v, datetime): v = v.date()
                elif isinstance(v, date): pass
                else: raise TemporalUnsupported('cast-date-of:' + type(v).__name__, self.sql)
            else: raise TemporalUnsupported('cast-type:' + t[2], self.sql)
        return v
    def args(self):
        self.take_op('(')
        out = []
        if not self.is_op(')'):
            out.append(self.expr())
            while self.is_op(','):
                self.i += 1
                out.append(self.expr())
        self.take_op(')')
        return out
    def primary(self):
        kind, text, val = self.peek()
        pg = self.dialect in ('postgres', 'cockroach')
        if kind == 'num':
            self.i += 1
            return int(text) if text.isdigit() else float(text)
        if kind == 'ph':
            v = self.res[self.i]; self.i += 1
            if isinstance(v, timedelta) and not pg:
                raise TemporalUnsupported('mysql.timedelta_parameter', self.sql)
            self.note('param.' + type(v).__name__)
            return v
        if kind == 'str':
            raise TemporalUnsupported('bare-string-literal', self.sql)
        if kind == 'ident':
            if self.peek(1)[1] == '.' and self.peek(2)[0] == 'ident':
                if val != self.alias: raise TemporalUnsupported('alias:' + val, self.sql)
                col = self.peek(2)[2].lower(); self.i += 3
            else:
                col = val.lower(); self.i += 1
            if col not in self.row: raise TemporalUnsupported('column:' + col, self.sql)
            v = self.row[col]
            if isinstance(v, timedelta) and not pg: return MyTime(v)
            return v
        if kind == 'op' and text == '(':
            self.i += 1
            v = self.expr()
            self.take_op(')')
            return v
        if kind != 'word': raise TemporalUnsupported('token:' + text, self.sql)
        w = val
        if w in ('NULL',): self.i += 1; return None
        if w in ('TRUE', 'FALSE'): self.i += 1; return w == 'TRUE'
        if w in ('DATE', 'TIMESTAMP') and self.peek(1)[0] == 'str':
            s = self.peek(1)[2]; self.i += 2
            self.note('literal.' + w.lower())
            try: return date.fromisoformat(s) if w == 'DATE' else datetime.fromisoformat(s)
            except ValueError: raise TemporalUnsupported('literal-format:' + s[:30], self.sql)
        if w == 'INTERVAL' and self.peek(1)[0] == 'str':
            s = self.peek(1)[2]; self.i += 2
            if pg:
                if self.is_word('HOUR') and self.is_word('TO', k=1) and self.is_word('SECOND', k=2):
                    self.i += 3; self.note('pg.interval_hour_to_second')
                    return parse_hms(s)
                m = re.match(r'^(\d+)\s+(day|hour|minute|second)s?$', s.strip().lower())
                if m:
                    self.note('pg.interval_%s_%s' % (m.group(1), m.group(2)))
                    return timedelta(**{m.group(2) + 's': int(m.group(1))})
                raise TemporalUnsupported('pg.interval-form:' + s[:20], self.sql)
            if self.is_word('HOUR_SECOND', 'HOUR_MICROSECOND'):
                unit = self.peek()[2]; self.i += 1; self.note('mysql.interval_' + unit.lower())
                td = parse_hms(s)
                if unit == 'HOUR_SECOND' and td.microseconds: raise TemporalUnsupported('mysql.interval-fraction', self.sql)
                return MyInterval(td)
            raise TemporalUnsupported('mysql.interval-unit:' + self.peek()[1], self.sql)
        if w == 'EXTRACT' and self.is_op('(', k=1):
            self.i += 2
            f = self.peek()
            if f[0] != 'word' or f[2] not in ('YEAR', 'MONTH', 'DAY', 'HOUR', 'MINUTE', 'SECOND'):
                raise TemporalUnsupported('extract-field:' + f[1], self.sql)
            self.i += 1
            self.take_word('FROM')
            v = self.expr()
            self.take_op(')')
            self.note('extract.' + f[2].lower())
            return self.field(f[2].lower(), v)
        if self.is_op('(', k=1):
            self.i += 1
            a = self.args()
            return self.call(w, a)
        raise TemporalUnsupported('word:' + w, self.sql)

    # -- semantics ----
    def field(self, f, v):
        if v is None: return None
        if isinstance(v, datetime):
            if f == 'second' and v.microsecond: raise TemporalUnsupported('fractional-second-field', self.sql)
            return getattr(v, f)
        if isinstance(v, date):
            if f in ('year', 'month', 'day'): return getattr(v, f)
            if self.dialect == 'mysql': return 0
            raise TemporalUnsupported('pg.extract-time-field-from-date', self.sql)
        raise TemporalUnsupported('field-of:' + type(v).__name__, self.sql)

    def call(self, name, a):
        my = self.dialect == 'mysql'
        if my and name in ('YEAR', 'MONTH', 'DAY', 'HOUR', 'MINUTE', 'SECOND') and len(a) == 1:
            self.note('mysql.' + name.lower()); return self.field(name.lower(), a[0])
        if my and name == 'DATE' and len(a) == 1:
            self.note('mysql.date()')
            v = a[0]
            if v is None: return None
            if isinstance(v, datetime): return v.date()
            if isinstance(v, date): return v
            raise TemporalUnsupported('mysql.date-of:' + type(v).__name__, self.sql)
        if my and name in ('ADDDATE', 'SUBDATE') and len(a) == 2:
            x, iv = a
            if isinstance(iv, MyTime): raise TemporalUnsupported('mysql.adddate_time_column', self.sql)
            if not isinstance(iv, MyInterval): raise TemporalUnsupported('mysql.adddate-arg:' + type(iv).__name__, self.sql)
            self.note('mysql.' + name.lower())
            if x is None: return None
            if isinstance(x, datetime): base = x
            elif isinstance(x, date): base = datetime.combine(x, MIDNIGHT)     # unit with time parts => DATETIME
            else: raise TemporalUnsupported('mysql.adddate-of:' + type(x).__name__, self.sql)
            return base + iv.td if name == 'ADDDATE' else base - iv.td
        if my and name == 'TIMEDIFF' and len(a) == 2:
            x, y = a
            if x is None or y is None: return None
            if not (isinstance(x, datetime) and isinstance(y, datetime)):
                raise TemporalUnsupported('mysql.timediff_of_%s_%s' % (type(x).__name__, type(y).__name__), self.sql)
            self.note('mysql.timediff')
            td = x - y
            if OPTIONS['mysql_timediff_clip']: td = max(-MYSQL_TIME_MAX, min(MYSQL_TIME_MAX, td))
            return MyTime(td)
        if name == 'COALESCE' and a:
            for v in a:
                if v is not None: return v
            return None
        raise TemporalUnsupported('function:%s/%d' % (name, len(a)), self.sql)

    def arith(self, op, a, b):
        if isinstance(a, (MyInterval, MyTime)) or isinstance(b, (MyInterval, MyTime)):
            raise TemporalUnsupported('mysql.interval_outside_date_arithmetic', self.sql)
        if a is None or b is None: return None
        num = lambda v: isinstance(v, (int, float)) and not isinstance(v, bool)
        if num(a) and num(b): return a + b if op == '+' else (a - b if op == '-' else a * b)
        if self.dialect not in ('postgres', 'cockroach'):
            raise TemporalUnsupported('mysql.operator_on_%s_%s' % (type(a).__name__, type(b).__name__), self.sql)
        isd = lambda v: isinstance(v, date) and not isinstance(v, datetime)
        if op == '*':
            if num(a) and isinstance(b, timedelta): self.note('pg.int*interval'); return b * a
            if num(b) and isinstance(a, timedelta): self.note('pg.int*interval'); return a * b
        elif isinstance(b, timedelta) and isinstance(a, date):
            self.note('pg.%s%sinterval' % ('date' if isd(a) else 'timestamp', op))
            base = datetime.combine(a, MIDNIGHT) if isd(a) else a                  # date +- interval -> timestamp
            return base + b if op == '+' else base - b
        elif op == '+' and isinstance(a, timedelta) and isinstance(b, date):
            base = datetime.combine(b, MIDNIGHT) if isd(b) else b
            return base + a
        elif op == '-' and isd(a) and isd(b): self.note('pg.date-date'); return (a - b).days
        elif op == '-' and isinstance(a, datetime) and isinstance(b, datetime): self.note('pg.timestamp-timestamp'); return a - b
        elif isinstance(a, timedelta) and isinstance(b, timedelta): return a + b if op == '+' else a - b
        raise TemporalUnsupported('pg.operator%s_on_%s_%s' % (op, type(a).__name__, type(b).__name__), self.sql)

    def compare(self, op, a, b):
        if isinstance(a, MyInterval) or isinstance(b, MyInterval):
            raise TemporalUnsupported('mysql.interval_outside_date_arithmetic', self.sql)
        if isinstance(a, MyTime) or isinstance(b, MyTime):
            if not (isinstance(a, MyTime) and isinstance(b, MyTime)) and a is not None and b is not None:
                raise TemporalUnsupported('mysql.time_compared_with_' + type(b if isinstance(a, MyTime) else a).__name__, self.sql)
            a = a.td if isinstance(a, MyTime) else a
            b = b.td if isinstance(b, MyTime) else b
        if a is None or b is None: return None
        isdate = lambda v: isinstance(v, date)
        if isdate(a) and isdate(b):
            if isinstance(a, datetime) != isinstance(b, datetime):                 # date vs timestamp: promote the date
                a = a if isinstance(a, datetime) else datetime.combine(a, MIDNIGHT)
                b = b if isinstance(b, datetime) else datetime.combine(b, MIDNIGHT)
            return CMP[op](a, b)
        if isinstance(a, timedelta) and isinstance(b, timedelta): return CMP[op](a, b)
        num = lambda v: isinstance(v, (int, float))
        if num(a) and num(b): return CMP[op](a, b)
        raise TemporalUnsupported('compare_%s_%s' % (type(a).__name__, type(b).__name__), self.sql)


# ----------------------------------------------------------------------------------------------------------------
# connection of the executing temporal dialects
# ----------------------------------------------------------------------------------------------------------------
CURRENT = {'rows': []}            # the data set the python rows come from (set by TemporalHarness.load)


class TemporalCursor(shimlib.RecordCursor):
    def execute(self, sql, args=None):
        conn = self.connection
        conn.log.add(conn.id, 'execute', sql, args)
        self.rows, self.rowcount, self.lastrowid, self.description = [], -1, None, None
        ans = self._answer(sql, args)
        if ans is not None:
            self.rows, self.rowcount = ans, len(ans); return self
        if xdialect.SESSION_RE.match(sql): return self
        st = xdialect.stats('temporal-' + conn.dialect)
        seen = {}
        try:
            ev = SqlEval(conn.dialect, conn.style, sql, args, seen)
            self.rows = ev.run(CURRENT['rows'])
        except xdialect.ShimUnsupported as e:
            st['unsupported:' + e.construct[:60]] += 1
            raise
        for k, v in seen.items(): st['seen:' + k] += v
        st['statements_executed'] += 1
        self.rowcount = len(self.rows)
        return self
    def executemany(self, sql, seq):
        raise TemporalUnsupported('executemany', sql)


class TemporalConnection(shimlib.RecordConnection):
    cursor_class = TemporalCursor
    def __init__(self, log, dialect, rest, *args, **kwargs):
        shimlib.RecordConnection.__init__(self, log, *args, **kwargs)
        self.dialect, self.style = dialect, xdialect.STYLE[dialect]


xdialect.ROUTES['temporal'] = TemporalConnection


# ----------------------------------------------------------------------------------------------------------------
# environments, data, generator
# ----------------------------------------------------------------------------------------------------------------
class TemporalEnv(object):
    """qdiff.run_program-compatible environment (orm / db / ns / _fn_cache) for entity Ev on one dialect."""
    def __init__(self, name):
        import pony.orm as orm
        self.orm, self.name = orm, name
        self.db = db = orm.Database()
        ns = xdialect._namespace(orm, db)
        ns['datetime'] = datetime
        exec(compile(ENTITY_SOURCE, '<xtemporal Ev %s>' % name, 'exec'), ns)
        ns['_G'] = ns
        self.ns = ns
        self._fn_cache = {}
        self.executing = name in ('postgres', 'mysql')
        if name == 'sqlite':
            db.bind('sqlite', ':memory:')
            db.generate_mapping(create_tables=True)
            self.log, self.style = None, 'qmark'
        else:
            pname, _, args, kwargs = shimlib.PROVIDERS[name]
            mod = shimlib.stub_module(name)
            kw = dict(kwargs)
            if self.executing: kw['database' if name == 'postgres' else 'db'] = 'temporal:%s:rows' % name
            db.bind(pname, *args, **kw)
            db.generate_mapping(create_tables=False, check_tables=False)
            self.log, self.style = mod.LOG, xdialect.STYLE[name]
    def load(self, rows):
        orm = self.orm
        Ev = self.ns['Ev']
        with orm.db_session:
            orm.select(e for e in Ev).delete(bulk=True)
        with orm.db_session:
            for r in rows: Ev(**{k: v for k, v in r.items() if v is not None})


BASE = datetime(2020, 1, 2, 15, 0, 0)
DELTAS = [timedelta(0), timedelta(hours=1), timedelta(seconds=90), timedelta(days=1), timedelta(days=1, hours=1),
          timedelta(days=2, seconds=1), timedelta(hours=25), timedelta(hours=-30), timedelta(days=3), timedelta(days=30),
          timedelta(days=40), timedelta(minutes=30), timedelta(days=-1), timedelta(hours=5, minutes=30), timedelta(seconds=1)]
DAY_DELTAS = [timedelta(days=k) for k in (0, 1, 2, 3, 30, 40, -1, 7)]


def gen_rows(rng, n=9):
    """Rows with many ties: dt2 = dt - delta, d = dt.date() or near, instants at midnight and at 23:59:59."""
    anchors = [BASE, datetime(2020, 1, 2, 9, 30, 0), datetime(2020, 3, 1, 0, 0, 0), datetime(2019, 12, 31, 23, 59, 59),
               datetime(2020, 2, 29, 12, 0, 0), datetime(2020, 1, 1, 12, 0, 0), datetime(2020, 1, 31, 0, 0, 1)]
    rows = []
    for i in range(1, n + 1):
        dt = rng.choice(anchors) + rng.choice([timedelta(0), timedelta(0), timedelta(hours=1), timedelta(days=1), timedelta(seconds=90)])
        delta = rng.choice(DELTAS)
        dt2 = dt - delta if rng.random() < 0.7 else rng.choice(anchors)
        d = dt.date() if rng.random() < 0.5 else (dt.date() + rng.choice(DAY_DELTAS))
        d2 = d - rng.choice(DAY_DELTAS) if rng.random() < 0.7 else rng.choice(anchors).date()
        td = rng.choice([x for x in DELTAS if x >= timedelta(0)]) if rng.random() < 0.8 else delta
        rows.append({'id': i, 'd': d, 'd2': d2, 'dt': dt, 'dt2': dt2, 'td': td,
                     'od': None if rng.random() < 0.35 else rng.choice([d, d2, d + timedelta(days=1)]),
                     'odt': None if rng.random() < 0.35 else rng.choice([dt, dt2, dt + timedelta(hours=1)]),
                     'n': rng.choice([0, 1, 2, 9, 12, 15, 30, 31, 59, 2020, dt.day, dt.hour, d.month])})
    return rows


class TemporalGen(object):
    def __init__(self, rng, rows):
        self.rng, self.rows = rng, rows
        self.params, self.prods = {}, []
    def use(self, p): self.prods.append(p)
    def new_param(self, v):
        n = 'a%d' % len(self.params)
        self.params[n] = v
        return ('param', n)
    def leaf(self, v, kind):
        """constant or parameter (a negative timedelta only as a parameter: pony refuses timedelta(hours=-30) loudly)"""
        if self.rng.random() < 0.4 or (kind == 'td' and v < timedelta(0)): self.use('leaf.param.' + kind); return self.new_param(v)
        self.use('leaf.const.' + kind)
        if kind == 'td': return ('const', v, td_text(v, self.rng.choice([0, 0, 1, 2])))
        return ('const', v)
    def td_leaf(self, whole_days=False, allow_attr=True):
        r = self.rng.random()
        if allow_attr and not whole_days and r < 0.15: self.use('leaf.attr.td'); return ('attr', 'td')
        return self.leaf(self.rng.choice(DAY_DELTAS if whole_days else DELTAS), 'td')
    def near(self, kind):
        """a constant close to the data so that ties are frequent"""
        row = self.rng.choice(self.rows)
        if kind == 'date':
            return self.rng.choice([row['d'], row['d2']]) + self.rng.choice([timedelta(0)] + DAY_DELTAS[:4]) * self.rng.choice([1, -1, 0])
        return self.rng.choice([row['dt'], row['dt2']]) + self.rng.choice(DELTAS) * self.rng.choice([1, -1, 0])
    def rooted(self, node, kind):
        """operand of arithmetic / attribute access must contain an entity attribute: a variable-free sub-expression is
        evaluated by python itself before translation (constant folding; its ast2src rendering is property C04)"""
        def has_attr(n): return n[0] == 'attr' or any(isinstance(c, tuple) and has_attr(c) for c in n[1:])
        if has_attr(node): return node
        self.use('leaf.attr.' + kind)
        return ('attr', self.rng.choice(['d', 'd2'] if kind == 'date' else ['dt', 'dt2']))
    def g_date(self, d, nullable=False):
        r = self.rng.random()
        if d <= 0 or r < 0.35:
            if nullable and self.rng.random() < 0.5: self.use('leaf.attr.od'); return ('attr', 'od')
            if r < 0.25: return self.leaf(self.near('date'), 'date')
            self.use('leaf.attr.date'); return ('attr', self.rng.choice(['d', 'd2']))
        if r < 0.8:
            op = self.rng.choice(['add', 'sub']); self.use('date.%s.td' % op)
            return (op, self.rooted(self.g_date(d - 1), 'date'), self.td_leaf(whole_days=True))
        self.use('datetime.date()'); return ('date', self.rooted(self.g_dt(d - 1), 'dt'))
    def g_dt(self, d, nullable=False):
        r = self.rng.random()
        if d <= 0 or r < 0.4:
            if nullable and self.rng.random() < 0.5: self.use('leaf.attr.odt'); return ('attr', 'odt')
            if r < 0.25: return self.leaf(self.near('dt'), 'dt')
            self.use('leaf.attr.dt'); return ('attr', self.rng.choice(['dt', 'dt2']))
        op = self.rng.choice(['add', 'sub']); self.use('dt.%s.td' % op)
        return (op, self.rooted(self.g_dt(d - 1), 'dt'), self.td_leaf())
    def g_td(self, d):
        r = self.rng.random()
        if d <= 0 or r < 0.35: return self.td_leaf()
        if r < 0.65: self.use('date.diff'); return ('sub', self.rooted(self.g_date(d - 1), 'date'), self.g_date(d - 1))
        self.use('dt.diff'); return ('sub', self.rooted(self.g_dt(d - 1), 'dt'), self.g_dt(d - 1))
    def g_int(self, d):
        r = self.rng.random()
        if r < 0.2: self.use('leaf.attr.int'); return ('attr', 'n')
        if r < 0.35: return ('const', self.rng.choice([0, 1, 2, 12, 15, 30, 31, 59, 2020]))
        if r < 0.6:
            f = self.rng.choice(FIELDS['date']); self.use('field.date.' + f)
            return ('field', self.rooted(self.g_date(d - 1), 'date'), f)
        f = self.rng.choice(FIELDS['dt']); self.use('field.dt.' + f)
        return ('field', self.rooted(self.g_dt(d - 1), 'dt'), f)
    def g_cmp(self, d, nullable=False):
        t = self.rng.choice(['date', 'dt', 'dt', 'td', 'int'])
        op = self.rng.choice(['==', '!=', '<', '<=', '>', '>=', '==', '>='])
        self.use('cmp.%s.%s' % (t, op))
        if t == 'date': return ('cmp', op, self.g_date(d, nullable), self.g_date(d))
        if t == 'dt': return ('cmp', op, self.g_dt(d, nullable), self.g_dt(d))
        if t == 'td': return ('cmp', op, self.g_td(d), self.g_td(max(d - 1, 0)))
        return ('cmp', op, self.g_int(d), self.g_int(0))
    def g_bool(self, d, top=True):
        r = self.rng.random()
        if d <= 0 or r < 0.45: return self.g_cmp(max(d, 0), nullable=top and self.rng.random() < 0.2)
        if r < 0.6:
            a = self.rng.choice(NULLABLE); neg = self.rng.random() < 0.5
            self.use('isnone'); guard = ('isnone', ('attr', a), neg)
            c = ('cmp', self.rng.choice(['<', '>=', '==']), ('attr', a), self.g_date(0) if a == 'od' else self.g_dt(0))
            return ('and', guard, c) if neg else ('or', guard, c)
        if r < 0.8: self.use('and'); return ('and', self.g_bool(d - 1, top), self.g_bool(d - 1, top))
        if r < 0.92: self.use('or'); return ('or', self.g_bool(d - 1, False), self.g_bool(d - 1, False))
        self.use('not'); return ('not', self.g_bool(d - 1, False))
    def program(self, depth=2):
        self.params, self.prods = {}, []
        r = self.rng.random()
        if r < 0.5:
            self.use('shape.filter'); cond, proj = self.g_bool(depth), []
        else:
            self.use('shape.proj')
            proj = []
            for _ in range(self.rng.choice([1, 1, 2])):
                t = self.rng.choice(['date', 'dt', 'dt', 'td', 'int'])
                proj.append({'date': self.g_date, 'dt': self.g_dt, 'td': self.g_td, 'int': self.g_int}[t](depth))
                self.use('proj.' + t)
            cond = self.g_bool(depth - 1) if self.rng.random() < 0.4 else None
        return TProgram(cond, proj, self.params, self.prods)


def battery():
    """Deterministic programs: ties at second resolution, equalities of differences, every builder method of every
    dialect (DATE_ADD/SUB, DATETIME_ADD/SUB with constant, parameter and column timedeltas, *_DIFF, fields, date())."""
    A = lambda n: ('attr', n)
    C = lambda v, t=None: ('const', v, t) if t else ('const', v)
    TD = lambda **kw: ('const', timedelta(**kw), 'timedelta(%s)' % ', '.join('%s=%d' % i for i in kw.items()))
    out = []
    def F(cond, params=None): out.append(TProgram(cond, [], params or {}, ['battery.filter']))
    def P(proj, cond=None, params=None): out.append(TProgram(cond, proj, params or {}, ['battery.proj']))
    h1 = timedelta(hours=1); lim = datetime(2020, 1, 2, 14, 0, 0)
    for op in ('add', 'sub'):
        for tdn in (TD(hours=1), TD(days=1), TD(days=1, hours=1, seconds=5), TD(seconds=90), TD(days=0), TD(minutes=30)):
            for cmp_ in ('==', '>=', '<', '!='):
                F(('cmp', cmp_, (op, A('dt'), tdn), A('dt2')))
                F(('cmp', cmp_, (op, A('dt'), tdn), C(lim)))
            P([(op, A('dt'), tdn), (op, A('dt2'), tdn)])
            P([('field', (op, A('dt'), tdn), 'hour'), ('field', (op, A('dt'), tdn), 'day'), ('date', (op, A('dt'), tdn))])
        for v in (h1, timedelta(days=1), timedelta(seconds=90), timedelta(days=2, seconds=1), timedelta(hours=-30)):
            F(('cmp', '==', (op, A('dt'), ('param', 'a0')), A('dt2')), {'a0': v})
            F(('cmp', '>=', (op, A('dt'), ('param', 'a0')), ('param', 'a1')), {'a0': v, 'a1': lim})
            P([(op, A('dt'), ('param', 'a0'))], None, {'a0': v})
        F(('cmp', '<=', (op, A('dt'), A('td')), A('dt2')))
        P([(op, A('dt'), A('td'))])
        for k in (1, 3, 30, 40, 0):
            tdk = ('const', timedelta(days=k), 'timedelta(days=%d)' % k)
            F(('cmp', '==', (op, A('d'), tdk), A('d2')))
            F(('cmp', '<', (op, A('d'), tdk), C(date(2020, 1, 5))))
            F(('cmp', '==', (op, A('d'), ('param', 'a0')), A('d2')), {'a0': timedelta(days=k)})
            F(('cmp', '>=', (op, A('d'), ('param', 'a0')), ('param', 'a1')), {'a0': timedelta(days=k), 'a1': date(2020, 1, 5)})
            P([(op, A('d'), tdk), ('field', (op, A('d'), tdk), 'month')])
            P([(op, A('d'), ('param', 'a0'))], None, {'a0': timedelta(days=k)})
    for cmp_ in ('==', '>=', '<', '!='):
        F(('cmp', cmp_, ('sub', A('dt'), A('dt2')), TD(hours=1)))
        F(('cmp', cmp_, ('sub', A('dt'), A('dt2')), ('param', 'a0')), {'a0': h1})
        F(('cmp', cmp_, ('sub', A('dt'), A('dt2')), A('td')))
        F(('cmp', cmp_, ('sub', A('d'), A('d2')), TD(days=1)))
        F(('cmp', cmp_, ('sub', A('d'), A('d2')), ('param', 'a0')), {'a0': timedelta(days=1)})
        F(('cmp', cmp_, ('sub', A('d'), C(date(2020, 1, 1))), TD(days=2)))
        F(('cmp', cmp_, ('date', A('dt')), A('d')))
        F(('cmp', cmp_, A('dt'), A('dt2')))
        F(('cmp', cmp_, A('dt'), C(lim)))
        F(('cmp', cmp_, A('dt'), ('param', 'a0')), {'a0': lim})
        F(('cmp', cmp_, A('d'), ('param', 'a0')), {'a0': date(2020, 1, 2)})
        F(('cmp', cmp_, A('td'), TD(hours=1)))
        F(('cmp', cmp_, A('td'), ('param', 'a0')), {'a0': h1})
    P([('sub', A('dt'), A('dt2'))])
    P([('sub', A('d'), A('d2')), ('sub', A('d'), C(date(2020, 1, 1)))])
    P([('sub', ('add', A('dt'), TD(hours=1)), A('dt2'))])
    P([A('d'), A('dt'), A('td')])
    for f in FIELDS['dt']:
        P([('field', A('dt'), f)], ('cmp', '>', ('field', A('dt2'), f), ('const', 0)))
        F(('cmp', '==', ('field', A('dt'), f), A('n')))
    for f in FIELDS['date']:
        P([('field', A('d'), f), ('field', ('date', A('dt')), f)])
        F(('cmp', '>=', ('field', A('d'), f), ('field', A('d2'), f)))
    P([('date', A('dt')), ('date', ('add', A('dt'), TD(hours=5)))])
    F(('or', ('isnone', A('od'), False), ('cmp', '<', A('od'), C(date(2020, 1, 5)))))
    F(('and', ('isnone', A('odt'), True), ('cmp', '>=', A('odt'), A('dt'))))
    F(('and', ('cmp', '>', A('od'), A('d2')), ('cmp', '<=', A('dt2'), A('dt'))))
    F(('cmp', '==', ('add', A('odt'), TD(hours=1)), A('dt')))
    return out


# ----------------------------------------------------------------------------------------------------------------
# harness
# ----------------------------------------------------------------------------------------------------------------
FINDING_TEXT_WIDTH = 'C02-SQLITE-TEMPORAL-ARITHMETIC-TEXT-WIDTH'
FINDING_FLOAT_DAYS = 'C02-SQLITE-TIMEDELTA-FLOAT-DAYS'
FINDING_DATE_IS_DATETIME = 'C02-DATE-ARITHMETIC-RETURNS-DATETIME'
FINDING_TIMEDIFF_CLIP = 'C02-MYSQL-TIMEDIFF-CLIPPED-TO-TIME-RANGE'
LABEL = {'sqlite': 'sqlite', 'postgres': 'pg-shim', 'mysql': 'mysql-shim', 'oracle': 'oracle', 'cockroach': 'cockroach'}


def _bag(rows):
    from collections import Counter
    return Counter(rows)


class TemporalHarness(object):
    DIALECTS = ('sqlite', 'postgres', 'mysql', 'oracle', 'cockroach')
    def __init__(self, ctx, loud_classes):
        from vlib import qdiff
        self.ctx, self.qdiff, self.loud = ctx, qdiff, loud_classes
        xdialect.install_factories()
        self.envs = {n: TemporalEnv(n) for n in self.DIALECTS}
        self.rows, self.data_id = [], None
        self.examples = {}

    def load(self, rows, data_id):
        self.rows, self.data_id = rows, data_id
        CURRENT['rows'] = rows
        self.envs['sqlite'].load(rows)
        self.ctx.count('temporal.datasets')

    def self_check(self, prog):
        """The tree evaluator and python's own evaluation of the rendered text must agree (rows without a None operand)."""
        if prog.cond is None: return True
        text = render(prog.cond)
        ev = PyEval(prog.params)
        for row in self.rows:
            e = type('Row', (), row)()
            try: want = bool(eval(text, {'date': date, 'datetime': datetime, 'timedelta': timedelta, 'e': e}, dict(prog.params)))
            except TypeError: continue
            got = ev.truth(prog.cond, row)
            if got is not None and got != want: return False
        return True

    def run(self, name, program):
        env = self.envs[name]
        if env.log is not None: env.log.clear()
        r = self.qdiff.run_program(env, program)
        r.statements = [] if env.log is None else [e for e in env.log.statements() if e['sql'] and not xdialect.SESSION_RE.match(e['sql'])]
        return r

    def witness(self, name, tprog, program, r, expected, detail, extra=None):
        w = {'temporal': True, 'dialect': name, 'executed_on': LABEL[name], 'form': program.form, 'text': program.text(),
             'tree': tprog.to_json(), 'rows': v2j(self.rows), 'detail': detail, 'dialect_result': repr(r.rows if r.kind == 'rows' else r.summary())[:1500],
             'dialect_sql': r.sql, 'python_reference': repr(expected)[:1500],
             'dialect_statements': [{'sql': e['sql'], 'args': repr(e['args'])[:300]} for e in getattr(r, 'statements', [])[:4]]}
        if extra: w.update(extra)
        return w

    def evaluate(self, tprog, form, only=None):
        qdiff, ctx = self.qdiff, self.ctx
        if not self.self_check(tprog):
            ctx.inconclusive.append('temporal harness self-check failed (tree evaluator vs python eval): ' + tprog.src()); return
        program = qdiff.Program(tprog.src(), tprog.params, form, [], None, tprog.prods, 'Ev')
        expected = PyEval(tprog.params).rows(tprog, self.rows)
        ptypes = [typ(x, tprog.params) for x in tprog.proj]
        sq = None
        for name in self.DIALECTS:
            if only is not None and name not in ('sqlite', only): continue
            r = self.run(name, program)
            if name == 'sqlite': sq = r
            out, detail, extra = self.classify(name, tprog, program, r, sq, expected, ptypes)
            ctx.case(fingerprint=[program.key(), self.data_id, name, 'temporal'],
                     nontrivial=out in ('agree', 'finding', 'disagree', 'generated'),
                     sample={'dialect': LABEL[name], 'text': program.src, 'params': qdiff.enc(program.params), 'form': form,
                             'outcome': out, 'sql': (r.sql or '')[:300]} if ctx.evaluations % 97 == 0 else None)
            ctx.count('outcome.%s.temporal.%s' % (name, out))
            if detail and out not in ('agree',): ctx.count('temporal.%s.%s.%s' % (out, name, str(detail)[:70]))
            if out == 'agree':
                ctx.count('temporal_agree.' + name)
                if 0 < len(expected) < len(self.rows) or tprog.proj: ctx.count('temporal_agree_nontrivial.' + name)
            elif out == 'finding':
                for fid in extra['findings']:
                    ctx.count('finding.' + fid)
                    ctx.finding(fid, self.witness(name, tprog, program, r, expected, detail, {'finding': fid}))
            elif out == 'disagree':
                ctx.violation(self.witness(name, tprog, program, r, expected, detail),
                              mechanism=extra.get('mechanism', 'temporal-disagreement:' + LABEL[name]))
            elif out in ('unsupported', 'dialect_only_error', 'pony_raised') and len(self.examples) < 40:
                self.examples.setdefault('temporal.%s.%s.%s' % (out, name, str(detail)[:50]),
                                         {'text': program.src, 'params': qdiff.enc(program.params), 'sql': (r.sql or '')[:400],
                                          'msg': (r.exc_msg or '')[:200]})

    def classify(self, name, tprog, program, r, sq, expected, ptypes):
        env = self.envs[name]
        sq_raised = sq is not None and sq.kind == 'raised'
        if r.kind == 'raised':
            if r.exc in ('TemporalUnsupported', 'ShimUnsupported'): return 'unsupported', r.exc_msg, {}
            if r.exc == 'PlaceholderMismatch':
                return 'disagree', 'placeholders: ' + (r.exc_msg or ''), {'mechanism': 'placeholder-argument-mismatch:' + LABEL[name]}
            if name == 'sqlite': return 'pony_raised', r.exc, {}
            if sq_raised and sq.exc == r.exc: return 'pony_raised', r.exc, {}
            if r.exc in self.loud: return 'dialect_only_error', r.exc, {}
            return 'disagree', 'internal error %s: %s' % (r.exc, (r.exc_msg or '')[:200]), \
                {'mechanism': 'dialect-only-internal-error:%s:%s' % (LABEL[name], r.exc)}
        if name != 'sqlite' and not env.executing:
            for e in r.statements:
                try:
                    toks = xdialect.lex_statement(name, env.style, e['sql'], e['args'])
                    n = xdialect.check_placeholders(toks, env.style, e['args'])
                except xdialect.PlaceholderMismatch as ex:
                    return 'disagree', 'placeholders: %s in %s' % (ex, e['sql'][:300]), {'mechanism': 'placeholder-argument-mismatch:' + LABEL[name]}
                except xdialect.ShimUnsupported:
                    self.ctx.count('recorded.%s.unlexable' % name); continue
                self.ctx.count('recorded.%s.statements' % name); self.ctx.count('recorded.%s.placeholders' % name, n)
            return 'generated', None, {}
        if r.kind != 'rows': return 'disagree', 'scalar result', {}
        got = list(r.rows)
        try: same = _bag(got) == _bag(expected)
        except TypeError: same = False
        if same and all(type(a) is type(b) or isinstance(a, int) for ra, rb in zip(sorted(got, key=repr), sorted(expected, key=repr))
                        for a, b in (zip(ra, rb) if isinstance(ra, tuple) else [(ra, rb)])):
            return 'agree', None, {}
        detail = 'got %s, python %s' % (sorted(map(repr, got))[:4], sorted(map(repr, expected))[:4])
        if name == 'sqlite':
            for tw, fd, fids in ((True, False, [FINDING_TEXT_WIDTH]), (False, True, [FINDING_FLOAT_DAYS]),
                                 (True, True, [FINDING_TEXT_WIDTH, FINDING_FLOAT_DAYS])):
                try: model = SqliteModel(tprog.params, tw, fd).rows(tprog, self.rows)
                except Exception: continue
                if _bag(model) == _bag(got) and self.same_types(model, got): return 'finding', detail, {'findings': fids}
            return 'disagree', detail, {'mechanism': 'temporal-disagreement:sqlite-vs-python'}
        # executing dialect: deviation rules
        fids = []
        norm = self.normalise_dates(got, ptypes)
        if norm is not None:
            got2 = norm; fids.append(FINDING_DATE_IS_DATETIME)
        else: got2 = got
        if _bag(got2) == _bag(expected) and self.same_types(got2, expected) and fids: return 'finding', detail, {'findings': fids}
        if name == 'mysql' and any('timediff(' in e['sql'].lower() for e in r.statements):
            OPTIONS['mysql_timediff_clip'] = False
            try: r2 = self.run(name, program)
            finally: OPTIONS['mysql_timediff_clip'] = True
            if r2.kind == 'rows':
                g = list(r2.rows)
                n2 = self.normalise_dates(g, ptypes)
                f2 = [FINDING_TIMEDIFF_CLIP] + ([FINDING_DATE_IS_DATETIME] if n2 is not None else [])
                g = n2 if n2 is not None else g
                if _bag(g) == _bag(expected) and self.same_types(g, expected): return 'finding', detail, {'findings': f2}
        return 'disagree', detail, {}

    @staticmethod
    def same_types(a, b):
        ka = sorted(a, key=repr); kb = sorted(b, key=repr)
        for ra, rb in zip(ka, kb):
            for x, y in (zip(ra, rb) if isinstance(ra, tuple) else [(ra, rb)]):
                if type(x) is not type(y) and not (isinstance(x, int) and isinstance(y, int)): return False
        return True

    @staticmethod
    def normalise_dates(rows, ptypes):
        """A date-typed projected column that came back as a datetime AT MIDNIGHT -> the date; None if nothing changed."""
        changed, out = False, []
        for row in rows:
            if not isinstance(row, tuple): return None
            vals = list(row)
            for k, t in enumerate(ptypes):
                v = vals[k + 1] if k + 1 < len(vals) else None
                if t == 'date' and isinstance(v, datetime) and v.time() == MIDNIGHT:
                    vals[k + 1] = v.date(); changed = True
            out.append(tuple(vals))
        return out if changed else None


    def replay(self, witness):
        self.load(j2v(witness['rows']), 'replay')
        self.evaluate(TProgram.from_json(witness['tree']), witness.get('form', 'str'), only=witness.get('dialect'))

"""E3 — DB-API boundary recorder, fault injector and crash point.

    rec = Recorder()
    db.bind('sqlite', filename, create_db=True, factory=rec.factory())

Every boundary call (connect, cursor, execute, executemany, commit, rollback,
close) is logged twice from one monotonic counter: phase 'call' before the real
call and phase 'ret' / 'exc' after it.  A fault plan can raise
sqlite3.OperationalError or os._exit() at the k-th event matching a predicate.
`rec.yield_hook(event)` (if set) is invoked at every 'call' event so a
scheduler can use statements as yield points.
"""
import os, sqlite3, threading, itertools

KINDS = ('connect', 'cursor', 'execute', 'executemany', 'commit', 'rollback', 'close')


class InjectedFault(sqlite3.OperationalError):
    pass


class Fault(object):
    """Fire at the n-th (1-based) event with phase `phase` whose kind is in `kinds`
    (None = any) and, if given, whose sql matches `sql_pred`."""
    def __init__(self, n, kinds=None, phase='call', action='raise', sql_pred=None, exc=None, once=True):
        self.n, self.kinds, self.phase, self.action = n, kinds, phase, action
        self.sql_pred, self.exc, self.once = sql_pred, exc, once
        self.seen = 0
        self.fired = 0

    def match(self, ev):
        if ev['phase'] != self.phase: return False
        if self.kinds is not None and ev['kind'] not in self.kinds: return False
        if self.sql_pred is not None and not self.sql_pred(ev.get('sql') or ''): return False
        self.seen += 1
        if self.seen == self.n or (not self.once and self.seen > self.n):
            self.fired += 1
            return True
        return False


class Recorder(object):
    def __init__(self):
        self.events = []
        self.lock = threading.Lock()
        self.seq = itertools.count(1)
        self.faults = []
        self.yield_hook = None
        self.conn_ids = itertools.count(1)
        self.session_tag = threading.local()
        self.enabled = True

    def tag(self, name):
        self.session_tag.name = name

    def emit(self, kind, phase, conn, sql=None, args=None, err=None):
        ev = {'seq': next(self.seq), 'pid': os.getpid(), 'thread': threading.get_ident(),
              'tag': getattr(self.session_tag, 'name', None), 'kind': kind, 'phase': phase,
              'conn': conn, 'sql': sql, 'args': args, 'err': err}
        with self.lock:
            self.events.append(ev)
            fired = [f for f in self.faults if f.match(ev)]
        if phase == 'call' and self.yield_hook is not None:
            self.yield_hook(ev)
        for f in fired:
            if f.action == 'exit':
                os._exit(137)
            ev['injected'] = True
            raise (f.exc or InjectedFault('injected fault at %s #%d (%s)' % (kind, ev['seq'], phase)))
        return ev

    def clear(self):
        with self.lock: del self.events[:]

    def statements(self, since=0, phase='call'):
        return [e for e in self.events if e['seq'] > since and e['phase'] == phase
                and e['kind'] in ('execute', 'executemany')]

    def mark(self):
        return self.events[-1]['seq'] if self.events else 0

    def factory(rec):
        class VCursor(sqlite3.Cursor):
            def execute(self, sql, *a):
                cid = self.connection._vid
                rec.emit('execute', 'call', cid, sql, a[0] if a else None)
                try: r = sqlite3.Cursor.execute(self, sql, *a)
                except BaseException as e:
                    rec.emit('execute', 'exc', cid, sql, None, repr(e)); raise
                rec.emit('execute', 'ret', cid, sql)
                return r
            def executemany(self, sql, seq):
                cid = self.connection._vid
                seq = list(seq)
                rec.emit('executemany', 'call', cid, sql, seq)
                try: r = sqlite3.Cursor.executemany(self, sql, seq)
                except BaseException as e:
                    rec.emit('executemany', 'exc', cid, sql, None, repr(e)); raise
                rec.emit('executemany', 'ret', cid, sql)
                return r

        class VConn(sqlite3.Connection):
            def __init__(self, *a, **kw):
                self._vid = next(rec.conn_ids)
                self._vpid = os.getpid()
                self._vclosed = 0
                rec.emit('connect', 'call', self._vid, a[0] if a else None)
                try: sqlite3.Connection.__init__(self, *a, **kw)
                except BaseException as e:
                    rec.emit('connect', 'exc', self._vid, None, None, repr(e)); raise
                rec.emit('connect', 'ret', self._vid)
            def cursor(self, *a, **kw):
                rec.emit('cursor', 'call', self._vid)
                c = sqlite3.Connection.cursor(self, VCursor)
                rec.emit('cursor', 'ret', self._vid)
                return c
            def execute(self, sql, *a):
                # con.execute() creates a cursor internally through self.cursor(); route via VCursor
                return self.cursor().execute(sql, *a)
            def commit(self):
                rec.emit('commit', 'call', self._vid)
                try: sqlite3.Connection.commit(self)
                except BaseException as e:
                    rec.emit('commit', 'exc', self._vid, None, None, repr(e)); raise
                rec.emit('commit', 'ret', self._vid)
            def rollback(self):
                rec.emit('rollback', 'call', self._vid)
                try: sqlite3.Connection.rollback(self)
                except BaseException as e:
                    rec.emit('rollback', 'exc', self._vid, None, None, repr(e)); raise
                rec.emit('rollback', 'ret', self._vid)
            def close(self):
                rec.emit('close', 'call', self._vid)
                try: sqlite3.Connection.close(self)
                except BaseException as e:
                    rec.emit('close', 'exc', self._vid, None, None, repr(e)); raise
                self._vclosed += 1
                rec.emit('close', 'ret', self._vid)
        return VConn


def raw_dump(filename, tables=None):
    """Read a database with plain sqlite3 (no Pony): {table: sorted rows}."""
    con = sqlite3.connect(filename)
    try:
        if tables is None:
            tables = [r[0] for r in con.execute(
                "select name from sqlite_master where type='table' and name not like 'sqlite_%' order by name")]
        out = {}
        for t in tables:
            cur = con.execute('select * from "%s"' % t.replace('"', '""'))
            cols = [d[0] for d in cur.description]
            out[t] = {'cols': cols, 'rows': sorted(cur.fetchall(), key=repr)}
        return out
    finally:
        con.close()


def fk_check(filename):
    con = sqlite3.connect(filename)
    try: return con.execute('PRAGMA foreign_key_check').fetchall()
    finally: con.close()

"""E2 part 4 — operations: execution against pony + the reference model, and generation.

An operation is a jsonable dict:
  {'op':'create','oid':n,'ent':E,'kw':{attr: value}}         value: scalar | {'ref': oid|None} | {'set':[oids]}
  {'op':'set','oid':n,'attr':a,'val':value}
  {'op':'setmany','oid':n,'kw':{attr: value}}
  {'op':'add'|'remove'|'assign','oid':n,'attr':a,'items':[oids]} / {'op':'clear','oid':n,'attr':a}
  {'op':'delete','oid':n}
  {'op':'flush'} {'op':'commit'} {'op':'rollback'} {'op':'end'} {'op':'abort'}
  reads: {'op':'read','oid','attr'} {'op':'coll','oid','attr','how',('item')} {'op':'bypk','ent','pk_of':oid|'pk':[..],'how'}
         {'op':'bykey','ent','key':{attr:val},'how'} {'op':'selectall','ent'} {'op':'selectcmp','ent','attr','cmp','val'}
         {'op':'count','ent'} {'op':'todict','oid'}
`Engine.step(op)` (mixed into hist.Engine by `install`) returns an outcome string.
"""
import copy, re, sys

from vlib import hmodel
from vlib.hist import Engine, HarnessSkip, DEL_STATUSES

MOD_OPS = ('create', 'set', 'setmany', 'add', 'remove', 'assign', 'clear', 'delete')
READ_OPS = ('read', 'coll', 'bypk', 'bykey', 'selectall', 'selectcmp', 'count', 'todict')
TX_OPS = ('flush', 'commit', 'rollback', 'end', 'abort')


def dec(v):
    """decode an op value -> ('scalar', v) | ('ref', oid) | ('set', [oids])"""
    if isinstance(v, dict):
        if 'ref' in v: return 'ref', v['ref']
        if 'set' in v: return 'set', list(v['set'])
    return 'scalar', v


# ---------------------------------------------------------------------------
def step(self, op):
    self.step_no += 1
    self.failed_call_ctx = None
    self.last_exc = None
    self.candidate = None
    kind = op['op']
    if self.diverged: return 'diverged'
    if self.session is None:
        if kind in ('end', 'abort', 'rollback', 'flush', 'commit'): return 'noop'
        self.begin(**op.get('session_opts', self.default_session_opts))
    self.c('op.' + kind)
    try:
        if kind in MOD_OPS: out = self._modify(op)
        elif kind in READ_OPS: out = self._read(op)
        else: out = self._tx(op)
    except HarnessSkip as e:
        self.c('skip.' + str(e)[:24])
        out = 'skipped_obtain_raised' if str(e) == 'obtain raised' else 'skipped'
    if self.session is not None and not self.diverged:
        self._learn_auto_pks(strict=False)
        d = self.walk_model()
        try: self.walk()
        except Exception as e:
            self.c('walker_error.' + type(e).__name__)
            raise
        if self.pending_taint_stop:
            self.pending_taint_stop = False
            try: self.orm.rollback()
            except Exception as e2: self.c('rollback_after_taint_raised.' + type(e2).__name__)
            self._reset_after_rollback()
            d = None
        if d:
            det = {'op': op, 'outcome': out, 'diffs': [list(map(str, x)) for x in d[:6]]}
            if out.startswith('raised') and kind in MOD_OPS:
                exc = self.last_exc
                mech = '%s:%s:model_%s' % (kind, type(exc).__name__, '+'.join(sorted(set(x[0] for x in d))))
                det.update({'exc': type(exc).__name__, 'msg': str(exc)[:200], 'mechanism': mech,
                            'cascade_cycle': self.last_model.get('cascade_cycle'),
                            'model_expected_refusal': self.last_model.get('refusal')})
                self.report('atomic', 'state_changed_after_failed_call', det)
                if not self.tainted:      # the FIRST failed call that changed the session is the root cause of what follows
                    self.tainted = mech
                    self.tainted_ctx = dict(self.failed_call_ctx or {})
                if self.stop_on_taint:
                    try: self.orm.rollback()
                    except Exception as e2: self.c('rollback_after_taint_raised.' + type(e2).__name__)
                    self._reset_after_rollback()
                    out = 'raised_tainted_stop'
            elif self.tainted:
                self.report('atomic', 'tainted_session_differs_from_model', dict(det, mechanism=self.tainted))
            else:
                self.report('cachemodel', 'cache_differs_from_model', det)
                self.diverged = 'cache differs from model'
    if self.session is not None and not self.diverged: self._sync_dbstate()
    self.c('outcome.' + out)
    return out


def _pony_kwargs(self, ent, kw):
    er = self.rules.ents[ent]
    out = {}
    for n, v in kw.items():
        t, x = dec(v)
        if t == 'ref': out[n] = None if x is None else self._arg_obj(x)
        elif t == 'set': out[n] = [self._arg_obj(i) for i in x]
        else: out[n] = x
    return out


def _arg_obj(self, oid):
    if isinstance(oid, dict) and 'stale' in oid:
        p = self.stale.get(oid['stale'])
        if p is None: raise HarnessSkip('no stale handle')
        return p
    return self.obj(oid)


def _model_kwargs(kw):
    out = {}
    for n, v in kw.items():
        t, x = dec(v)
        out[n] = x if t != 'set' else list(x)
    return out


def _has_stale(op):
    def st(v):
        t, x = dec(v)
        if t == 'ref': return isinstance(x, dict)
        if t == 'set': return any(isinstance(i, dict) for i in x)
        return False
    if 'kw' in op and any(st(v) for v in op['kw'].values()): return True
    if 'val' in op and st(op['val']): return True
    if 'items' in op and any(isinstance(i, dict) for i in op['items']): return True
    return False


def _modify(self, op):
    kind = op['op']
    w = self.working
    if kind != 'create' and op['oid'] not in w.objs: return 'skipped_dead_target'
    # 1. model prediction on a copy
    m2 = w.copy()
    self.candidate = m2     # (lifecycle hooks that run during this call apply their edits to both states, see C33)
    refuse = None
    stale = _has_stale(op)
    try:
        if stale: raise hmodel.ModelRefuse('mixed_session', 'object of a finished session')
        if kind == 'create': m2.create(op['oid'], op['ent'], _model_kwargs(op['kw']))
        elif kind == 'set':
            a = m2.attr(m2.objs[op['oid']], op['attr'])
            t, x = dec(op['val'])
            if a.kind == 'scalar': m2.set_scalar(op['oid'], op['attr'], x)
            elif a.kind == 'ref': m2.set_ref(op['oid'], op['attr'], x)
            else: m2.coll_assign(op['oid'], op['attr'], x)
        elif kind == 'setmany':
            # documented: all or nothing; order of application is the order given
            for n, v in op['kw'].items():
                a = m2.attr(m2.objs[op['oid']], n)
                t, x = dec(v)
                if a.kind == 'scalar': m2.set_scalar(op['oid'], n, x)
                elif a.kind == 'ref': m2.set_ref(op['oid'], n, x)
                else: m2.coll_assign(op['oid'], n, x)
                if op['oid'] not in m2.objs: raise hmodel.ModelRefuse('deleted', 'self deleted by cascade')
        elif kind == 'add': m2.coll_add(op['oid'], op['attr'], op['items'])
        elif kind == 'remove': m2.coll_remove(op['oid'], op['attr'], op['items'])
        elif kind == 'assign': m2.coll_assign(op['oid'], op['attr'], op['items'])
        elif kind == 'clear': m2.coll_assign(op['oid'], op['attr'], [])
        elif kind == 'delete': m2.delete(op['oid'])
        m2.check_links()
        if kind != 'delete':
            # an operation whose cascade deletes one of its OWN arguments (or, for a set() call with several
            # relationship arguments, deletes anything at all) has no specified outcome: outside the model
            refs = set()
            for v in list(op.get('kw', {}).values()) + ([op['val']] if 'val' in op else []):
                t, x = dec(v)
                if t == 'ref' and isinstance(x, int): refs.add(x)
                elif t == 'set': refs.update(i for i in x if isinstance(i, int))
            refs.update(i for i in op.get('items', []) if isinstance(i, int))
            if kind != 'create': refs.add(op['oid'])
            if any(r_ not in m2.objs for r_ in refs):
                raise hmodel.ModelRefuse('model_gap', 'the operation deletes one of its own arguments')
            if kind == 'setmany' and len(m2.objs) < len(w.objs) and \
                    sum(1 for v in op['kw'].values() if dec(v)[0] != 'scalar') > 1:
                raise hmodel.ModelRefuse('model_gap', 'set() with several relationship arguments and a cascade')
    except hmodel.ModelRefuse as e:
        refuse = e
    except KeyError as e:
        # model referenced an object that a cascade removed mid-operation: treat as outside the model
        refuse = hmodel.ModelRefuse('model_gap', repr(e))

    # 2. resolve arguments (may load objects) BEFORE the snapshot
    if kind == 'create':
        pkw = self._pony_kwargs(op['ent'], op['kw'])
        target = None
    else:
        target = self.obj(op['oid'])
        if kind in ('set',):
            a = w.attr(w.objs[op['oid']], op['attr'])
            t, x = dec(op['val'])
            if t == 'ref': pval = None if x is None else self._arg_obj(x)
            elif t == 'set': pval = [self._arg_obj(i) for i in x]
            else: pval = x
        elif kind == 'setmany': pkw = self._pony_kwargs(w.objs[op['oid']].ent, op['kw'])
        elif kind in ('add', 'remove', 'assign'): pitems = [self._arg_obj(i) for i in op['items']]
    self._note_seed_reassign(op)
    if refuse is None:
        # objects the operation deletes (directly or by cascade) that the session only knows as pk-only seeds
        # or not at all: their many-to-one references are not loaded when pony deletes them
        for v in set(w.objs) - set(m2.objs):
            p = self.h.get(v)
            # an object with a pending UPDATE that is deleted: pony cancels the UPDATE and queues the DELETE at the end
            if p is not None and p._status_ == 'modified': self.mod_then_del.add(v)
            if p is None or self._is_seed(p):
                self.seed_deleted.add('%s[%s]' % (w.objs[v].ent, ','.join(map(repr, self._flat_pk(v)))))
                self.c('seed_deletions')
                if self.force_load == 'targeted':
                    try:
                        if p is None: p = self.obj(v, via=0)
                        p.load(); self.c('targeted_loads')
                    except HarnessSkip: pass
                    except Exception as e: self.c('targeted_load_raised.' + type(e).__name__)
    self.last_model ={'cascade_cycle': bool(m2.cascade_revisit), 'refusal': refuse.kind if refuse else None}
    before = self.snapshot() if self.snapshots else None
    mark = self.rec.mark()
    self._sync_dbstate()      # the lookups of the argument objects may have flushed

    # 3. the real call
    exc = None
    created = None
    try:
        if kind == 'create': created = self.cls[op['ent']](**pkw)
        elif kind == 'set': setattr(target, op['attr'], pval)
        elif kind == 'setmany': target.set(**pkw)
        elif kind == 'add': getattr(target, op['attr']).add(pitems)
        elif kind == 'remove': getattr(target, op['attr']).remove(pitems)
        elif kind == 'assign': setattr(target, op['attr'], pitems)
        elif kind == 'clear': getattr(target, op['attr']).clear()
        elif kind == 'delete': target.delete()
    except Exception as e:
        exc = e
    self.last_exc = exc
    if kind == 'delete' or (kind in ('remove', 'assign', 'clear', 'set', 'setmany') and refuse is not None and refuse.kind == 'cascade'):
        self.c('cascade.deletes_judged')
        if refuse is not None and refuse.kind == 'cascade' and exc is not None: self.c('cascade.refusals_confirmed')
        if refuse is None and exc is None and len(m2.objs) < len(w.objs) - 1: self.c('cascade.cascading_deletes_applied')

    # 4. judge
    if exc is None:
        if refuse is not None:
            if refuse.kind == 'cascade':
                self.report('cascade', 'delete_not_refused', {'op': op, 'model': str(refuse)})
            elif refuse.kind == 'mixed_session':
                self.report('atomic', 'mixed_session_object_accepted', {'op': op})
            self.c('model_refused_but_pony_succeeded.' + refuse.kind)
            self.diverged = 'model refused (%s) but pony succeeded' % refuse
            return 'diverged'
        self.working = m2
        if kind == 'create':
            self.h[op['oid']] = created; self.rev[id(created)] = op['oid']
            self.unflushed.add(op['oid'])
        # objects deleted by the operation lose their handles
        for oid in list(self.h):
            if oid not in m2.objs:
                p = self.h.pop(oid); self.rev.pop(id(p), None)
        self.pending_dups = bool(m2.dups())
        return 'applied'
    # pony raised
    name = type(exc).__name__
    self.failed_call_ctx = {'exc': name, 'cascade_cycle': bool(m2.cascade_revisit),
                            'model_expected_refusal': refuse.kind if refuse else None, 'op': kind}
    self.c('raised.%s.%s' % (kind, name))
    self.errlog.append((kind, name, str(exc)[:160]))
    cache = self.cache()
    if cache is None or not cache.is_alive:
        self.c('session_killed_by_error')
        self._reset_after_rollback()
        return 'raised_session_lost'
    if isinstance(exc, self.core.IsolationError):
        # a repeatable-read / optimistic-check error invalidates the transaction: the program abandons the session
        self.c('session_abandoned_after_isolation_error')
        try: self.orm.rollback()
        except Exception as e2: self.c('rollback_after_isolation_error_raised.' + type(e2).__name__)
        self._reset_after_rollback()
        return 'raised_session_lost'
    if self.snapshots:
        after = self.snapshot()
        diffs = self.compare_snapshots(before, after)
        self.c('atomic.failed_calls_judged')
        if diffs:
            mech = '%s:%s:%s' % (kind, name, '+'.join(sorted(set(d[0] for d in diffs))))
            self.report('atomic', 'state_changed_after_failed_call',
                        {'op': op, 'exc': name, 'msg': str(exc)[:200], 'diffs': [list(map(str, d)) for d in diffs[:6]],
                         'model_expected_refusal': refuse.kind if refuse else None, 'mechanism': mech,
                         'cascade_cycle': bool(m2.cascade_revisit)})
            if not self.tainted:
                self.tainted = mech
                self.tainted_ctx = dict(self.failed_call_ctx or {})
            if self.stop_on_taint:
                # the session no longer is what the model thinks it is: step() lets the walkers look at it
                # (index / reverse monitors own what they see) and then ends it without committing
                self.pending_taint_stop = True
                return 'raised_tainted_stop'
    if refuse is None:
        dup = bool(m2.dups())
        if dup: self.c('conflict.reported_at_call'); self.c('conflict.judged')
        else: self.c('unexpected_error.%s.%s' % (kind, name))
        return 'raised_conflict' if dup else 'raised_unexpected'
    return 'raised_expected'


def _sync_dbstate(self):
    """if the session has nothing pending, an (implicit) flush has written everything: the database holds the
    session's current state (used only to recognise the DELETE-BEFORE-REFERRER-WRITTEN mechanism)"""
    try:
        c = self.cache()
        if c is not None and c.is_alive and not c.modified and not any(o is not None for o in c.objects_to_save):
            if not self.unflushed or True: self.dbstate = self.working.copy()
    except Exception: pass


def _note_seed_reassign(self, op):
    """Record (oid, attr) of every many-to-one reference this operation (re)assigns on an object whose
    reference is NOT LOADED in the session cache (a pk-only 'seed').  Used only to recognise the known
    finding C10-SEED-REASSIGN-OLD-PARENT-LOAD by its mechanism."""
    w = self.working
    pairs = []
    def items_of(v):
        t, x = dec(v)
        return [i for i in (x if t == 'set' else [x]) if isinstance(i, int)]
    try:
        if op['op'] == 'create':
            er = self.rules.ents[op['ent']]; kws = op['kw']; owner = None
        elif op['op'] in ('set', 'setmany'):
            er = self.rules.ents[w.objs[op['oid']].ent]; owner = op['oid']
            kws = op['kw'] if op['op'] == 'setmany' else {op['attr']: op['val']}
        elif op['op'] in ('add', 'remove', 'assign', 'clear'):
            er = self.rules.ents[w.objs[op['oid']].ent]; owner = op['oid']
            kws = {op['attr']: {'set': op.get('items', [])}}
        else: return
        for n, v in kws.items():
            a = er.attrs.get(n)
            if a is None or a.kind == 'scalar': continue
            r = self.rules.rev(a)
            if a.kind == 'ref' and r.kind == 'set' and owner is not None: pairs.append((owner, n))
            elif a.kind == 'set' and r.kind == 'ref':
                its = set(items_of(v))
                if owner is not None and op['op'] in ('assign', 'clear', 'set', 'setmany'): its |= set(w.objs[owner].vals[n])
                pairs.extend((i, r.name) for i in its)
        for oid, an in pairs:
            p = self.h.get(oid)
            if p is None or p._vals_ is None: continue
            attr = getattr(type(p), an, None)
            if attr is not None and attr not in p._vals_ and p._status_ != 'created':
                self.seed_reassigned.add((oid, an))
                self.c('seed_reassignments')
                if self.force_load == 'targeted':
                    # deviation replay for the known finding: the trigger (reference not loaded when reassigned) is
                    # removed, nothing else changes
                    try: getattr(p, an); self.c('targeted_loads')      # loads the row, or the lazy reference itself
                    except Exception as e: self.c('targeted_load_raised.' + type(e).__name__)
    except Exception as e:
        self.c('note_seed_error.' + type(e).__name__)


def _fk_cycle(self):
    """True if the not-yet-inserted objects reference each other in a cycle through attributes that own a column."""
    w = self.working
    new = set(o for o in self.unflushed if o in w.objs)
    edges = {}
    for oid in new:
        o = w.objs[oid]
        cls = self.cls[o.ent]
        for a in cls._attrs_:
            if a.is_collection or not a.reverse or not a.columns: continue
            t = o.vals.get(a.name)
            if t is not None and t in new: edges.setdefault(oid, set()).add(t)
    color = {}
    def dfs(n):
        color[n] = 1
        for m in edges.get(n, ()):
            if color.get(m) == 1: return True
            if m not in color and dfs(m): return True
        color[n] = 2
        return False
    return any(n not in color and dfs(n) for n in list(new))


def _reset_after_rollback(self):
    self.unflushed = set()
    self.mod_then_del = set()
    self.tainted = None
    self.seed_reassigned = set()
    self.seed_deleted = set()
    self.failed_flush_continued = False
    self.dbstate = None
    self.working = self.committed.copy()
    for oid, p in self.h.items(): self.stale[oid] = p
    self.h = {}; self.rev = {}
    self.pending_dups = False


def _learn_auto_pks(self, strict=True):
    for oid, o in self.working.objs.items():
        er = self.rules.ents[o.ent]
        if er.auto_pk and o.vals.get('id') is None:
            p = self.h.get(oid)
            if p is None: continue
            v = p._pkval_
            if v is None:
                if strict: self.report('commit', 'auto_pk_not_assigned_after_flush', {'oid': oid})
                continue
            for other, oo in self.working.objs.items():
                if other != oid and self.rules.ents[oo.ent].root == er.root and oo.vals.get('id') == v:
                    self.report('conflict', 'auto_pk_reused_for_live_object', {'oid': oid, 'other': other, 'pk': v})
            o.vals['id'] = v


def _tx(self, op):
    kind = op['op']
    orm = self.orm
    if kind == 'obtain':
        # the program fetches some objects ahead of use (e.g. at the start of the session)
        for oid in op['oids']:
            if oid in self.working.objs:
                try: self.obj(oid, via=op.get('via'))
                except HarnessSkip: pass
        return 'ok'
    if kind in ('flush', 'commit', 'end'):
        dups = self.working.dups()
        cycle = self._fk_cycle()
        if cycle: self.c('fkorder.cycle_cases')
        elif self.unflushed: self.c('fkorder.orderable_flushes_with_inserts')
        exc = None
        one = op.get('oid') if kind == 'flush' else None      # obj.flush() of a single object
        if one is not None:
            if one not in self.working.objs: return 'skipped_dead_target'
            target = self.h.get(one)
            if target is None: return 'skipped_no_handle'
            # only a conflict this very object takes part in (with partners that are already written) must be reported
            dups = [d for d in dups if one in d[3] and all(x == one or x not in self.unflushed for x in d[3])]
        try:
            if one is not None: target.flush()
            elif kind == 'flush': orm.flush()
            elif kind == 'commit': orm.commit()
            else: self._exit_session()
        except Exception as e:
            exc = e
        self.last_exc = exc
        if exc is None:
            if dups:
                self.c('conflict.judged'); self.report('conflict', 'duplicate_key_flushed_without_error', {'op': op, 'dups': repr(dups[:2])})
                self.diverged = 'duplicates flushed'
                return 'diverged'
            self._learn_auto_pks(strict=one is None)
            if one is not None:
                self.unflushed.discard(one)
                self.pending_dups = bool(self.working.dups())
                # the database now holds this object's current row (used to recognise the delete-order finding)
                try:
                    import copy
                    if self.dbstate is None: self.dbstate = self.committed.copy()
                    if one in self.working.objs:
                        todo = [one]; seen = set()
                        while todo:      # obj.flush() saves the new objects it refers to first
                            x = todo.pop()
                            if x in seen or x not in self.working.objs: continue
                            seen.add(x)
                            self.dbstate.objs[x] = copy.deepcopy(self.working.objs[x])
                            ox = self.working.objs[x]
                            for n, a in self.rules.ents[ox.ent].attrs.items():
                                v = ox.vals.get(n)
                                if a.kind == 'ref' and v is not None and v in self.unflushed and v not in self.dbstate.objs: todo.append(v)
                    else: self.dbstate.objs.pop(one, None)
                except Exception: pass
                return 'ok'
            self.unflushed = set()
            self.mod_then_del = set()
            self.dbstate = self.working.copy()
            if cycle: self.c('fkorder.cycle_flushed_ok')
            if kind in ('commit', 'end'):
                self.committed = self.working.copy()
                self.observe_commit(kind)
            if kind == 'end':
                for oid, p in self.h.items(): self.stale[oid] = p
                self.h = {}; self.rev = {}
            return 'ok'
        name = type(exc).__name__
        self.c('raised.%s.%s' % (kind, name))
        self.errlog.append((kind, name, str(exc)[:160]))
        msg = str(exc)
        if 'FOREIGN KEY constraint failed' in msg:
            stmts = [e for e in self.rec.events if e['phase'] == 'call' and e['kind'] in ('execute', 'executemany')]
            failed_sql = (stmts[-1]['sql'] or '').strip()[:80] if stmts else ''
            # was a row deleted while the database still held a reference to it from a row that the same flush
            # deletes later or re-points (its in-session reference was changed before)?
            dbstate = self.dbstate if self.dbstate is not None else self.committed     # what the database holds (last full flush)
            gone = set(dbstate.objs) - set(self.working.objs)
            referenced = False; referrers = set(); parents = set()
            # only rows of the table whose DELETE failed matter: other deleted rows may be referenced by rows that are
            # deleted before them, which is a fine order
            m = re.match(r'DELETE FROM "([^"]+)"', failed_sql)
            failed_table = m.group(1) if m else None
            def table_of(oid_):
                try:
                    t = self.cls[dbstate.objs[oid_].ent]._root_._table_
                    return t if isinstance(t, str) else t[-1]
                except Exception: return None
            for xo, x in dbstate.objs.items():
                cls = self.cls[x.ent]
                for a in cls._attrs_:
                    if a.is_collection or not a.reverse or not a.columns: continue
                    y = x.vals.get(a.name)
                    if y in gone and (xo in gone or self.working.objs[xo].vals.get(a.name) != y):
                        if failed_table is not None and table_of(y) != failed_table: continue
                        referenced = True; referrers.add(xo); parents.add(y)
            # the known mechanism: the referring row had a pending UPDATE and was then deleted (its DELETE went to the end
            # of the queue, behind the DELETE of the row it still references in the database)
            mtd = bool(referrers) and all(x in self.mod_then_del for x in referrers)
            # on the unchanged code a deleted row that had a pending UPDATE is deleted LAST (its DELETE goes to the end of
            # the queue), so it cannot be the row whose DELETE came too early
            parent_mtd = any(y in self.mod_then_del for y in parents)
            self.report('fkorder', 'foreign_key_error_on_flush', {'op': kind, 'exc': name, 'msg': msg[:200], 'cycle': cycle,
                                                                  'failed_sql': failed_sql, 'deleted_row_still_referenced_in_db': referenced,
                                                                  'referrers_modified_then_deleted': mtd,
                                                                  'deleted_row_had_pending_update': parent_mtd})
        if name == 'UnresolvableCyclicDependency':
            if cycle: self.c('fkorder.cycle_refused')
            else: self.report('fkorder', 'cyclic_dependency_error_without_cycle', {'op': kind, 'msg': msg[:200]})
        if dups: self.c('conflict.reported_at_flush'); self.c('conflict.judged')
        else: self.c('unexpected_error.%s.%s' % (kind, name))
        cache = self.cache()
        if kind == 'flush' and op.get('keep_going') and dups and cache is not None and cache.is_alive:
            # the program catches the conflict reported by flush() and carries on inside the same session: the
            # conflict is still pending, so the next flush / commit has to report it again
            self.c('conflict.kept_going_after_failed_flush')
            self.pending_dups = True
            self.failed_flush_continued = True
            return 'raised_conflict_kept_going'
        # the session's transaction is over: make sure it is, then nothing of it may be visible
        try:
            if self.session is not None and kind != 'end': orm.rollback()
        except Exception as e2:
            self.c('rollback_after_failed_flush_raised.' + type(e2).__name__)
        if kind == 'end': self.session = None
        self._reset_after_rollback()
        self.observe_commit('after failed ' + kind)
        if isinstance(exc, self.core.IsolationError) and not dups:
            # a loud (possibly spurious) optimistic-check / unrepeatable-read error at flush: the session is lost
            return 'raised_session_lost'
        return 'raised_conflict' if dups else 'raised_unexpected'
    if kind == 'rollback':
        orm.rollback()
        self._reset_after_rollback()
        self.observe_commit('rollback')
        return 'ok'
    if kind == 'abort':
        self._exit_session(abort=True) if False else None
        s, self.session = self.session, None
        class Abort(Exception): pass
        try:
            raise Abort()
        except Abort:
            try: s.__exit__(*sys.exc_info())
            except Exception as e: self.c('abort_exit_raised.' + type(e).__name__)
        self._reset_after_rollback()
        self.observe_commit('abort')
        return 'ok'
    raise ValueError(kind)


# ---------------------------------------------------------------------------
def _obs(self, what, value):
    self.trace.append((self.step_no, what, value))


def _canon_oid(self, oid):
    """session-independent name of an object for traces"""
    if oid is None: return None
    o = self.working.objs.get(oid)
    return ('obj', oid)


def _read(self, op):
    kind = op['op']
    w = self.working
    if getattr(self, 'pending_dups', False): return 'skipped_pending_conflict'
    Entity = self.core.Entity
    if kind in ('read', 'coll', 'todict'):
        if op['oid'] not in w.objs: return 'skipped_dead_target'
        o = w.objs[op['oid']]
        target = self.obj(op['oid'])
    mark = self.rec.mark()
    try:
        if kind == 'read':
            a = w.attr(o, op['attr'])
            got = getattr(target, op['attr'])
            want = o.vals[op['attr']]
            if a.kind == 'ref':
                got = None if got is None else self.oid_of(got, 'read')
            elif a.kind == 'set':
                got = set(self.oid_of(x, 'read') for x in got); want = set(want)
            self._judge_read(op, got, want, mark)
        elif kind == 'coll':
            coll = getattr(target, op['attr'])
            want_set = set(o.vals[op['attr']])
            how = op['how']
            if how == 'iter': got, want = set(self.oid_of(x, 'coll') for x in coll), want_set
            elif how == 'count': got, want = coll.count(), len(want_set)
            elif how == 'len': got, want = len(coll), len(want_set)
            elif how == 'empty': got, want = coll.is_empty(), not want_set
            elif how == 'bool': got, want = bool(coll), bool(want_set)
            elif how == 'in':
                if op['item'] not in w.objs: return 'skipped_dead_target'
                got, want = (self.obj(op['item']) in coll), (op['item'] in want_set)
            elif how == 'copy': got, want = set(self.oid_of(x, 'coll') for x in coll.copy()), want_set
            elif how == 'select': got, want = set(self.oid_of(x, 'coll') for x in coll.select()), want_set
            else: raise ValueError(how)
            self._judge_read(op, got, want, mark)
        elif kind == 'bypk':
            ent = op['ent']
            rootn = self.rules.ents[ent].root
            if 'pk_of' in op:
                if op['pk_of'] in w.objs: pkflat = self._flat_pk(op['pk_of'])
                elif op['pk_of'] in self.graveyard: pkflat = self.graveyard[op['pk_of']]
                else: return 'skipped_dead_target'
            else: pkflat = tuple(op['pk'])
            if any(v is None for v in pkflat): return 'skipped_unknown_pk'
            er = self.rules.ents[ent]
            if any(er.attrs[n].kind == 'ref' for n in er.pk): return 'skipped_ref_pk'
            want = None
            for cand in w.of_entity(ent):
                if self._flat_pk(cand) == tuple(pkflat): want = cand
            cls = self.cls[ent]
            arg = tuple(pkflat) if len(pkflat) > 1 else pkflat[0]
            how = op['how']
            if how == 'getitem':
                try: p = cls[arg]
                except self.orm.ObjectNotFound: p = None
                got = None if p is None else self.oid_of(p, 'bypk')
            elif how == 'get':
                p = cls.get(**dict(zip(er.pk, pkflat)))
                got = None if p is None else self.oid_of(p, 'bypk')
            elif how == 'exists':
                got = cls.exists(**dict(zip(er.pk, pkflat))); want = want is not None
            elif how == 'select':
                l = list(cls.select(**dict(zip(er.pk, pkflat))))
                got = None if not l else self.oid_of(l[0], 'bypk')
                if len(l) > 1: self.report('read', 'select_by_pk_returned_many', {'op': op, 'n': len(l)})
            self._judge_read(op, got, want, mark)
        elif kind == 'bykey':
            ent = op['ent']; cls = self.cls[ent]
            key = op['key']
            want = set()
            for cand in w.of_entity(ent):
                co = w.objs[cand]
                if all(co.vals.get(n) == v for n, v in key.items()): want.add(cand)
            how = op['how']
            if how == 'get':
                if len(want) > 1: return 'skipped_multiple'
                p = cls.get(**key)
                got = None if p is None else self.oid_of(p, 'bykey'); want = (sorted(want)[0] if want else None)
            elif how == 'exists': got, want = cls.exists(**key), bool(want)
            elif how == 'select': got = set(self.oid_of(x, 'bykey') for x in cls.select(**key))
            elif how == 'count': got, want = cls.select(**key).count(), len(want)
            self._judge_read(op, got, want, mark)
        elif kind == 'selectall':
            cls = self.cls[op['ent']]
            got = set(self.oid_of(x, 'selectall') for x in cls.select())
            want = set(w.of_entity(op['ent']))
            self._judge_read(op, got, want, mark)
        elif kind == 'count':
            cls = self.cls[op['ent']]
            got = cls.select().count(); want = len(w.of_entity(op['ent']))
            self._judge_read(op, got, want, mark)
        elif kind == 'selectcmp':
            cls = self.cls[op['ent']]
            attr, cmp_, val = op['attr'], op['cmp'], op['val']
            v = val   # pony resolves external names through the calling frame
            f = eval('lambda x: x.%s %s v' % (attr, cmp_))
            got = set(self.oid_of(x, 'selectcmp') for x in cls.select(f))
            want = set()
            for cand in w.of_entity(op['ent']):
                cv = w.objs[cand].vals.get(attr)
                if cv is None: continue
                if {'==': cv == val, '!=': cv != val, '<': cv < val, '>': cv > val, '<=': cv <= val, '>=': cv >= val}[cmp_]:
                    want.add(cand)
            self._judge_read(op, got, want, mark)
        elif kind == 'todict':
            d = target.to_dict(with_collections=True, with_lazy=True)
            self._learn_auto_pks(strict=False)    # to_dict may flush to obtain auto primary keys
            got, want = {}, {}
            er = self.rules.ents[o.ent]
            for n, a in er.attrs.items():
                if n not in d:
                    got[n] = '<absent>'
                elif a.kind == 'scalar': got[n] = d[n]
                elif a.kind == 'ref': got[n] = d[n]
                else: got[n] = sorted(d[n], key=repr)
                v = o.vals[n]
                if a.kind == 'scalar': want[n] = v
                elif a.kind == 'ref': want[n] = None if v is None else self._pk_public(v)
                else: want[n] = sorted((self._pk_public(i) for i in v), key=repr)
            extra = set(d) - set(er.attrs) - {'classtype'}
            if extra: got['<extra>'] = sorted(extra)
            self._judge_read(op, got, want, mark)
    except HarnessSkip:
        raise
    except Exception as e:
        name = type(e).__name__
        self.errlog.append((kind, name, str(e)[:160]))
        self.c('raised.read.%s' % name)
        self.c('unexpected_error.%s.%s' % (kind, name))
        self.last_exc = e
        cache = self.cache()
        if cache is None or not cache.is_alive:
            self._reset_after_rollback()
            return 'raised_session_lost'
        return 'raised_unexpected'
    return 'read_ok'


def _pk_public(self, oid):
    """primary key as to_dict() shows it: the raw column values, references inside the key flattened"""
    def flat(t):
        out = []
        for x in t:
            if isinstance(x, tuple): out.extend(flat(x))
            else: out.append(x)
        return out
    t = tuple(flat(self._flat_pk(oid)))
    return t[0] if len(t) == 1 else t


def _judge_read(self, op, got, want, mark):
    stmts = self.rec.statements(mark)
    self.c('read.judged')
    if not stmts: self.c('read.answered_without_sql')
    self._obs(json_key(op), canon(got))
    if isinstance(got, set) and None in got: got = set(x for x in got if x is not None)
    if got != want:
        self.report('read', 'wrong_result', {'op': op, 'got': canon(got), 'want': canon(want), 'sql_statements': len(stmts)})


def canon(v):
    if isinstance(v, (set, frozenset)): return sorted(v, key=repr)
    if isinstance(v, dict): return {k: canon(x) for k, x in v.items()}
    if isinstance(v, tuple): return list(v)
    return v


def json_key(op):
    import json
    return json.dumps(op, sort_keys=True, default=repr)


def install():
    Engine.step = step
    Engine._modify = _modify
    from vlib import hreads
    Engine._read = hreads._read
    Engine._sel = hreads._sel
    Engine.strategy = 'default'
    Engine._tx = _tx
    Engine._pony_kwargs = _pony_kwargs
    Engine._arg_obj = _arg_obj
    Engine._reset_after_rollback = _reset_after_rollback
    Engine._fk_cycle = _fk_cycle
    Engine._note_seed_reassign = _note_seed_reassign
    Engine._sync_dbstate = _sync_dbstate
    Engine.unflushed = set()
    Engine.last_model = {}
    Engine.pending_taint_stop = False
    Engine.failed_call_ctx = None
    Engine.tainted_ctx = None
    Engine.mod_then_del = set()
    Engine.dbstate = None
    Engine._learn_auto_pks = _learn_auto_pks
    Engine._judge_read = _judge_read
    Engine._obs = _obs
    Engine._pk_public = _pk_public
    Engine.default_session_opts = {}
    Engine.pending_dups = False
    Engine.last_exc = None
    Engine.graveyard = {}
    Engine.tainted = None
    Engine.stop_on_taint = True
    Engine.errlog = None


install()


# ---------------------------------------------------------------------------
# generation
INTS = [0, 1, 2, 3, 5, -1, 7]
STRS = ['a', 'b', 'c', 'ab', "q'%_", 'A']
PKINTS = [1, 2, 3, 4, 5, 6]
PKSTRS = ['k1', 'k2', 'k3', 'k4']

DEFAULT_WEIGHTS = {
    'create': 8, 'set': 12, 'setmany': 4, 'add': 10, 'remove': 8, 'assign': 3, 'clear': 2, 'delete': 5,
    'flush': 6, 'commit': 3, 'rollback': 1, 'end': 3, 'abort': 1,
    'read': 8, 'coll': 12, 'bypk': 4, 'bykey': 4, 'selectall': 2, 'selectcmp': 2, 'count': 2, 'todict': 2,
}


class Gen(object):
    def __init__(self, rng, eng, weights=None, invalid_rate=0.15, stale_rate=0.0):
        self.rng, self.eng = rng, eng
        self.w = dict(DEFAULT_WEIGHTS)
        if weights: self.w.update(weights)
        self.invalid_rate = invalid_rate
        self.stale_rate = stale_rate
        self.avoid_conflicts = False
        self.fresh = 0
        self.next_oid =1 + max([0] + list(eng.working.objs) + list(eng.committed.objs))
        self.kinds = [k for k, v in self.w.items() if v > 0]

    def scalar(self, a, for_key=False):
        r = self.rng
        if a.is_pk or for_key:
            dom = PKINTS if a.type == 'int' else PKSTRS
        else:
            dom = (INTS if a.type == 'int' else STRS)
            if a.unique: dom = dom[:4]
        v = r.choice(dom)
        if self.avoid_conflicts and (a.is_pk or a.unique or for_key):
            # conflict-free workloads (C23): take a fresh key value
            self.fresh += 1
            v = 100 + self.fresh if a.type == 'int' else 'u%d' % self.fresh
        if not a.required and not a.is_pk and r.random() < 0.2: v = None
        if a.required and r.random() < self.invalid_rate * 0.3: v = None
        return v

    def live(self, ent=None):
        w = self.eng.working
        if ent is None: return sorted(w.objs)
        return sorted(w.of_entity(ent))

    def pick_target(self, a, allow_none=True):
        c = self.live(a.target)
        r = self.rng
        if allow_none and (not c or r.random() < (0.15 if a.required else 0.3)): return None
        if not c: return None
        return r.choice(c)

    def entity_names(self):
        ex = getattr(self.eng, 'gen_exclude', ())
        return [n for n in sorted(self.eng.rules.ents) if n not in ex]

    def live(self, ent=None):
        w = self.eng.working
        ex = getattr(self.eng, 'gen_exclude', ())
        if ent is None: return sorted(o for o in w.objs if w.objs[o].ent not in ex)
        return sorted(w.of_entity(ent))

    def create_op(self, ent=None):
        r = self.rng; eng = self.eng
        ent = ent or r.choice(self.entity_names())
        er = eng.rules.ents[ent]
        kw = {}
        for n, a in er.attrs.items():
            if a.auto or a.name in getattr(eng, 'gen_exclude_attrs', ()): continue
            if a.kind == 'scalar':
                if a.is_pk or a.required and not a.has_default or r.random() < 0.6:
                    if a.required and not a.is_pk and r.random() < self.invalid_rate * 0.3: continue
                    kw[n] = self.scalar(a)
                    if a.is_pk and kw[n] is None: kw[n] = self.scalar(a, True)
            elif a.kind == 'ref':
                if a.required or a.is_pk or r.random() < 0.5:
                    t = self.pick_target(a, allow_none=not a.is_pk)
                    if t is None and (a.required or a.is_pk) and r.random() > self.invalid_rate:
                        c = self.live(a.target)
                        if not c: return None
                        t = r.choice(c)
                    kw[n] = {'ref': t}
            else:
                if r.random() < 0.25:
                    c = self.live(a.target)
                    if c: kw[n] = {'set': r.sample(c, min(len(c), r.randint(1, 2)))}
        oid = self.next_oid; self.next_oid += 1
        return {'op': 'create', 'oid': oid, 'ent': ent, 'kw': kw}

    def value_for(self, a, oid=None):
        r = self.rng
        if a.kind == 'scalar': return self.scalar(a)
        if a.kind == 'ref':
            t = self.pick_target(a)
            # an object related to ITSELF is a degenerate case left out of scope (DESIGN.md 2.2)
            if t is not None and t == oid: t = None
            if t is not None and self.stale_rate and r.random() < self.stale_rate and t in self.eng.stale:
                return {'ref': {'stale': t}}
            return {'ref': t}
        c = [x for x in self.live(a.target) if x != oid]
        return {'set': r.sample(c, min(len(c), r.randint(0, 3)))}

    def gen(self):
        """next operation given the current model state (None if nothing sensible)."""
        r = self.rng; eng = self.eng; w = eng.working
        if eng.pending_dups and eng.session is not None:
            k = r.choice(['flush', 'commit', 'end', 'flush', 'flush'])
            op = {'op': k}
            if k == 'flush':
                if r.random() < 0.5: op['keep_going'] = True
                if r.random() < 0.4:
                    involved = sorted(set(x for d in w.dups() for x in d[3] if x in eng.unflushed and x in eng.h))
                    if involved: op['oid'] = r.choice(involved)
            return op
        # follow-ups queued by an earlier operation (see below)
        q = getattr(self, 'queue', None)
        while q:
            op = q.pop(0)
            if op.get('oid') is not None and op['oid'] not in w.objs and op['op'] != 'flush': continue
            if eng.session is None and op['op'] in ('flush', 'rollback', 'abort'): continue
            return op
        for _ in range(20):
            kind = r.choices(self.kinds, [self.w[k] for k in self.kinds])[0]
            op = self._gen_kind(kind)
            if op is None: continue
            if op['op'] in READ_OPS: self.last_read = op
            elif op['op'] in MOD_OPS and op.get('oid') is not None and \
                    r.random() < getattr(self.eng, 'followup_rate', getattr(self, 'followup_rate', 0.12)) * (0.4 if op['op'] == 'create' and not any(isinstance(v, dict) and v.get('ref') in self.eng.unflushed for v in op.get('kw', {}).values()) else 1.0):
                # (a new object that refers to other unsaved objects is flushed on its own at the full rate: obj.flush() then
                # has to save its principals first; other new objects mostly stay pending so that such chains can form)
                # patterns that need three cooperating steps: the object just changed is written on its own by
                # obj.flush(), and then either the previous read is repeated (its cached answer must not survive) or
                # the session is rolled back (what obj.flush() wrote must not stay in the database)
                self.queue = [{'op': 'flush', 'oid': op['oid']}]
                lr = getattr(self, 'last_read', None)
                x = r.random()
                if x < 0.55 and lr is not None: self.queue.append(dict(lr))
                elif x < 0.8: self.queue.append({'op': r.choice(['rollback', 'abort'])})
            return op
        return {'op': 'end'}

    def _gen_kind(self, kind):
        r = self.rng; eng = self.eng; w = eng.working
        live = self.live()
        if kind == 'create': return self.create_op()
        if kind in TX_OPS:
            if eng.session is None: return None
            if kind == 'flush' and r.random() < 0.15:
                c = sorted(x for x in eng.unflushed if x in eng.h and x in w.objs)
                if c: return {'op': 'flush', 'oid': r.choice(c)}
            return {'op': kind}
        if kind in ('selectall', 'count'):
            return {'op': kind, 'ent': r.choice(self.entity_names())}
        if kind == 'bypk':
            ent = r.choice(self.entity_names())
            er = eng.rules.ents[ent]
            how = r.choice(['getitem', 'get', 'exists', 'select'])
            c = self.live(er.root)
            if c and r.random() < 0.7: return {'op': 'bypk', 'ent': ent, 'pk_of': r.choice(c), 'how': how}
            if any(er.attrs[n].kind == 'ref' for n in er.pk): return None
            pk = [r.choice(PKINTS if er.attrs[n].type == 'int' else PKSTRS) for n in er.pk]
            return {'op': 'bypk', 'ent': ent, 'pk': pk, 'how': how}
        if kind == 'bykey':
            ent = r.choice(self.entity_names())
            er = eng.rules.ents[ent]
            keys = [k for k in eng.rules.unique_keys(ent)[1:] if all(er.attrs[n].kind == 'scalar' for n in k)]
            sc = [n for n, a in er.attrs.items() if a.kind == 'scalar' and not a.lazy]
            refs = [n for n, a in er.attrs.items() if a.kind == 'ref' and not a.is_pk]
            if refs and r.random() < 0.25:
                # get / exists / select by a reference value; the related object is often new in this session
                n = r.choice(refs)
                c = self.live(er.attrs[n].target)
                if c:
                    new = [x for x in c if x in eng.unflushed]
                    t = r.choice(new) if new and r.random() < 0.6 else r.choice(c)
                    return {'op': 'bykey', 'ent': ent, 'key': {n: {'ref': t}}, 'how': r.choice(['get', 'exists', 'select', 'count'])}
            if keys and r.random() < 0.7: key = r.choice(keys)
            elif sc: key = (r.choice(sc),)
            else: return None
            kv = {}
            c = self.live(ent)
            src = w.objs[r.choice(c)] if c and r.random() < 0.7 else None
            for n in key:
                v = src.vals.get(n) if src is not None else self.scalar(er.attrs[n])
                if v is None: return None
                kv[n] = v
            how = r.choice(['get', 'exists', 'select', 'count'])
            if how == 'get' and tuple(key) not in [tuple(k) for k in keys]: how = 'select'
            return {'op': 'bykey', 'ent': ent, 'key': kv, 'how': how}
        if kind == 'selectcmp':
            ent = r.choice(self.entity_names())
            er = eng.rules.ents[ent]
            sc = [n for n, a in er.attrs.items() if a.kind == 'scalar' and a.type == 'int' and not a.lazy]
            if not sc: return None
            return {'op': 'selectcmp', 'ent': ent, 'attr': r.choice(sc), 'cmp': r.choice(['==', '!=', '<', '>', '<=', '>=']),
                    'val': r.choice(INTS)}
        if not live: return None
        oid = r.choice(live)
        o = w.objs[oid]; er = eng.rules.ents[o.ent]
        if kind == 'delete': return {'op': 'delete', 'oid': oid}
        if kind == 'todict': return {'op': 'todict', 'oid': oid}
        attrs = list(er.attrs.values())
        if kind == 'read':
            a = r.choice(attrs)
            return {'op': 'read', 'oid': oid, 'attr': a.name}
        if kind == 'set':
            cands = [a for a in attrs if not a.auto and a.name not in getattr(eng, 'gen_exclude_attrs', ()) and (not a.is_pk or r.random() < 0.05)]
            if not cands: return None
            a = r.choice(cands)
            return {'op': 'set', 'oid': oid, 'attr': a.name, 'val': self.value_for(a, oid)}
        if kind == 'setmany':
            cands = [a for a in attrs if not a.auto and not a.is_pk and a.name not in getattr(eng, 'gen_exclude_attrs', ())]
            if not cands: return None
            k = r.sample(cands, min(len(cands), r.randint(1, 3)))
            # at most one relationship attribute per set(): interactions between two relationship
            # arguments of one call are not specified anywhere
            # relationship arguments of one set() call must belong to different relationships with different
            # targets (the interplay of two arguments touching the same objects is not specified anywhere)
            rels = []
            for a in k:
                if a.kind == 'scalar': continue
                rv = eng.rules.rev(a)
                if any(a.target == b.target or (rv.owner, rv.name) == (b.owner, b.name) or a.target == o.ent for b in rels): continue
                if a.target == o.ent and rels: continue
                rels.append(a)
            if r.random() < 0.35:
                more = [a for a in attrs if a.kind == 'set' and a not in rels and all(a.target != b.target for b in rels) and a.target != o.ent
                        and a.name not in getattr(eng, 'gen_exclude_attrs', ())]
                if more: rels.append(r.choice(more))
            k = [a for a in k if a.kind == 'scalar'] + rels[:3]
            return {'op': 'setmany', 'oid': oid, 'kw': {a.name: self.value_for(a, oid) for a in k}}
        sets = [a for a in attrs if a.kind == 'set' and (kind == 'coll' or a.name not in getattr(eng, 'gen_exclude_attrs', ()))]
        if not sets: return None
        a = r.choice(sets)
        if kind == 'coll':
            how = r.choice(['iter', 'count', 'len', 'empty', 'bool', 'in', 'in', 'copy', 'select'])
            op = {'op': 'coll', 'oid': oid, 'attr': a.name, 'how': how}
            if how == 'in':
                c = self.live(a.target)
                if not c: return None
                cur = sorted(o.vals[a.name])
                op['item'] = r.choice(cur) if cur and r.random() < 0.5 else r.choice(c)
            return op
        if kind == 'clear': return {'op': 'clear', 'oid': oid, 'attr': a.name}
        c = [x for x in self.live(a.target) if x != oid]
        if not c: return None
        cur = sorted(o.vals[a.name])
        if kind == 'add':
            items = r.sample(c, min(len(c), r.randint(1, 2)))
            if self.stale_rate and r.random() < self.stale_rate:
                st = [i for i in items if i in eng.stale]
                if st: items = [{'stale': st[0]}]
        elif kind == 'remove':
            if cur and r.random() < 0.8: items = r.sample(cur, min(len(cur), r.randint(1, 2)))
            else: items = r.sample(c, 1)
        else: items = r.sample(c, min(len(c), r.randint(0, 3)))
        return {'op': kind, 'oid': oid, 'attr': a.name, 'items': items}


def run_history(eng, ops):
    """execute a fixed op list; returns list of outcomes. Stops at divergence."""
    outs = []
    for op in ops:
        outs.append(eng.step(op))
        if eng.diverged: break
    if eng.session is not None and not eng.diverged:
        outs.append(eng.step({'op': 'end'}))
    return outs


def random_history(eng, rng, n_ops, weights=None, invalid_rate=0.15, stale_rate=0.0, seed_objects=0, avoid_conflicts=False):
    """generate online and execute; returns the op list executed."""
    g = Gen(rng, eng, weights, invalid_rate, stale_rate)
    g.avoid_conflicts = avoid_conflicts
    ops = []
    if seed_objects:
        # population phase: valid creations (plus a few links), committed, so that later operations have material
        g.invalid_rate = 0.0
        for i in range(seed_objects):
            op = g.create_op()
            if op is None: continue
            ops.append(op); eng.step(op)
            if eng.pending_dups:
                ops.append({'op': 'rollback'}); eng.step(ops[-1])
        for i in range(seed_objects // 2):
            op = g._gen_kind(rng.choice(['add', 'add', 'set']))
            if op is None: continue
            ops.append(op); eng.step(op)
            if eng.pending_dups:
                ops.append({'op': 'rollback'}); eng.step(ops[-1])
        ops.append({'op': 'end'}); eng.step(ops[-1])
        g.invalid_rate = invalid_rate
    for i in range(n_ops):
        op = g.gen()
        if op is None: break
        ops.append(op)
        eng.step(op)
        if eng.diverged: break
    if eng.session is not None and not eng.diverged:
        ops.append({'op': 'end'}); eng.step(ops[-1])
    return ops


# ---------------------------------------------------------------------------
# shrinking: greedy removal of operations while the same (monitor, kind) report persists
def replay_ops(spec, ops, workdir, name='replay', stop_on_taint=None, post=None, **engine_kw):
    eng = Engine(spec, workdir, name=name, **engine_kw)
    if stop_on_taint is not None: eng.stop_on_taint = stop_on_taint
    if post is not None:
        post(eng)      # the original engine's configuration (loading strategy, handle mode)
        eng.replay_kw = dict(engine_kw, post=post)
        eng.replay_kw.pop('force_load', None)
    try:
        run_history(eng, ops)
    except Exception as e:
        eng.c('replay_crash.' + type(e).__name__)
    finally:
        eng.close()
    return eng


def shrink(spec, ops, key, workdir, budget=150, mech=None, **engine_kw):
    """key = (monitor, kind) [+ mech: the report's detail['mechanism'] must stay the same].
    Returns a locally minimal op list still producing that report."""
    def bad(cand):
        eng = replay_ops(spec, cand, workdir, name='shrink', **engine_kw)
        return any((r.monitor, r.kind) == key and (mech is None or (isinstance(r.detail, dict) and r.detail.get('mechanism') == mech))
                   for r in eng.reports)
    cur = list(ops)
    if not bad(cur): return cur
    n = 2
    while len(cur) >= 2 and budget > 0:
        chunk = max(1, len(cur) // n)
        removed = False
        i = 0
        while i < len(cur) and budget > 0:
            cand = cur[:i] + cur[i + chunk:]
            budget -= 1
            if cand and bad(cand):
                cur = cand; removed = True
            else:
                i += chunk
        if not removed:
            if chunk == 1: break
            n = min(len(cur), n * 2)
    return cur

"""E3 add-ons shared by the fault checks C17 / C19 / C36.

Nothing here changes vlib.dbapi; everything is layered on top of it:

  HookRecorder      Recorder with an `after_hook(ev)` that runs after an event was
                    logged AND survived fault matching (so a crash/raise planned for
                    that very event happens before the hook) -- used for commit
                    acknowledgements and reference-state capture.
  SeqFault          Fault that remembers at which event it fired.
  AfterFault        Fault armed only after another fault fired (two-fault plans).
  DeadConnFault     a connection that dies at an event and stays dead (every later call on it fails).
  RandomFault       seeded per-event coin flip (multi-thread stress).
  conn_discipline   offline checker over a recorder log: every connection closed at
                    most once, nothing issued on a connection after its close returned.
  Runner            persistent worker thread with a watchdog (state checks need the
                    session's own thread: pony keeps session and pool state thread-local).
"""
import os, sys, json, time, threading, queue, sqlite3

from vlib.dbapi import Recorder, Fault, InjectedFault


class HookRecorder(Recorder):
    def __init__(self):
        Recorder.__init__(self)
        self.after_hook = None
        self.conns = {}               # connection id -> weakref to the live connection object

    def factory(rec):
        """Same connection class as Recorder.factory(), plus a registry id -> connection object, so that monitors can
        look at the real sqlite3 state (e.g. connection.in_transaction) of the connection an event belongs to."""
        import weakref
        Base = Recorder.factory(rec)
        conns = rec.conns
        class VConnRegistered(Base):
            def __init__(self, *a, **kw):
                Base.__init__(self, *a, **kw)
                conns[self._vid] = weakref.ref(self)
        return VConnRegistered

    def connection(self, cid):
        r = self.conns.get(cid)
        return r() if r is not None else None

    def emit(self, kind, phase, conn, sql=None, args=None, err=None):
        ev = Recorder.emit(self, kind, phase, conn, sql, args, err)
        h = self.after_hook
        if h is not None: h(ev)
        return ev


class SeqFault(Fault):
    """A Fault that records the seq of the event it fired at (`fired_seq`) and can be limited to one thread."""
    def __init__(self, n, kinds=None, phase='call', action='raise', sql_pred=None, exc=None, once=True,
                 thread=None, skip_tags=('monitor',)):
        Fault.__init__(self, n, kinds, phase, action, sql_pred, exc, once)
        self.fired_seq = None
        self.fired_event = None
        self.thread = thread
        self.skip_tags = skip_tags

    def match(self, ev):
        if self.thread is not None and ev['thread'] != self.thread: return False
        if ev.get('tag') in self.skip_tags: return False
        if Fault.match(self, ev):
            self.fired_seq = ev['seq']
            self.fired_event = brief(ev)
            return True
        return False


class AfterFault(SeqFault):
    """Counts only events strictly after the event at which `prev` fired."""
    def __init__(self, prev, n, **kw):
        SeqFault.__init__(self, n, **kw)
        self.prev = prev

    def match(self, ev):
        p = self.prev
        if not p.fired or p.fired_seq is None or ev['seq'] <= p.fired_seq: return False
        return SeqFault.match(self, ev)


class DeadConnFault(SeqFault):
    """A connection that dies: from the n-th matching event on, the connection that event belongs to is DEAD -- that
    call and every later boundary call on the same connection object (any thread, any tag, any kind except close() and
    a new connect()) raises, like a lost socket or file handle.  close() still works; new connections are healthy."""
    def __init__(self, n, kinds=None, phase='call', exc=None, skip_tags=('monitor',)):
        SeqFault.__init__(self, n, kinds=kinds, phase=phase, exc=exc, once=True, skip_tags=skip_tags)
        self.dead_conn = None
        self.calls_on_dead = 0

    def match(self, ev):
        if self.dead_conn is not None:
            if ev['conn'] == self.dead_conn and ev['phase'] == 'call' and ev['kind'] not in ('close', 'connect'):
                self.calls_on_dead += 1
                self.fired += 1
                return True
            return False
        if SeqFault.match(self, ev):
            if ev['kind'] == 'connect' and ev['phase'] == 'call':
                return True                      # the connection never came to life; nothing to keep dead
            self.dead_conn = ev['conn']
            return True
        return False


class RandomFault(SeqFault):
    """Fires with probability p at every matching event (at most `limit` times); decisions come from `rng`
    in event order, so a deterministic schedule gives a deterministic fault sequence."""
    def __init__(self, rng, p, phases=('call', 'ret'), kinds=None, limit=3, skip_tags=('monitor',)):
        SeqFault.__init__(self, 0, kinds=kinds, phase=None, once=False, skip_tags=skip_tags)
        self.rng, self.p, self.phases, self.limit = rng, p, phases, limit
        self.fired_at = []

    def match(self, ev):
        if ev['phase'] not in self.phases: return False
        if self.kinds is not None and ev['kind'] not in self.kinds: return False
        if ev.get('tag') in self.skip_tags: return False
        if self.fired >= self.limit: return False
        if self.rng.random() < self.p:
            self.fired += 1
            self.fired_seq = ev['seq']
            self.fired_at.append(brief(ev))
            return True
        return False


DML = ('INSERT', 'UPDATE', 'DELETE', 'REPLACE')


def write_outside_transaction(rec, ev):
    """Boundary invariant: right after a data-modifying statement returned, its connection must be inside a
    transaction (pony binds SQLite with isolation_level=None, so a DML statement outside BEGIN..COMMIT is committed by
    SQLite on the spot).  -> None or a description of the offending event."""
    if ev['phase'] != 'ret' or ev['kind'] not in ('execute', 'executemany'): return None
    sql = ev.get('sql')
    if not isinstance(sql, str) or sql.lstrip().split(' ', 1)[0].upper() not in DML: return None
    con = rec.connection(ev['conn'])
    if con is None: return None
    try: in_txn = con.in_transaction
    except Exception: return None
    if in_txn: return None
    return {'seq': ev['seq'], 'conn': ev['conn'], 'sql': sql[:80], 'tag': ev.get('tag')}


def brief(ev):
    sql = ev.get('sql')
    return {'seq': ev['seq'], 'kind': ev['kind'], 'phase': ev['phase'], 'conn': ev['conn'],
            'sql': sql[:60] if isinstance(sql, str) else None, 'pid': ev['pid'], 'thread': ev['thread'],
            'injected': bool(ev.get('injected'))}


def calls(events, since=0):
    return [e for e in events if e['seq'] > since and e['phase'] == 'call']


def conn_discipline(events):
    """Return (problems, stats) for a recorder log.

    problems: second close of a connection whose close already returned; any boundary call on a
    connection after its close returned.  A close whose 'call' event carried an injected fault never
    reached sqlite3 and does not count as a close; a close whose 'ret' event carried the injected fault
    did happen."""
    closed = {}
    problems = []
    stats = {'closes': 0, 'connects': 0, 'conns': set(), 'close_fault': set(), 'connect_fault': set()}
    for e in events:
        c = e['conn']
        stats['conns'].add(c)
        k, ph = e['kind'], e['phase']
        if ph == 'call':
            if c in closed and k != 'connect':
                problems.append({'problem': 'second_close' if k == 'close' else 'use_after_close',
                                 'conn': c, 'event': brief(e), 'closed_at_seq': closed[c]})
            if e.get('injected'):
                if k == 'close': stats['close_fault'].add(c)
                if k == 'connect': stats['connect_fault'].add(c)
        elif ph == 'ret':
            if k == 'close':
                closed.setdefault(c, e['seq']); stats['closes'] += 1
            elif k == 'connect':
                stats['connects'] += 1
                if e.get('injected'): stats['connect_fault'].add(c)
        elif ph == 'exc':
            if k == 'connect': stats['connect_fault'].add(c)
            if k == 'close': stats['close_fault'].add(c)
    stats['closed'] = set(closed)
    return problems, stats


class Runner(object):
    """Run callables in one persistent daemon thread; `call` waits with a watchdog.
    After a watchdog firing the thread is abandoned (it may be blocked for ever) and a new one is started."""
    def __init__(self, name='case-runner'):
        self.name = name
        self.n = 0
        self._start()

    def _start(self):
        self.n += 1
        self.q = queue.Queue()
        self.thread = threading.Thread(target=self._loop, args=(self.q,), name='%s-%d' % (self.name, self.n),
                                       daemon=True)
        self.thread.start()

    @staticmethod
    def _loop(q):
        while True:
            item = q.get()
            if item is None: return
            fn, box, done = item
            try: box['result'] = fn()
            except BaseException as e:
                box['exc'] = e
            done.set()

    def call(self, fn, timeout, progress=None, grace=2.0, cap=90.0):
        """-> ('ok', result) | ('exc', exception) | ('hang', {'progressing': bool})

        After `timeout` without a result the worker is only declared hung if `progress()` (e.g. the number of
        recorded events) does not change during `grace` seconds; while it keeps changing the call waits on, up to
        `cap` seconds in total (then 'hang' with progressing=True: slow, not blocked)."""
        box, done = {}, threading.Event()
        self.q.put((fn, box, done))
        t0 = time.time()
        finished = done.wait(timeout)
        progressing = False
        while not finished:
            p0 = progress() if progress is not None else None
            finished = done.wait(grace)
            if finished: break
            p1 = progress() if progress is not None else None
            progressing = progress is not None and p1 != p0
            if not progressing or time.time() - t0 > cap: break
        if not finished:
            self._start()
            return 'hang', {'progressing': progressing}
        if 'exc' in box: return 'exc', box['exc']
        return 'ok', box.get('result')

    def stop(self):
        self.q.put(None)


def run_in_thread(fn, timeout, progress=None, grace=2.0, cap=90.0):
    """Run fn() in a fresh thread.  -> ('ok', result) | ('exc', e) | ('hang', {'progressing': bool}); see Runner.call."""
    box = {}
    def body():
        try: box['result'] = fn()
        except BaseException as e: box['exc'] = e
    t = threading.Thread(target=body, daemon=True)
    t0 = time.time()
    t.start(); t.join(timeout)
    progressing = False
    while t.is_alive():
        p0 = progress() if progress is not None else None
        t.join(grace)
        if not t.is_alive(): break
        p1 = progress() if progress is not None else None
        progressing = progress is not None and p1 != p0
        if not progressing or time.time() - t0 > cap: break
    if t.is_alive(): return 'hang', {'progressing': progressing}
    if 'exc' in box: return 'exc', box['exc']
    return 'ok', box.get('result')


def raw_write_probe(filename, timeout=0.25):
    """Can a plain sqlite3 connection take the write lock right now?  -> None or the error text."""
    con = sqlite3.connect(filename, timeout=timeout, isolation_level=None)
    try:
        con.execute('BEGIN IMMEDIATE')
        con.execute('ROLLBACK')
        return None
    except sqlite3.OperationalError as e:
        return str(e)
    finally:
        con.close()

"""Comparison of two executions of the same operation list (C23): outcomes and observation traces, with the two
things that legitimately depend on WHEN pony flushes left out:
  * an automatically assigned primary key is None until the first flush, and a loading strategy that needs no query
    (everything preloaded) does not flush where another one does: a None-vs-value difference of a primary key
    attribute, and a lookup skipped because the key is still unknown, are not differences of the data;
Everything else must be identical."""
import json

WILD = '<auto-pk-timing>'


def pk_names(spec):
    names = set()
    for e in spec['entities']:
        pk = e.get('pk')
        if isinstance(pk, (list, tuple)): names.update(pk)
        else: names.add('id')
    return names


def auto_entities(spec):
    """entities whose primary key is assigned by the database (and their subclasses)"""
    auto = {e['name'] for e in spec['entities'] if e.get('pk') == 'auto'}
    changed = True
    while changed:
        changed = False
        for e in spec['entities']:
            if e.get('base') in auto and e['name'] not in auto: auto.add(e['name']); changed = True
    return auto


def _norm_value(op, a, b, pks, auto_pk_attr=False):
    """(a, b) with auto-pk timing differences replaced by WILD on both sides"""
    if op.get('op') == 'read' and op.get('attr') in pks and ((a is None) != (b is None) or auto_pk_attr): return WILD, WILD
    if op.get('op') == 'todict' and isinstance(a, dict) and isinstance(b, dict):
        a, b = dict(a), dict(b)
        for k in set(a) | set(b):
            if (a.get(k) is None) != (b.get(k) is None) and (k in pks or True):
                # a pk, or a reference / collection item shown by the pk of an unflushed object
                if k in pks or _mentions_none(a.get(k)) or _mentions_none(b.get(k)): a[k] = b[k] = WILD
        return a, b
    return a, b


def _mentions_none(v):
    if v is None: return True
    if isinstance(v, (list, tuple, set)): return any(_mentions_none(x) for x in v)
    return False


def difference(spec, outs_a, trace_a, outs_b, trace_b, step0=0):
    """None, or a dict describing the first difference. trace entries: (step_no, op_json, value); the i-th outcome belongs
    to step_no step0 + i + 1 (the engine's step counter before the run was step0)"""
    pks = pk_names(spec)
    auto = auto_entities(spec)
    wild_steps = set()
    # a loud isolation error (spurious UnrepeatableReadError / OptimisticCheckError; the session is abandoned) on one
    # side only is not a difference of the data - loud is not wrong - but nothing after it is comparable
    LOST = ('raised_session_lost', 'skipped_obtain_raised')
    for i in range(min(len(outs_a), len(outs_b))):
        if outs_a[i] != outs_b[i] and (outs_a[i] in LOST or outs_b[i] in LOST):
            outs_a, outs_b = outs_a[:i], outs_b[:i]
            trace_a = [e for e in trace_a if e[0] - step0 - 1 < i]; trace_b = [e for e in trace_b if e[0] - step0 - 1 < i]
            break
    n = min(len(outs_a), len(outs_b))
    for i in range(n):
        if 'skipped_unknown_pk' in (outs_a[i], outs_b[i]) and outs_a[i] != outs_b[i]: wild_steps.add(i)
        # with database-assigned keys the VALUE of a key depends on the order of the INSERTs, i.e. on when each run
        # flushed: an object that cannot be looked up yet on one side only, and lookups by a literal key value of such
        # an entity, are not comparable
        elif auto and outs_a[i] != outs_b[i] and (outs_a[i].startswith('skipped') or outs_b[i].startswith('skipped')): wild_steps.add(i)
    if auto:
        for e in list(trace_a) + list(trace_b):
            try: op = json.loads(e[1])
            except Exception: continue
            if op.get('ent') in auto and (('pk' in op and op.get('op') == 'bypk') or (op.get('op') == 'bykey' and set(op.get('key') or ()) & pks)):
                wild_steps.add(e[0] - step0 - 1)
    for i in range(n):
        if i in wild_steps: continue
        if outs_a[i] != outs_b[i]:
            return {'kind': 'outcome_differs', 'step': i, 'default': outs_a[i], 'alternative': outs_b[i]}
    if len(outs_a) != len(outs_b):
        return {'kind': 'outcome_count_differs', 'default': len(outs_a), 'alternative': len(outs_b)}
    def by_step(trace):
        d = {}
        for e in trace: d.setdefault(e[0], []).append(e)
        return d
    da, db = by_step(trace_a), by_step(trace_b)
    for st in sorted(set(da) | set(db)):
        la, lb = da.get(st, []), db.get(st, [])
        if (st - step0 - 1) in wild_steps: continue
        if len(la) != len(lb):
            if (st - step0 - 1) in wild_steps: continue      # the lookup was skipped on one side only
            return {'kind': 'observation_count_differs', 'step_no': st, 'default': la[:2], 'alternative': lb[:2]}
        for x, y in zip(la, lb):
            if x[1] != y[1]:
                return {'kind': 'observation_differs', 'step_no': st, 'default': list(x), 'alternative': list(y)}
            try: op = json.loads(x[1])
            except Exception: op = {}
            va, vb = _norm_value(op, x[2], y[2], pks, auto_pk_attr=bool(auto))
            if va != vb:
                return {'kind': 'observation_differs', 'step_no': st, 'default': list(x), 'alternative': list(y)}
    return None


def comparable_to_end(outs_a, outs_b):
    """False when one run lost its session to a loud isolation error where the other did not: the final database
    states are then not comparable either"""
    LOST = ('raised_session_lost', 'skipped_obtain_raised')
    for x, y in zip(outs_a, outs_b):
        if x != y and (x in LOST or y in LOST): return False
    return True

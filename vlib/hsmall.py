"""E2 part 7 — small-scope exhaustive mode.

For a fixed template with a small committed population, ALL operation sequences up to length L over a
focused alphabet are executed, each in a fresh session (objects not loaded, collections not loaded), and
judged by the same monitors as the random histories.  Two kinds of focus:

  relationship focus: every modification of one relationship from both sides for two objects per side
                      (add / remove / assign / clear / set reference), flush, and every read kind of the
                      collections / references involved (count, len, is_empty, in, iter, attribute read)
  key focus:          assignments and set() calls moving unique / composite key values between two objects,
                      flush, and lookups by those keys (get / exists / select / count)

A sequence runs in one session and ends with commit (so the commit observer judges it) ; the database and
the model are then restored to the baseline by raw SQL.
"""
import itertools, sqlite3, random

from vlib import hist, hops, hschema


def populate(eng, rng, per_entity=3):
    """deterministic valid population with some links, committed; returns the operations executed, so that a
    witness (population + sequence) can be replayed from an empty database"""
    g = hops.Gen(rng, eng, invalid_rate=0.0)
    g.avoid_conflicts = True
    ents = [e['name'] for e in eng.spec['entities']]
    done = []
    def do(op):
        done.append(op)
        return eng.step(op)
    for rnd in range(per_entity):
        for en in ents:
            for _ in range(4):
                op = g.create_op(en)
                if op is None: continue
                out = do(op)
                if out == 'applied': break
    for i in range(per_entity * len(ents)):
        op = g._gen_kind(rng.choice(['add', 'set', 'add']))
        if op is not None: do(op)
        if eng.pending_dups: do({'op': 'rollback'})
    do({'op': 'end'})
    return done


def dump_sql(path):
    con = sqlite3.connect(path)
    try:
        tables = [r[0] for r in con.execute("select name from sqlite_master where type='table' and name not like 'sqlite_%'")]
        rows = {}
        for t in tables:
            cur = con.execute('select * from "%s"' % t)
            cols = [d[0] for d in cur.description]
            rows[t] = (cols, cur.fetchall())
        return rows
    finally:
        con.close()


def norm_rows(rows):
    """row order of a table is not data"""
    return {t: (cols, sorted(data, key=repr)) for t, (cols, data) in rows.items()}


def restore_sql(path, rows):
    con = sqlite3.connect(path)
    try:
        con.execute('PRAGMA foreign_keys = OFF')
        for t in rows: con.execute('delete from "%s"' % t)
        for t, (cols, data) in rows.items():
            if data:
                con.executemany('insert into "%s" (%s) values (%s)' % (t, ', '.join('"%s"' % c for c in cols), ', '.join('?' * len(cols))), data)
        con.commit()
    finally:
        con.close()


def rel_alphabet(eng, ent, attr, cap=16, scalars=False):
    """operations touching relationship ent.attr (and its reverse) for up to two objects per side"""
    rules = eng.rules
    a = rules.ents[ent].attrs[attr]
    r = rules.rev(a)
    st = eng.committed
    A = sorted(st.of_entity(ent))[:2]
    B = sorted(st.of_entity(a.target))[:2]
    # prefer a primary object that already has a link, so that removals are meaningful
    # the object with the most links first: a partially loaded collection needs a second item to be wrong about
    linked = sorted([o for o in sorted(st.of_entity(ent)) if st.objs[o].vals.get(attr)],
                    key=lambda o: -(len(st.objs[o].vals[attr]) if isinstance(st.objs[o].vals[attr], set) else 1))
    if linked and linked[0] not in A[:1]: A = [linked[0]] + [x for x in A if x != linked[0]][:1]
    if linked:
        cur = st.objs[linked[0]].vals.get(attr)
        cur = sorted(cur) if isinstance(cur, set) else [cur]
        B = cur[:2] if len(cur) >= 2 else cur[:1] + [x for x in sorted(st.of_entity(a.target)) if x not in cur[:1]][:1]
    ops = [{'op': 'flush'}]
    # one object written on its own by obj.flush() (the collections of its partners keep their pending bookkeeping)
    for o in dict.fromkeys(A[:1] + B[:1]): ops.append({'op': 'flush', 'oid': o})
    def side(objs, at, others, full=True):
        out = []
        for o in objs[:1]:
            if at.kind == 'set':
                for x in others:
                    if x == o: continue
                    out.append({'op': 'add', 'oid': o, 'attr': at.name, 'items': [x]})
                    out.append({'op': 'remove', 'oid': o, 'attr': at.name, 'items': [x]})
                    out.append({'op': 'coll', 'oid': o, 'attr': at.name, 'how': 'in', 'item': x})
                out.append({'op': 'assign', 'oid': o, 'attr': at.name, 'items': [x for x in others if x != o][:1]})
                out.append({'op': 'clear', 'oid': o, 'attr': at.name})
                for how in ('count', 'len', 'empty', 'iter'):
                    out.append({'op': 'coll', 'oid': o, 'attr': at.name, 'how': how})
            else:
                for i, x in enumerate(others):
                    if x == o: continue
                    out.append({'op': 'set', 'oid': o, 'attr': at.name, 'val': {'ref': x}})
                    # the same assignment through obj.set(**kwargs)
                    if i == 0 and not at.is_pk: out.append({'op': 'setmany', 'oid': o, 'kw': {at.name: {'ref': x}}})
                if not at.required: out.append({'op': 'set', 'oid': o, 'attr': at.name, 'val': {'ref': None}})
                out.append({'op': 'read', 'oid': o, 'attr': at.name})
        return out
    ops += side(A, a, B)
    if (r.owner, r.name) != (a.owner, a.name):
        rs = side(B, r, A)
        # the reverse side contributes its modifications and two reads
        keep = [o for o in rs if o['op'] in hops.MOD_OPS][:4] + [o for o in rs if o['op'] not in hops.MOD_OPS][:2]
        ops += keep
    if scalars:
        for en in dict.fromkeys([ent, a.target]): ops.append({'op': 'selectall', 'ent': en})
        # plain-attribute writes / reads on the first object of each side: together with the relationship reads
        # (which hand out pk-only objects) they reach 'unflushed write on an object whose row is loaded later'
        for o in A[:1] + [b for b in B[:1] if b not in A[:1]]:
            er = rules.ents[st.objs[o].ent]
            keyed = {n for k in rules.unique_keys(st.objs[o].ent) for n in k}
            plain = [n for n, at in er.attrs.items() if at.kind == 'scalar' and not at.is_pk and n not in keyed and not at.auto]
            for i, n in enumerate(plain[:2]):
                if i == 0:
                    v = 'sv%d' % o if er.attrs[n].type == 'str' else 7000 + o
                    ops.append({'op': 'set', 'oid': o, 'attr': n, 'val': v})
                ops.append({'op': 'read', 'oid': o, 'attr': n})
            ops.append({'op': 'todict', 'oid': o})      # reads every attribute: loads the row of a pk-only object
            # one assignment and one read of every OTHER to-one relationship of the object (assignments load the
            # previous value with flushing disabled)
            for n, at in er.attrs.items():
                if at.kind != 'ref' or at.is_pk or (at.owner, n) in ((a.owner, a.name), (r.owner, r.name)): continue
                cur = st.objs[o].vals.get(n)
                cands = [x for x in sorted(st.of_entity(at.target)) if x != cur and x != o]
                if cands: ops.append({'op': 'set', 'oid': o, 'attr': n, 'val': {'ref': cands[0]}})
                ops.append({'op': 'read', 'oid': o, 'attr': n})
    return ops


def key_alphabet(eng, ent, key, cap=16):
    rules = eng.rules
    er = rules.ents[ent]
    st = eng.committed
    objs = sorted(st.of_entity(ent))[:2]
    if len(objs) < 2 or any(er.attrs[n].kind != 'scalar' or er.attrs[n].is_pk for n in key): return []
    vals = [tuple(st.objs[o].vals[n] for n in key) for o in objs]
    fresh = tuple(('zz%d' % i if er.attrs[n].type == 'str' else 900 + i) for i, n in enumerate(key))
    cands = [v for v in vals if None not in v] + [fresh]
    ops = [{'op': 'flush'}]
    for o in objs:
        for v in cands:
            if len(key) == 1: ops.append({'op': 'set', 'oid': o, 'attr': key[0], 'val': v[0]})
            ops.append({'op': 'setmany', 'oid': o, 'kw': dict(zip(key, v))})
    for v in cands:
        for how in ('get', 'exists', 'select'):
            ops.append({'op': 'bykey', 'ent': ent, 'key': dict(zip(key, v)), 'how': how})
    return ops[:cap + 6]


def focuses(eng):
    out = []
    seen = set()
    for en, er in eng.rules.ents.items():
        for n, a in er.attrs.items():
            if a.owner != en or a.kind == 'scalar': continue
            r = eng.rules.rev(a)
            k = frozenset([(a.owner, a.name), (r.owner, r.name)])
            if k in seen: continue
            seen.add(k)
            out.append(('rel', en, n))
        for key in eng.rules.unique_keys(en)[1:]:
            if all(er.attrs[x].owner == en for x in key): out.append(('key', en, tuple(key)))
    return out


def run_sequence(eng, ops):
    """one sequence in one session (the op list ends with commit, end); returns the outcomes"""
    eng.diverged = None
    outs = []
    skipping = False
    for op in ops:
        # as in the random histories: once the session holds a pending duplicate (conflict timing is free: pony may
        # report it now or at the next flush) the program goes straight to flush / commit, it does not pile further
        # operations on top of a session that is bound to fail
        if skipping and op['op'] not in ('flush', 'commit', 'end') : outs.append('skipped_pending_conflict'); continue
        outs.append(eng.step(op))
        if eng.diverged: break
        if getattr(eng, 'pending_dups', False): skipping = True
    if eng.session is not None:
        try: eng.step({'op': 'abort'})
        except Exception: pass
        if eng.session is not None:
            try: eng._exit_session(abort=True)
            except Exception: pass
            eng.session = None
    return outs


def restore_baseline(eng, base_rows, base_model):
    restore_sql(eng.file, base_rows)
    eng.committed = base_model.copy(); eng.working = base_model.copy()
    eng.h = {}; eng.rev = {}; eng.unflushed = set(); eng.pending_dups = False; eng.tainted = None
    del eng.rec.events[:]
    eng.trace = []


def run_small_scope(ctx, cfg):
    """cfg: {'templates': [names], 'length': {'quick': 3, 'thorough': 4}, 'monitors': [...], 'budget': {'quick': n, 'thorough': n}}"""
    from vlib import hfindings
    from vlib.common import fp
    plan = cfg.get('plan', {'quick': [(2, True), (3, False)], 'thorough': [(3, True), (4, False)]})[ctx.tier]
    monitors = set(cfg['monitors'])
    budget = cfg['budget'][ctx.tier]
    workdir = ctx.tmp()
    templates = [t for t in hschema.fixed_templates() if t['name'] in cfg['templates']]
    jobs = []
    for t in templates:
        rng = random.Random('small/%s/%d' % (t['name'], ctx.seed))
        eng = hist.Engine(t, workdir, name='ss_' + t['name'])
        try:
            populate(eng, rng)
            fs = focuses(eng)
        finally:
            eng.close()
        for f in fs: jobs.append((t, f))
    per_job = max(50, budget // max(1, len(jobs)))
    done = 0
    for ji, (t, f) in enumerate(jobs):
        if ji % ctx.nshards != ctx.shard: continue
        rng = random.Random('small/%s/%d' % (t['name'], ctx.seed))
        counts = {}
        eng = hist.Engine(t, workdir, name='ss_' + t['name'], count=counts)
        eng.stop_on_taint = cfg.get('stop_on_taint', True)
        # every second focus: objects are first seen as unloaded references wherever a referring object exists
        svr = 'always' if ji % 2 else False
        eng.seed_via_refs = svr
        eng.replay_kw = {'post': (lambda e, svr=svr: setattr(e, 'seed_via_refs', svr))}
        try:
            pop_ops = populate(eng, rng)
            alphabet = rel_alphabet(eng, f[1], f[2]) if f[0] == 'rel' else key_alphabet(eng, f[1], f[2])
            if len(alphabet) < 3: continue
            base_rows = dump_sql(eng.file)
            base_model = eng.committed.copy()
            def sequences():
                for L, want_all in plan:
                    total = len(alphabet) ** L
                    if want_all or total <= per_job:
                        ctx.count('smallscope.exhaustive_length_%d' % L)
                        for seq in itertools.product(range(len(alphabet)), repeat=L): yield seq
                    else:
                        # deterministic sample of the sequence space when it does not fit the budget
                        ctx.count('smallscope.sampled_length_%d' % L)
                        r2 = random.Random('small-sample/%s/%s/%d/%d' % (t['name'], f, ctx.seed, L))
                        for _ in range(per_job): yield tuple(r2.randrange(len(alphabet)) for _ in range(L))
            ctx.count('smallscope.focuses'); ctx.count('smallscope.alphabet_size', len(alphabet))
            reported = set()
            for seq in sequences():
                ops = [alphabet[i] for i in seq] + [{'op': 'commit'}, {'op': 'end'}]
                n0 = len(eng.reports)
                run_sequence(eng, ops)
                done += 1
                ctx.case(fp([t['name'], f, seq]), nontrivial=any(alphabet[i]['op'] in hops.MOD_OPS for i in seq),
                         sample={'template': t['name'], 'focus': f, 'ops': ops} if done <= 3 else None)
                new = eng.reports[n0:]
                for r in new:
                    if r.monitor not in monitors: continue
                    key = (t['name'], f, r.monitor, r.kind)
                    if key in reported: continue
                    reported.add(key)
                    # population + sequence: replayable from an empty database (classification replays, --replay)
                    full = pop_ops + ops
                    fid = hfindings.classify(ctx.pid, r, eng, full)
                    w = {'spec': t, 'focus': list(map(str, f)), 'ops': full, 'sequence': ops, 'report': r.as_dict(), 'mode': 'small-scope', 'seed_via_refs': svr}
                    if fid: ctx.finding(fid, w)
                    else: ctx.violation(w, mechanism='smallscope.%s.%s' % (r.monitor, r.kind))
                restore_baseline(eng, base_rows, base_model)
        finally:
            eng.close()
        for k, v in counts.items(): ctx.count(k, v)
    ctx.count('smallscope.sequences', done)

"""Mechanism classification of E2 monitor reports into known-finding ids (known_findings.json).
A report is classified only when its mechanism is positively identified - by the failing operation,
the exception and the differing state component, or by a *deviation replay* (the same history re-run
with the suspected trigger removed no longer produces the report) - never by seed, case hash or value."""
from vlib import common


def _replay_has(spec, ops, key, stop_on_taint=None, replayer=None, **kw):
    from vlib import hops
    if replayer is not None:
        # the check owns the way its histories are executed (e.g. C33: entities with lifecycle hooks)
        return any((r.monitor, r.kind) == key for r in replayer(ops, kw.get('force_load')))
    d = common.scratch_dir()
    try:
        eng = hops.replay_ops(spec, ops, d, name='cls', stop_on_taint=stop_on_taint, **kw)
        return any((r.monitor, r.kind) == key for r in eng.reports)
    finally:
        import shutil; shutil.rmtree(d, ignore_errors=True)


_KNOWN = {}
def _open(fid):
    """is fid listed as an OPEN finding?  The rule of a finding that has been fixed is not applied any more: what it
    would have explained must be explained by another open rule or be reported as a violation"""
    if not _KNOWN:
        import json, os
        try:
            for e in json.load(open(os.path.join(common.VERIF, 'known_findings.json')))['findings']: _KNOWN[e['id']] = e.get('status')
        except Exception: _KNOWN['?'] = None
    return _KNOWN.get(fid) == 'open'


def classify(pid, report, eng, ops):
    mon, kind, det = report.monitor, report.kind, report.detail if isinstance(report.detail, dict) else {}
    key = (mon, kind)

    # --- seed (pk-only object) whose many-to-one reference is reassigned, then the OLD parent's collection is
    #     loaded from the database: the load puts the object back into the old parent's collection.
    if mon in ('cachemodel', 'read', 'commit', 'reverse', 'cascade', 'index', 'identity', 'atomic') and \
            _open(pid + '-UNLOADED-SEED-REVERSE-NOT-MAINTAINED'):
        # the session must really have reassigned a not-loaded many-to-one reference or deleted an object it did not
        # have loaded, and the TARGETED deviation replay - the same history in which exactly those objects are loaded
        # right before exactly those operations, nothing else - must not produce the report.  (Loading every handle
        # would make any other defect that needs a pk-only object disappear as well, and hide it behind this id.)
        if (det.get('seed_reassigned') or det.get('seed_deleted')) and \
                not _replay_has(eng.spec, ops, key, stop_on_taint=eng.stop_on_taint, force_load='targeted',
                                replayer=getattr(eng, 'replayer', None), **getattr(eng, 'replay_kw', {})):
            return pid + '-UNLOADED-SEED-REVERSE-NOT-MAINTAINED'

        # an object deleted (directly or by cascade) while the session only had it as a pk-only seed / not loaded
        # at all stays in its parent's partially loaded collection: the report must name exactly such an object
        sd = det.get('seed_deleted') or []
        if sd:
            import json
            text = json.dumps(det.get('diffs') or {k: v for k, v in det.items() if k not in ('seed_deleted', 'seed_reassigned', 'op')}, default=repr)
            if any(name in text for name in sd):
                return pid + '-UNLOADED-SEED-REVERSE-NOT-MAINTAINED'

    # --- a flush that failed midway (loud) had already consumed the pending many-to-many bookkeeping; the program
    #     went on in the same session and a later commit did not write / remove those link rows
    if mon == 'commit' and kind == 'links_differ' and det.get('failed_flush_continued'):
        return pid + '-FAILED-FLUSH-LOSES-PENDING-M2M'

    # --- DELETE of a row that the database still sees referenced by a row the same flush deletes later / re-points
    if mon == 'fkorder' and kind == 'foreign_key_error_on_flush' and det.get('failed_sql', '').startswith('DELETE') \
            and det.get('deleted_row_still_referenced_in_db') and not det.get('deleted_row_had_pending_update') and not det.get('cycle'):
        return pid + '-DELETE-BEFORE-REFERRER-WRITTEN'

    # --- walker / read reports right after a failed call whose failure is the known cascade-cycle mechanism
    fc = det.get('after_failed_call')
    if fc and mon != 'atomic':
        if fc.get('exc') in ('RecursionError', 'OperationWithDeletedObjectError', 'AssertionError') and \
                (fc.get('cascade_cycle') or fc.get('model_expected_refusal') in ('deleted', 'model_gap') or fc.get('exc') == 'RecursionError'):
            return pid + '-CASCADE-CYCLE-FAILS-MIDWAY'

    # --- atomicity mechanisms (C13), identified by failing operation + exception + differing component
    if mon == 'atomic':
        mech = det.get('mechanism', '')
        exc = det.get('exc')
        op = det.get('op', {}).get('op')
        # cascade chains that come back to an object already being deleted (cycle of cascade_delete
        # relationships), or that delete the very object being assigned, fail midway
        if exc in ('RecursionError', 'OperationWithDeletedObjectError', 'AssertionError') and \
                (det.get('cascade_cycle') or det.get('model_expected_refusal') in ('deleted', 'model_gap') or exc == 'RecursionError'):
            return pid + '-CASCADE-CYCLE-FAILS-MIDWAY'
        # a delete that the rules refuse (required dependent without cascade) AFTER it had already cascaded to
        # other objects: rolling the partial cascade back trips an assertion inside pony's undo functions
        if op == 'delete' and exc == 'AssertionError' and det.get('model_expected_refusal') == 'cascade':
            return pid + '-REFUSED-DELETE-UNDO-ASSERTION'
    return None

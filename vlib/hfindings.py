"""Mechanism classification of E2 monitor reports into known-finding ids (known_findings.json).
A report is classified only when its mechanism is positively identified from the failing operation,
the exception and the differing state component - never by seed, case hash or value."""


def classify(pid, report, eng, ops):
    return None

"""E2 part 6 — common driver for the session-history checks (C09-C16 and friends).

run_histories(ctx, cfg) executes `cfg['n'][tier]` generated histories (fixed templates alternating with
random diagrams), collects the reports of the monitors listed in cfg['monitors'] and turns each into
ctx.finding(...) (mechanism positively identified by vlib/hfindings.classify) or ctx.violation(...).
Violating histories are shrunk (greedy op removal re-running the real code) before they are recorded.
"""
import json, random

from vlib import hschema, hist, hops, hfindings
from vlib.common import fp


def specs_for(ctx, i, rng, cfg):
    templates = cfg.get('templates') or hschema.fixed_templates()
    only = cfg.get('only_templates')
    if only: templates = [t for t in templates if t['name'] in only]
    mix = cfg.get('random_spec_share', 0.5)
    if rng.random() < mix: return hschema.random_spec(rng, i)
    return templates[i % len(templates)]


def engine_post(cfg):
    """configuration applied to every engine of a check (and to the engines of its replays): how handles are obtained"""
    svr = cfg.get('seed_via_refs', True)
    def post(eng): eng.seed_via_refs = svr
    return post


def run_histories(ctx, cfg):
    tier = ctx.tier
    n = cfg['n'][tier]
    n_ops = cfg['ops'][tier]
    monitors = set(cfg['monitors'])
    workdir = ctx.tmp()
    shrink_budget = cfg.get('shrink_budget', 600)
    shrunk = {}
    start = ctx.shard * n
    for i in range(start, start + n):
        rng = random.Random('%s/%d/%d' % (ctx.pid, ctx.seed, i))
        spec = specs_for(ctx, i, rng, cfg)
        counts = {}
        eng = hist.Engine(spec, workdir, name='h', count=counts)
        eng.stop_on_taint = cfg.get('stop_on_taint', True)
        eng.default_session_opts = cfg.get('session_opts', {})
        post = engine_post(cfg); post(eng)
        eng.replay_kw = {'post': post}
        ops = []
        try:
            ops = hops.random_history(eng, rng, n_ops, weights=cfg.get('weights'), invalid_rate=cfg.get('invalid_rate', 0.15),
                                      stale_rate=cfg.get('stale_rate', 0.0), seed_objects=cfg.get('seed_objects', 7))
        except Exception as e:
            ctx.count('harness_error.' + type(e).__name__)
            ctx.inconclusive_if(ctx.counters.get('harness_error.' + type(e).__name__, 0) > max(3, n // 50),
                                'harness crashed repeatedly: %s %s' % (type(e).__name__, str(e)[:200]))
        finally:
            eng.close()
        for k, v in counts.items(): ctx.count(k, v)
        applied = counts.get('outcome.applied', 0)
        judged = sum(counts.get(k, 0) for k in cfg.get('deciding_counters', ()))
        ctx.case(fp([spec['name'], ops]), nontrivial=(applied >= 2 and judged > 0),
                 sample={'spec': spec['name'], 'ops': ops[:12], 'n_ops': len(ops)} if i - start < 3 else None)
        if eng.diverged: ctx.count('histories_diverged')
        seen = set()
        for r in eng.reports:
            if r.monitor not in monitors:
                ctx.count('other_monitor_report.%s.%s' % (r.monitor, r.kind)); continue
            key = (r.monitor, r.kind)
            if key in seen: continue
            seen.add(key)
            fid = hfindings.classify(ctx.pid, r, eng, ops)
            witness = {'spec': spec, 'ops': ops, 'report': r.as_dict(), 'history_index': i}
            if len(shrunk) < cfg.get('max_shrinks', 6) and (fid or key) not in shrunk:
                mech = r.detail.get('mechanism') if isinstance(r.detail, dict) else None
                ekw = dict(cfg.get('engine_kw', {}), stop_on_taint=cfg.get('stop_on_taint', True), post=post)
                small = hops.shrink(spec, ops, key, workdir, budget=shrink_budget, mech=mech, **ekw)
                e2 = hops.replay_ops(spec, small, workdir, **ekw)
                rr = [x for x in e2.reports if (x.monitor, x.kind) == key and (mech is None or x.detail.get('mechanism') == mech)]
                if rr:
                    witness = {'spec': spec, 'ops': small, 'report': rr[0].as_dict(), 'history_index': i,
                               'shrunk_from': len(ops), 'errors': e2.errlog[-4:]}
                    fid2 = hfindings.classify(ctx.pid, rr[0], e2, small)
                    # the shrunk witness must tell the same story; otherwise keep the original classification
                    if fid2 == fid: shrunk[fid or key] = True
                    else: witness = {'spec': spec, 'ops': ops, 'report': r.as_dict(), 'history_index': i}
            if fid: ctx.finding(fid, witness)
            else: ctx.violation(witness, mechanism='%s.%s' % key + (':' + r.detail.get('mechanism', '') if isinstance(r.detail, dict) and r.detail.get('mechanism') else ''))


def replay(ctx, witness, cfg):
    workdir = ctx.tmp()
    post = engine_post(dict(cfg, seed_via_refs=witness['seed_via_refs']) if 'seed_via_refs' in witness else cfg)
    eng = hops.replay_ops(witness['spec'], witness['ops'], workdir, stop_on_taint=cfg.get('stop_on_taint', True), post=post)
    monitors = set(cfg['monitors'])
    for r in eng.reports:
        if r.monitor in monitors:
            ctx.violation({'report': r.as_dict()}, mechanism='%s.%s' % (r.monitor, r.kind))
    for e in eng.errlog: print('error during replay:', e)

"""E5 execute mode -- run the SQL of the REAL PostgreSQL / MySQL provider+translator+builder on SQLite (used by C02).

    REDUCED FORM.  No PostgreSQL / MariaDB server exists in this sandbox.  What executes is sqlite3; what is under test
    is the SQL text and the bound arguments the real dialect classes produce, plus pony's result processing on that
    provider.  The shim is a TRUSTED MODEL of the constructs listed below and of nothing else.

Pieces
------
    make_file_env(schema, path)      qdiff.Env twin whose SQLite database lives in a FILE (same declarations, same loader)
    DialectEnv(schema, name, path)   the same entity declarations on a Database bound to dialect `name`
                                     ('postgres' | 'mysql' execute on `path`; 'oracle' | 'cockroach' record only)
                                     -- has .orm/.db/.ns/._fn_cache, so qdiff.run_program(env, program) works on it
    install_factories()              routes <stub>.connect() to ExecConnection when the bind kwargs name an 'exec:' file
    rewrite(dialect, style, sql, args) -> (sqlite_sql, params, constructs)    raises ShimUnsupported / PlaceholderMismatch
    register_udfs(con, dialect, variant=None)       dialect function semantics as SQLite user-defined functions
    STATS[dialect]                   Counter of whitelisted constructs seen / unsupported constructs / sqlite errors

REWRITER WHITELIST (everything else => ShimUnsupported(construct), counted, never guessed)
    placeholders      %(p1)s -> ? (dict args), %s -> ? (tuple args), %% -> %   [the driver's own %-formatting, shimlib.driver_view]
    identifiers       "x" and `x` -> "x"        string literals re-quoted ('' doubling; MySQL backslash escapes decoded)
    casts             (e)::int|text|double precision, f(..)::t, "a"."b"::t, case..end::t -> CAST(e AS INTEGER|TEXT|REAL)
                      CAST(e AS SIGNED|UNSIGNED|CHAR|DOUBLE|integer|text|real) -> CAST(e AS INTEGER|TEXT|REAL)
    trim              MySQL trim(both|leading|trailing x from y) -> mysql_trim('both'|.., x, y)   (UDF, remstr semantics)
    limits            LIMIT 18446744073709551615 -> LIMIT -1 (MySQL only) ; LIMIT null -> LIMIT -1 (PostgreSQL only)
    booleans          true / false literals (native in SQLite >= 3.23)
    aggregates        string_agg([distinct] e, sep) -> UDF aggregate ; GROUP_CONCAT([DISTINCT] e SEPARATOR s) -> (UDF) aggregate ;
                      MySQL GROUP_CONCAT(e1, e2) = per-row concatenation of e1 and e2 (NOT a separator argument)
    row values        (a, b) [NOT] IN ((..), (..)) -> (a, b) [NOT] IN (VALUES (..), (..))
    MySQL ||          logical OR (default sql_mode has no PIPES_AS_CONCAT)
    session stmts     DISCARD ALL, SET ... : no-ops ; version/catalog probes: canned rows of the record-mode shim
    keywords/functions of plain SELECT statements (WORDS below); arithmetic + - * ; comparison operators
    NOT whitelisted on purpose: / and % (integer division differs per dialect), date/interval/json/array syntax, DML.

FUNCTION MODELS (UDFs overriding SQLite built-ins on the shim's own connection only)
    substr/length/greatest/least   the per-dialect models of checks/C25.py (PostgreSQL: window positions, negative length
                                   is an error, greatest/least skip NULL; MySQL: negative pos counts from the end, pos 0 =>
                                   '', LENGTH in bytes, greatest/least NULL if any NULL)
    like (2/3 args)                case-sensitive, default escape character backslash (shimlib.register_string_model)
    concat                         MySQL: NULL if any NULL; PostgreSQL concat(): NULLs ignored
    mysql_trim                     removes repeated occurrences of the whole remstr (not a character set)
    string_agg / group_concat      NULLs skipped, empty => NULL, DISTINCT on the text
    upper/lower/replace/abs/coalesce/nullif/trim(x)/trim(x, chars) [PostgreSQL character-set form]/min/max/sum/avg/count:
                                   native SQLite (identical on the ASCII, integer, NULL domain used)
    Strings compare bytewise (PostgreSQL collation "C", MySQL *_bin collation are ASSUMED); NULL placement of ORDER BY is
    NOT modelled (PostgreSQL sorts NULLs last) -- C02 never orders limited queries by nullable keys.
"""
import re, sqlite3
from collections import Counter

from vlib import shimlib

STATS = {}


def stats(dialect):
    return STATS.setdefault(dialect, Counter())


class ShimUnsupported(Exception):
    """Statement uses a construct outside the whitelist: the case is skipped for this dialect."""
    def __init__(self, construct, sql=None):
        Exception.__init__(self, construct)
        self.construct, self.sql = construct, sql


class ShimSqlError(Exception):
    """sqlite3 refused or failed the rewritten statement (permissive-model limit, never a verdict by itself)."""
    def __init__(self, msg, sql=None, rewritten=None):
        Exception.__init__(self, msg)
        self.msg, self.sql, self.rewritten = msg, sql, rewritten


class PlaceholderMismatch(Exception):
    """Placeholders of the statement and the argument object do not match (count / names / kind)."""


# ----------------------------------------------------------------------------------------------------------------
# rewriter
# ----------------------------------------------------------------------------------------------------------------
KEYWORDS = set("""SELECT DISTINCT FROM WHERE AND OR NOT IN IS NULL AS LIKE ESCAPE BETWEEN CASE WHEN THEN ELSE END EXISTS
    INNER LEFT JOIN ON GROUP BY HAVING ORDER DESC ASC LIMIT OFFSET UNION ALL VALUES TRUE FALSE CAST""".split())
FUNCS = set("""COUNT SUM AVG MIN MAX COALESCE NULLIF ABS UPPER LOWER LENGTH SUBSTR REPLACE TRIM LTRIM RTRIM
    GREATEST LEAST""".split())
DIALECT_WORDS = {
    'postgres': {'STRING_AGG', 'CONCAT'},
    'mysql': {'CONCAT', 'GROUP_CONCAT', 'SEPARATOR'},
}
STYLE = {'postgres': 'pyformat', 'mysql': 'format', 'cockroach': 'pyformat', 'oracle': 'named'}
PG_TYPES = {('INT',): 'INTEGER', ('INTEGER',): 'INTEGER', ('TEXT',): 'TEXT', ('DOUBLE', 'PRECISION'): 'REAL'}
CAST_TYPES = {'SIGNED': 'INTEGER', 'UNSIGNED': 'INTEGER', 'CHAR': 'TEXT', 'DOUBLE': 'REAL', 'INTEGER': 'INTEGER',
              'TEXT': 'TEXT', 'REAL': 'REAL'}
OPS = {'(', ')', ',', '.', '=', '<>', '!=', '<', '>', '<=', '>=', '+', '-', '*', '||'}
SESSION_RE = re.compile(r'^\s*(DISCARD\s+ALL|SET\s)', re.I)
MYSQL_MAX_LIMIT = '18446744073709551615'


def check_placeholders(tokens, style, args):
    """Count / names of placeholders must match the argument object exactly (C06 monitor P1, first part)."""
    phs = [t for t in tokens if t[0] == 'ph']
    if args is None:
        if phs: raise PlaceholderMismatch('placeholders %r but no arguments' % [t[1] for t in phs])
        return 0
    if style in ('qmark', 'format'):
        if not isinstance(args, (tuple, list)): raise PlaceholderMismatch('%s style got %s' % (style, type(args).__name__))
        if len(phs) != len(args): raise PlaceholderMismatch('%d placeholders, %d arguments' % (len(phs), len(args)))
    elif style in ('named', 'pyformat'):
        if not isinstance(args, dict): raise PlaceholderMismatch('%s style got %s' % (style, type(args).__name__))
        names = {t[2] for t in phs}
        if names != set(args):
            raise PlaceholderMismatch('placeholder names %s, argument names %s' % (sorted(names), sorted(args)))
    else:
        raise PlaceholderMismatch('style ' + style)
    return len(phs)


def lex_statement(dialect, style, sql, args):
    try:
        eff = shimlib.driver_view(style, sql, args)
        tokens = shimlib.lex(eff, dialect, style)
    except shimlib.DriverFormatError as e:
        raise PlaceholderMismatch('driver formatting failed: %s' % e)
    except shimlib.LexError as e:
        raise ShimUnsupported('lex:' + str(e)[:40], sql)
    return tokens


def _match_parens(tokens):
    match, stack = {}, []
    for i, t in enumerate(tokens):
        if t[0] == 'op' and t[1] == '(': stack.append(i)
        elif t[0] == 'op' and t[1] == ')':
            if not stack: raise ShimUnsupported('unbalanced-parens')
            j = stack.pop(); match[i] = j; match[j] = i
    if stack: raise ShimUnsupported('unbalanced-parens')
    return match


def _q(s):
    return "'" + s.replace("'", "''") + "'"


def rewrite(dialect, style, sql, args):
    """-> (sqlite_sql, params, constructs Counter).  Raises ShimUnsupported / PlaceholderMismatch."""
    seen = Counter()
    tokens = lex_statement(dialect, style, sql, args)
    check_placeholders(tokens, style, args)
    res = dict(shimlib.resolve(tokens, style, args)) if args is not None else {}
    n = len(tokens)
    match = _match_parens(tokens)
    words = KEYWORDS | FUNCS | DIALECT_WORDS.get(dialect, set())
    pre = [''] * n           # text inserted before token i
    text = [None] * n        # replacement text of token i (None: default rendering, '' : dropped)
    post = [''] * n          # text inserted after token i

    def is_word(i, *vals): return 0 <= i < n and tokens[i][0] == 'word' and tokens[i][2] in vals
    def is_op(i, *vals): return 0 <= i < n and tokens[i][0] == 'op' and tokens[i][1] in vals

    head = tokens[0][2] if tokens and tokens[0][0] == 'word' else '?'
    if head != 'SELECT': raise ShimUnsupported('statement:' + str(head), sql)

    i = 0
    while i < n:
        kind, txt, val = tokens[i]
        if kind == 'word':
            if text[i] is None and val not in words and not (is_word(i - 1, 'AS') and val in CAST_TYPES):
                raise ShimUnsupported('word:' + val, sql)
            # CAST(x AS SIGNED|CHAR|DOUBLE|...)
            if is_word(i - 1, 'AS') and val in CAST_TYPES and text[i] is None:
                text[i] = CAST_TYPES[val]; seen['cast.as_' + val.lower()] += 1
            elif val == 'AS' and not (0 <= i + 1 < n and (tokens[i + 1][0] == 'ident' or
                                                          (tokens[i + 1][0] == 'word' and tokens[i + 1][2] in CAST_TYPES))):
                raise ShimUnsupported('as:' + (tokens[i + 1][1] if i + 1 < n else 'eof'), sql)
            elif val == 'TRIM' and is_op(i + 1, '(') and is_word(i + 2, 'BOTH', 'LEADING', 'TRAILING'):
                if dialect != 'mysql': raise ShimUnsupported('trim-from-syntax', sql)
                close = match[i + 1]
                depth, j, fr = 0, i + 3, None
                while j < close:
                    if is_op(j, '('): depth += 1
                    elif is_op(j, ')'): depth -= 1
                    elif depth == 0 and is_word(j, 'FROM'): fr = j; break
                    j += 1
                if fr is None: raise ShimUnsupported('trim-without-from', sql)
                mode = tokens[i + 2][2].lower()
                text[i] = 'mysql_trim'; text[i + 2] = _q(mode) + ' ,'; text[fr] = ','
                seen['mysql.trim_%s_from' % mode] += 1
            elif val in ('BOTH', 'LEADING', 'TRAILING') and text[i] is None:
                raise ShimUnsupported('word:' + val, sql)
            elif val == 'LIMIT':
                if 0 <= i + 1 < n and tokens[i + 1][0] == 'num' and tokens[i + 1][1] == MYSQL_MAX_LIMIT:
                    if dialect != 'mysql': raise ShimUnsupported('limit-18446744073709551615-outside-mysql', sql)
                    text[i + 1] = '-1'; seen['limit.18446744073709551615'] += 1
                elif is_word(i + 1, 'NULL'):
                    if dialect != 'postgres': raise ShimUnsupported('limit-null-outside-postgres', sql)   # MySQL: syntax error
                    text[i + 1] = '-1'; seen['limit.null'] += 1
                elif not (0 <= i + 1 < n and tokens[i + 1][0] == 'num'):
                    raise ShimUnsupported('limit-form', sql)
                else: seen['limit.number'] += 1
                if is_op(i + 2, ','): raise ShimUnsupported('limit-comma-form', sql)
            elif val == 'OFFSET': seen['offset'] += 1
            elif val in ('TRUE', 'FALSE'): seen['bool_literal'] += 1
            elif val == 'STRING_AGG' and is_op(i + 1, '('):
                if dialect != 'postgres': raise ShimUnsupported('word:STRING_AGG', sql)
                if is_word(i + 2, 'DISTINCT'):
                    text[i] = 'string_agg_distinct'; text[i + 2] = ''; seen['pg.string_agg_distinct'] += 1
                else: seen['pg.string_agg'] += 1
            elif val == 'GROUP_CONCAT' and is_op(i + 1, '('):
                if dialect != 'mysql': raise ShimUnsupported('word:GROUP_CONCAT', sql)
                close = match[i + 1]
                depth, j, sep, commas = 0, i + 2, None, 0
                while j < close:
                    if is_op(j, '('): depth += 1
                    elif is_op(j, ')'): depth -= 1
                    elif depth == 0 and is_op(j, ','): commas += 1
                    elif depth == 0 and is_word(j, 'SEPARATOR'): sep = j; break
                    j += 1
                if commas:
                    # MySQL GROUP_CONCAT(e1, e2): the expressions are concatenated per row (NOT a separator argument)
                    first = i + 3 if is_word(i + 2, 'DISTINCT') else i + 2
                    last = (sep if sep is not None else close) - 1
                    pre[first] = 'concat(' + pre[first]; post[last] = post[last] + ')'
                    seen['mysql.group_concat_multi_expr'] += 1
                if sep is not None:
                    text[sep] = ','
                    if is_word(i + 2, 'DISTINCT'):
                        text[i] = 'group_concat_distinct'; text[i + 2] = ''; seen['mysql.group_concat_distinct_separator'] += 1
                    else: seen['mysql.group_concat_separator'] += 1
                else: seen['mysql.group_concat'] += 1
            elif val == 'SEPARATOR' and text[i] is None:
                raise ShimUnsupported('word:SEPARATOR', sql)
            elif val == 'IN' and is_op(i + 1, '(') and is_op(i + 2, '(') and is_op(i - (2 if is_word(i - 1, 'NOT') else 1), ')'):
                # row value on the left?  (a, b) IN ((..), (..))  -> VALUES form for SQLite
                hi = i - (2 if is_word(i - 1, 'NOT') else 1)
                lo = match[hi]
                depth, commas = 0, 0
                for j in range(lo + 1, hi):
                    if is_op(j, '('): depth += 1
                    elif is_op(j, ')'): depth -= 1
                    elif depth == 0 and is_op(j, ','): commas += 1
                is_call = lo > 0 and tokens[lo - 1][0] == 'word' and tokens[lo - 1][2] in (FUNCS | DIALECT_WORDS.get(dialect, set()))
                if commas and not is_call and not is_word(lo + 1, 'SELECT'):
                    if is_word(i + 3, 'SELECT'): pass
                    else:
                        post[i + 1] = ' VALUES'; seen['row_value_in'] += 1
            elif val in FUNCS or val in DIALECT_WORDS.get(dialect, ()):
                if is_op(i + 1, '('): seen['func.' + val.lower()] += 1
        elif kind == 'op':
            if txt == '::':
                if dialect != 'postgres': raise ShimUnsupported('op:::', sql)
                # type name
                tw = []
                j = i + 1
                while j < n and tokens[j][0] == 'word' and len(tw) < 2 and tuple(tw + [tokens[j][2]]) in \
                        {k[:len(tw) + 1] for k in PG_TYPES}:
                    tw.append(tokens[j][2]); j += 1
                if tuple(tw) not in PG_TYPES: raise ShimUnsupported('cast-type:' + ' '.join(tw or [tokens[i + 1][1] if i + 1 < n else 'eof']), sql)
                target = PG_TYPES[tuple(tw)]
                # operand
                k = i - 1
                if is_op(k, ')'):
                    s = match[k]
                    if s > 0 and tokens[s - 1][0] == 'word' and tokens[s - 1][2] in (FUNCS | DIALECT_WORDS['postgres']): s -= 1
                elif k >= 0 and tokens[k][0] == 'ident':
                    s = k
                    while s >= 2 and is_op(s - 1, '.') and tokens[s - 2][0] == 'ident': s -= 2
                elif k >= 0 and tokens[k][0] in ('ph', 'str', 'num'):
                    s = k
                elif is_word(k, 'END'):
                    depth, s = 0, k
                    while s >= 0:
                        if is_word(s, 'END'): depth += 1
                        elif is_word(s, 'CASE'):
                            depth -= 1
                            if depth == 0: break
                        s -= 1
                    if s < 0: raise ShimUnsupported('cast-operand:case', sql)
                else: raise ShimUnsupported('cast-operand:' + (tokens[k][1] if k >= 0 else 'bof'), sql)
                # a unary minus in front stays OUTSIDE the cast: -(x)::t is -((x)::t) in PostgreSQL (:: binds tighter),
                # and -CAST((x) AS T) is what is emitted
                pre[s] = 'CAST(' + pre[s]
                text[i] = ' AS %s)' % target
                for jj in range(i + 1, j): text[jj] = ''
                seen['pg.cast_' + '_'.join(tw).lower()] += 1
            elif txt == '||':
                if dialect == 'mysql':
                    text[i] = 'OR'; seen['mysql.pipes_as_or'] += 1
                else: seen['concat_operator'] += 1
            elif txt not in OPS:
                raise ShimUnsupported('op:' + txt, sql)
        i += 1

    out, params = [], []
    for i, (kind, txt, val) in enumerate(tokens):
        if pre[i]: out.append(pre[i])
        if text[i] is not None:
            if text[i]: out.append(text[i])
        elif kind == 'str': out.append(_q(val))
        elif kind == 'ident':
            out.append('"%s"' % val.replace('"', '""'))
            if txt[0] == '`': seen['backtick_ident'] += 1
        elif kind == 'ph':
            out.append('?'); params.append(res[i]); seen['placeholder.' + style] += 1
        elif kind == 'num': out.append(txt)
        elif kind == 'word': out.append(val)
        elif kind == 'op': out.append(txt)
        else: raise ShimUnsupported('token:' + kind, sql)
        if post[i]: out.append(post[i])
    if '%%' in sql and style in ('format', 'pyformat') and args is not None: seen['percent_unescape'] += 1
    return ' '.join(out), tuple(params), seen


# ----------------------------------------------------------------------------------------------------------------
# function models
# ----------------------------------------------------------------------------------------------------------------
def mysql_trim(mode, remstr, s):
    """MySQL TRIM([BOTH|LEADING|TRAILING] remstr FROM str): all leading/trailing occurrences of the STRING remstr."""
    if s is None or remstr is None: return None
    s, remstr = str(s), str(remstr)
    if remstr == '': return s
    k = len(remstr)
    if mode in ('both', 'leading'):
        while s.startswith(remstr): s = s[k:]
    if mode in ('both', 'trailing'):
        while s.endswith(remstr): s = s[:-k]
    return s


def charset_trim(mode, chars, s):
    """The character-set reading (python str.strip(chars), SQLite/PostgreSQL trim(s, chars))."""
    if s is None or chars is None: return None
    s, chars = str(s), str(chars)
    if mode == 'both': return s.strip(chars)
    return s.lstrip(chars) if mode == 'leading' else s.rstrip(chars)


def _text(v):
    if isinstance(v, str): return v
    if isinstance(v, float) and v == int(v): return str(v)
    return str(v)


def _make_agg(distinct):
    class Agg(object):
        def __init__(self): self.parts, self.sep = [], ','
        def step(self, v, sep=','):
            if v is None: return
            v = _text(v)
            if distinct and v in self.parts: return
            if sep is not None and not self.parts: self.sep = _text(sep)
            self.parts.append(v)
        def finalize(self):
            return self.sep.join(self.parts) if self.parts else None
    return Agg


def pg_concat(*a):
    return ''.join(_text(x) for x in a if x is not None)


def sqlite_minmax(f):
    def g(*a):
        return None if any(x is None for x in a) else f(a)
    return g


def mysql_substr_intent(s, pos, n=None, _two=False):
    """Variant 'substr_negpos_intent': what pony's generic STRING_SLICE formula MEANS when it hands a negative start to
    substr(): s[start:] for two arguments; with a length n = stop + 1 - start (stop >= 0, so n > -start) or
    n = stop - start (stop < 0, so n < -start) the python slice s[start:stop].  Non-negative positions: MySQL model."""
    from checks import C25
    if s is None or pos is None or (n is None and not _two): return None
    pos = int(pos)
    if pos >= 0: return C25.mysql_substr(s, pos, n, _two)
    s = str(s)
    if _two: return s[pos:]
    n = int(n)
    if n > -pos: return s[pos:n + pos - 1]
    if n < -pos: return s[pos:n + pos]
    return C25.mysql_substr(s, pos, n)


def register_udfs(con, dialect, variant=None):
    """Dialect function semantics on one sqlite3 connection.  `variant` switches ONE model back to the SQLite /
    Python reading (used by the deviation-rule pass to name the mechanism of a disagreement):
       'trim_charset'  mysql_trim removes a character set;  'extremes_null'  greatest/least are NULL if any NULL;
       'length_chars'  MySQL length counts characters;  'substr_negpos_intent'  MySQL substr with a negative position
       computes the python slice the generic STRING_SLICE formula was written for."""
    from checks import C25
    model = {'postgres': 'postgres', 'cockroach': 'postgres', 'mysql': 'mysql'}[dialect]
    variants = set((variant or '').split('+'))          # several switches at once: 'trim_charset+substr_negpos_intent'
    C25.register_model(con, model, C25._length_chars if 'length_chars' in variants else None)
    if 'substr_negpos_intent' in variants and model == 'mysql':
        con.create_function('substr', 2, lambda s, p: mysql_substr_intent(s, p, None, True))
        con.create_function('substr', 3, lambda s, p, n: mysql_substr_intent(s, p, n))
    if 'extremes_null' in variants:
        con.create_function('greatest', -1, sqlite_minmax(max))
        con.create_function('least', -1, sqlite_minmax(min))
    shimlib.register_string_model(con, model)
    if model == 'postgres': con.create_function('concat', -1, pg_concat)
    con.create_function('mysql_trim', 3, charset_trim if 'trim_charset' in variants else mysql_trim)
    con.create_aggregate('string_agg', 2, _make_agg(False))
    con.create_aggregate('string_agg_distinct', 2, _make_agg(True))
    con.create_aggregate('group_concat_distinct', 2, _make_agg(True))


# ----------------------------------------------------------------------------------------------------------------
# executing connection (CONNECTION_FACTORY of the stub modules)
# ----------------------------------------------------------------------------------------------------------------
class ExecCursor(shimlib.RecordCursor):
    def execute(self, sql, args=None):
        conn = self.connection
        entry = conn.log.add(conn.id, 'execute', sql, args)
        conn.last = (sql, args, None)
        self.rows, self.rowcount, self.lastrowid, self.description = [], -1, None, None
        ans = self._answer(sql, args)
        if ans is not None:
            self.rows, self.rowcount = ans, len(ans)
            stats(conn.dialect)['session.canned_probe'] += 1
            return self
        if SESSION_RE.match(sql):
            stats(conn.dialect)['session.noop:' + ' '.join(sql.split()[:2]).upper()] += 1
            return self
        st = stats(conn.dialect)
        try:
            rsql, params, seen = rewrite(conn.dialect, conn.style, sql, args)
        except ShimUnsupported as e:
            st['unsupported:' + e.construct] += 1
            raise
        st.update({'seen:' + k: v for k, v in seen.items()})
        st['statements_executed'] += 1
        conn.last = (sql, args, rsql)
        entry['rewritten'] = rsql
        try:
            cur = conn.sq.execute(rsql, params)
            self.rows = cur.fetchall()
            self.description = cur.description
            cur.close()
        except (sqlite3.Error, OverflowError) as e:
            msg = '%s: %s' % (type(e).__name__, e)
            st['sqlite_error:' + re.sub(r'[\d"\']+', '#', str(e))[:60]] += 1
            raise ShimSqlError(msg, sql, rsql)
        self.rowcount = len(self.rows)
        return self
    def executemany(self, sql, seq_of_args):
        raise ShimUnsupported('executemany', sql)


class ExecConnection(shimlib.RecordConnection):
    cursor_class = ExecCursor
    def __init__(self, log, dialect, path, *args, **kwargs):
        shimlib.RecordConnection.__init__(self, log, *args, **kwargs)
        self.dialect, self.style, self.path = dialect, STYLE[dialect], path
        # a real driver hands back date / Decimal objects for DATE / DECIMAL columns (SQLite stores text / REAL):
        # convert plain column reads by declared type, as psycopg2 / MySQLdb would (expressions are not converted;
        # the neutral domain has no date / Decimal expressions)
        _register_converters()
        self.sq = sqlite3.connect(path, isolation_level=None, detect_types=sqlite3.PARSE_DECLTYPES)
        register_udfs(self.sq, dialect, VARIANT.get(dialect))
        LIVE.setdefault(dialect, []).append(self)
        self.last = None
    def close(self):
        shimlib.RecordConnection.close(self)
        if self in LIVE.get(self.dialect, ()): LIVE[self.dialect].remove(self)
        try: self.sq.close()
        except sqlite3.Error: pass


LIVE = {}        # dialect -> open ExecConnections
VARIANT = {}     # dialect -> model variant currently registered (None = the dialect's documented semantics)


def set_variant(dialect, variant):
    """Switch ONE function model of `dialect` to the SQLite/Python reading (or back with None) on every live
    shim connection and for connections opened later.  Used only by the deviation-rule pass."""
    VARIANT[dialect] = variant
    for c in LIVE.get(dialect, ()): register_udfs(c.sq, dialect, variant)


_CONVERTERS_DONE = []

def _register_converters():
    if _CONVERTERS_DONE: return
    from decimal import Decimal
    from datetime import date
    # only connections opened with detect_types (the shim's own) are affected
    sqlite3.register_converter('DATE', lambda b: date.fromisoformat(b.decode('ascii')))
    sqlite3.register_converter('DECIMAL', lambda b: Decimal(b.decode('ascii')))
    _CONVERTERS_DONE.append(1)


ROUTES = {}      # connection-target prefix -> callable(log, dialect, rest, *args, **kwargs); 'exec' is ExecConnection


def _factory_for(flavor_default):
    def factory(log, *args, **kwargs):
        target = kwargs.get('database') or kwargs.get('db') or ''
        if isinstance(target, str) and target.count(':') >= 2 and target.split(':', 1)[0] in ROUTES:
            prefix, dialect, rest = target.split(':', 2)
            return ROUTES[prefix](log, dialect, rest, *args, **kwargs)
        return shimlib.RecordConnection(log, *args, **kwargs)
    return factory


ROUTES['exec'] = ExecConnection


def install_factories():
    for name in ('postgres', 'mysql'):
        mod = shimlib.stub_module(name)
        mod.CONNECTION_FACTORY = _factory_for(name)


# ----------------------------------------------------------------------------------------------------------------
# environments
# ----------------------------------------------------------------------------------------------------------------
def _namespace(orm, db):
    from decimal import Decimal
    from datetime import date, timedelta
    ns = {'db': db, 'Decimal': Decimal, 'date': date, 'timedelta': timedelta}
    for n in ('PrimaryKey', 'Required', 'Optional', 'Set', 'select', 'count', 'sum', 'min', 'max', 'avg',
              'group_concat', 'distinct', 'exists', 'coalesce', 'concat', 'between', 'desc', 'JOIN', 'raw_sql',
              'db_session', 'left_join', 'delete', 'get'):
        ns[n] = getattr(orm, n)
    return ns


def make_file_env(schema, path):
    """qdiff.Env whose SQLite database is the file `path` (Env.__init__ binds ':memory:'; everything else is reused)."""
    from vlib import qdiff
    import pony.orm as orm

    class FileEnv(qdiff.Env):
        def __init__(self, schema, path):
            self.schema, self.orm = schema, orm
            self.db = db = orm.Database()
            ns = _namespace(orm, db)
            exec(compile(schema.pony_source(), '<xdialect schema %s sqlite>' % schema.name, 'exec'), ns)
            ns['_G'] = ns
            self.ns = ns
            db.bind('sqlite', path, create_db=True)
            db.generate_mapping(create_tables=True)
            self.mirror = self.data = self.data_id = None
            self._fn_cache = {}
            self.name = 'sqlite'
    return FileEnv(schema, path)


class DialectEnv(object):
    """The same declarations on a Database bound to another dialect through the stub drivers."""
    EXECUTING = ('postgres', 'mysql')
    def __init__(self, schema, name, path):
        import pony.orm as orm
        self.schema, self.orm, self.name = schema, orm, name
        self.db = db = orm.Database()
        ns = _namespace(orm, db)
        exec(compile(schema.pony_source(), '<xdialect schema %s %s>' % (schema.name, name), 'exec'), ns)
        ns['_G'] = ns
        self.ns = ns
        extra = {}
        if name in self.EXECUTING:
            extra = {'database' if name == 'postgres' else 'db': 'exec:%s:%s' % (name, path)}
        pname, _, args, kwargs = shimlib.PROVIDERS[name]
        mod = shimlib.stub_module(name)
        kw = dict(kwargs); kw.update(extra)
        db.bind(pname, *args, **kw)
        self.log = mod.LOG
        db.generate_mapping(create_tables=False, check_tables=False)
        self._fn_cache = {}
        self.style = STYLE[name]
        self.executing = name in self.EXECUTING
        self.mirror = self.data = self.data_id = None
    def entity(self, n): return self.ns[n]


def name_mismatches(sqlite_env, denv):
    """Table / column names of the dialect mapping that do not exist (case-insensitively) in the SQLite file."""
    bad = []
    def names(db):
        out = {}
        for t in db.schema.tables.values():
            tn = t.name if isinstance(t.name, str) else t.name[-1]
            out[tn.lower()] = {c.name.lower() for c in t.column_list}
        return out
    a, b = names(sqlite_env.db), names(denv.db)
    for t, cols in b.items():
        if t not in a: bad.append('table %s' % t)
        elif cols != a[t]: bad.append('columns of %s: %s vs %s' % (t, sorted(cols), sorted(a[t])))
    for t in a:
        if t not in b: bad.append('table %s missing in %s' % (t, denv.name))
    return bad

"""E6 — expression generator and tracer values (used by C03 and C04).

Tracer values
-------------
A `V` is an object with a *chosen truthiness* whose operators build a symbolic
term.  Evaluating an expression over V leaves yields a term that records the
operator structure and every short-circuit choice (`a and b` returns the operand
object itself), so "same value" == "same term".  Truthiness of a leaf comes from
the environment (the truth assignment under test); truthiness of a derived term
is a salted hash bit of the term, so equal terms are equally truthy and the bit
changes from environment to environment.  `key(x)` maps any result (V, constants,
containers, slices, generators, functions) to a hashable structural key.

Generator
---------
* `enum_shapes(n, ops)` — every operator tree with exactly n nodes over `ops`
  (bounded-exhaustive part); `instantiate(shape, names)` assigns the names to the
  leaves from left to right (cyclically) and returns Python source.
* `rand_expr(rng, n, opts)` — a random expression of about n nodes over the full
  grammar of C03/C04 (boolean operators, not, conditional expressions, comparisons
  and chains, all arithmetic/bit operators, unary operators, power, attribute
  chains, calls with positional/keyword/star arguments, subscripts, slices,
  tuples/lists/dicts/sets, constants, f-strings with conversions, format specs and
  literal braces, lambdas, nested generators).
Everything is deterministic given the `random.Random` passed in.
"""
import ast, hashlib, itertools, types

NAMES = ('a', 'b', 'c', 'd')

# --------------------------------------------------------------------------
# tracer values
# --------------------------------------------------------------------------

_SALT = [0]


def set_salt(s):
    _SALT[0] = s


def _truth(term):
    h = hashlib.blake2b(repr((_SALT[0], term)).encode('utf-8', 'backslashreplace'), digest_size=1).digest()
    return bool(h[0] & 1)


class V(object):
    """Tracer value: `t` is the symbolic term, truthiness chosen (leaf) or hashed (derived)."""
    __slots__ = ('t', '_b')

    def __init__(self, t, b=None):
        self.t = t
        self._b = b

    def __bool__(self):
        b = self._b
        if b is None:
            b = self._b = _truth(self.t)
        return b

    def __hash__(self):          # by term, so set/dict iteration order is the same for equal evaluations
        return hash(self.t)

    def __getattr__(self, name):
        if name.startswith('__'):
            raise AttributeError(name)
        return V(('.', self.t, name))

    def __call__(self, *args, **kw):
        return V(('call', self.t, tuple(key(x) for x in args),
                  tuple(sorted((k, key(v)) for k, v in kw.items()))))

    def __getitem__(self, i):
        return V(('[]', self.t, key(i)))

    def __iter__(self):
        yield V(('it', self.t, 0))
        yield V(('it', self.t, 1))

    def __contains__(self, item):
        return _truth(('in', key(item), self.t))

    def __neg__(self): return V(('u-', self.t))
    def __pos__(self): return V(('u+', self.t))
    def __invert__(self): return V(('u~', self.t))

    def __format__(self, spec): return 'F<%r|%s>' % (self.t, spec)
    def __repr__(self): return 'R<%r>' % (self.t,)
    def __str__(self): return 'S<%r>' % (self.t,)


def _install_ops():
    binops = {'add': '+', 'sub': '-', 'mul': '*', 'truediv': '/', 'floordiv': '//', 'mod': '%', 'pow': '**',
              'lshift': '<<', 'rshift': '>>', 'and': '&', 'or': '|', 'xor': '^', 'matmul': '@'}
    for name, sym in binops.items():
        def f(self, o, _s=sym): return V((_s, self.t, key(o)))
        def r(self, o, _s=sym): return V((_s, key(o), self.t))
        setattr(V, '__%s__' % name, f)
        setattr(V, '__r%s__' % name, r)
    for name, sym in {'eq': '==', 'ne': '!=', 'lt': '<', 'le': '<=', 'gt': '>', 'ge': '>='}.items():
        def c(self, o, _s=sym): return V((_s, self.t, key(o)))
        setattr(V, '__%s__' % name, c)


_install_ops()


def leaf(name, truth):
    return V(('n', name), bool(truth))


def key(x, depth=0):
    """Hashable structural key of an evaluation result."""
    if type(x) is V: return x.t
    if x is None or x is Ellipsis: return ('k', repr(x))
    tx = type(x)
    if tx is complex:       # ast.unparse writes (-0-2j) for -2j, which re-reads with +0.0 real part
        return ('k', 'complex', repr(complex(x.real + 0.0, x.imag + 0.0)))
    if tx in (bool, int, float, str, bytes):
        return ('k', tx.__name__, repr(x))
    if depth > 12: return ('deep',)
    if tx in (tuple, list):
        return (tx.__name__,) + tuple(key(i, depth + 1) for i in x)
    if tx is dict:
        return ('dict',) + tuple((key(k, depth + 1), key(v, depth + 1)) for k, v in x.items())
    if tx in (set, frozenset):
        return (tx.__name__,) + tuple(sorted((key(i, depth + 1) for i in x), key=repr))
    if tx is slice:
        return ('slice', key(x.start, depth + 1), key(x.stop, depth + 1), key(x.step, depth + 1))
    if tx is types.GeneratorType:
        out = ['gen']
        try:
            for i in itertools.islice(x, 24): out.append(key(i, depth + 1))
        except RecursionError: raise
        except Exception as e: out.append(('EXC', type(e).__name__))
        return tuple(out)
    if tx is types.FunctionType:
        co = x.__code__
        args = [V(('arg', i), True) for i in range(co.co_argcount)]
        kw = {n: V(('kwarg', n), True)
              for n in co.co_varnames[co.co_argcount:co.co_argcount + co.co_kwonlyargcount]}
        try: r = key(x(*args, **kw), depth + 1)
        except RecursionError: raise
        except Exception as e: r = ('EXC', type(e).__name__)
        return ('fn', co.co_argcount, tuple(sorted(kw)), bool(co.co_flags & 4), bool(co.co_flags & 8), r)
    return ('obj', tx.__name__)


def run(thunk):
    """Evaluate thunk() under the current salt/environment; exceptions become part of the value."""
    try:
        return key(thunk())
    except RecursionError:
        raise
    except Exception as e:
        return ('EXC', type(e).__name__)


def truthkey(thunk):
    try:
        return bool(thunk())
    except RecursionError:
        raise
    except Exception as e:
        return ('EXC', type(e).__name__)


def assignments(names, rng=None, cap=16):
    """Truth assignments of `names`: all 2^k if that is <= cap, else all-true, all-false and cap-2 random."""
    names = list(names)
    k = len(names)
    if 2 ** k <= cap:
        for bits in itertools.product((True, False), repeat=k):
            yield dict(zip(names, bits))
        return
    yield dict.fromkeys(names, True)
    yield dict.fromkeys(names, False)
    import random
    rng = rng or random.Random(k)
    for _ in range(cap - 2):
        yield {n: rng.random() < 0.5 for n in names}


def make_env(assign):
    return {n: leaf(n, t) for n, t in assign.items()}


# --------------------------------------------------------------------------
# AST helpers shared by the checks
# --------------------------------------------------------------------------

def parse_expr(src):
    return ast.parse(src, mode='eval').body


def loaded_names(node):
    return {n.id for n in ast.walk(node) if isinstance(n, ast.Name) and isinstance(n.ctx, ast.Load)}


def stored_names(node):
    out = {n.id for n in ast.walk(node) if isinstance(n, ast.Name) and isinstance(n.ctx, ast.Store)}
    for n in ast.walk(node):
        if isinstance(n, ast.arg): out.add(n.arg)
    return out


def free_names(node, pool=None):
    """Names loaded somewhere in `node` and never bound inside it (generator targets, lambda
    parameters).  The generator uses disjoint name sets for bound and free names, so this is exact
    for generated expressions."""
    r = loaded_names(node) - stored_names(node)
    if pool is not None: r &= set(pool)
    return sorted(r)


def parent_map(tree):
    pm = {}
    for p in ast.walk(tree):
        for fname, value in ast.iter_fields(p):
            if isinstance(value, ast.AST): pm[value] = (p, fname)
            elif isinstance(value, list):
                for v in value:
                    if isinstance(v, ast.AST): pm[v] = (p, fname)
    return pm


def count_nodes(node):
    return sum(1 for n in ast.walk(node) if isinstance(n, (ast.expr, ast.comprehension, ast.keyword)))


# --------------------------------------------------------------------------
# bounded-exhaustive enumeration
# --------------------------------------------------------------------------

# op -> (arity, template); %s slots are filled with child sources, parenthesised when needed
# by going through ast (we build ast nodes and unparse them, so precedence is always right).
ARITY = {'and': 2, 'or': 2, 'not': 1, 'eq': 2, 'lt': 2, 'ifexp': 3, 'add': 2, 'attr': 1, 'call': 2,
         'isnone': 1, 'notnone': 1, 'in': 2, 'neg': 1, 'sub': 2, 'mul': 2, 'index': 2, 'ne': 2, 'chain': 3,
         'call0': 1, 'kwcall': 2, 'tuple2': 2, 'pow': 2, 'bitor': 2, 'lam0': 1, 'fstr': 1, 'fspec': 1, 'inv': 1,
         'slice': 3, 'starcall': 2}

QUICK_OPS = ('and', 'or', 'not', 'eq', 'lt', 'ifexp', 'add', 'attr', 'call')

_shape_cache = {}


def enum_shapes(n, ops):
    """All shapes with exactly n nodes.  A shape is 'x' (leaf) or (op, child, ...)."""
    ck = (n, tuple(ops))
    r = _shape_cache.get(ck)
    if r is not None: return r
    if n == 1:
        r = ['x']
    else:
        r = []
        for op in ops:
            ar = ARITY[op]
            if n - 1 < ar: continue
            for sizes in _compositions(n - 1, ar):
                for kids in itertools.product(*[enum_shapes(s, ops) for s in sizes]):
                    r.append((op,) + kids)
    _shape_cache[ck] = r
    return r


def _compositions(total, parts):
    if parts == 1:
        yield (total,); return
    for first in range(1, total - parts + 2):
        for rest in _compositions(total - first, parts - 1):
            yield (first,) + rest


def _name(n): return ast.Name(id=n, ctx=ast.Load())


def shape_to_ast(shape, leaves):
    """leaves: iterator of leaf ast nodes consumed left to right (source order)."""
    if shape == 'x': return next(leaves)
    op = shape[0]
    if op == 'ifexp':
        body = shape_to_ast(shape[1], leaves); test = shape_to_ast(shape[2], leaves)
        orelse = shape_to_ast(shape[3], leaves)
        return ast.IfExp(test=test, body=body, orelse=orelse)
    kids = [shape_to_ast(k, leaves) for k in shape[1:]]
    if op in ('and', 'or'):
        cls = ast.And if op == 'and' else ast.Or
        vals = []
        l = kids[0]
        # left-nested same operator is written flat (`a and b and c`), right-nested keeps parentheses
        if isinstance(l, ast.BoolOp) and isinstance(l.op, cls): vals.extend(l.values)
        else: vals.append(l)
        vals.append(kids[1])
        return ast.BoolOp(op=cls(), values=vals)
    if op == 'not': return ast.UnaryOp(op=ast.Not(), operand=kids[0])
    if op == 'neg': return ast.UnaryOp(op=ast.USub(), operand=kids[0])
    if op in ('eq', 'lt', 'ne', 'in'):
        c = {'eq': ast.Eq, 'lt': ast.Lt, 'ne': ast.NotEq, 'in': ast.In}[op]
        return ast.Compare(left=kids[0], ops=[c()], comparators=[kids[1]])
    if op == 'chain':
        return ast.Compare(left=kids[0], ops=[ast.Lt(), ast.LtE()], comparators=[kids[1], kids[2]])
    if op in ('add', 'sub', 'mul', 'pow', 'bitor'):
        c = {'add': ast.Add, 'sub': ast.Sub, 'mul': ast.Mult, 'pow': ast.Pow, 'bitor': ast.BitOr}[op]
        return ast.BinOp(left=kids[0], op=c(), right=kids[1])
    if op == 'inv': return ast.UnaryOp(op=ast.Invert(), operand=kids[0])
    if op == 'lam0':
        return ast.Lambda(args=ast.arguments(posonlyargs=[], args=[], vararg=None, kwonlyargs=[], kw_defaults=[],
                                             kwarg=None, defaults=[]), body=kids[0])
    if op == 'fstr':
        return ast.JoinedStr(values=[ast.Constant(value='<'), ast.FormattedValue(value=kids[0], conversion=-1, format_spec=None)])
    if op == 'fspec':
        return ast.JoinedStr(values=[ast.FormattedValue(value=kids[0], conversion=ord('r'),
                                                        format_spec=ast.JoinedStr(values=[ast.Constant(value='>9')])),
                                     ast.Constant(value='{}')])
    if op == 'slice': return ast.Subscript(value=kids[0], slice=ast.Slice(lower=kids[1], upper=kids[2], step=None), ctx=ast.Load())
    if op == 'starcall': return ast.Call(func=kids[0], args=[ast.Starred(value=kids[1], ctx=ast.Load())], keywords=[])
    if op == 'attr': return ast.Attribute(value=kids[0], attr='p', ctx=ast.Load())
    if op == 'call': return ast.Call(func=kids[0], args=[kids[1]], keywords=[])
    if op == 'call0': return ast.Call(func=kids[0], args=[], keywords=[])
    if op == 'kwcall': return ast.Call(func=kids[0], args=[], keywords=[ast.keyword(arg='k', value=kids[1])])
    if op == 'index': return ast.Subscript(value=kids[0], slice=kids[1], ctx=ast.Load())
    if op == 'tuple2': return ast.Tuple(elts=kids, ctx=ast.Load())
    if op == 'isnone':
        return ast.Compare(left=kids[0], ops=[ast.Is()], comparators=[ast.Constant(value=None)])
    if op == 'notnone':
        return ast.Compare(left=kids[0], ops=[ast.IsNot()], comparators=[ast.Constant(value=None)])
    raise ValueError(op)


def instantiate(shape, names=NAMES):
    """Source text of the shape with leaves named left to right from `names` (cyclically)."""
    it = (_name(n) for n in itertools.cycle(names))
    return ast.unparse(shape_to_ast(shape, it))


def shape_size(shape):
    return 1 if shape == 'x' else 1 + sum(shape_size(k) for k in shape[1:])


# --------------------------------------------------------------------------
# random expressions over the full grammar
# --------------------------------------------------------------------------

class Opts(object):
    """Grammar switches for rand_expr."""
    def __init__(self, **kw):
        self.names = NAMES              # free names usable as leaves
        self.ifexp = True
        self.boolop = True
        self.boolop_value = True        # and/or allowed in value context (False: only in boolean context)
        self.compare_chain = True
        self.fstring = True
        self.lambdas = True
        self.genexp = True
        self.star = True                # *args / **kw in calls
        self.containers = True
        self.slices = True
        self.matmul = True
        self.sets = True
        self.consts = True
        self.inner_names = ('q', 'r')   # lambda parameters
        self.gen_names = ('y', 'z')     # nested-generator loop variables
        self.lambda_extras = False      # keyword-only / positional-only lambda parameters (C04 only)
        self.__dict__.update(kw)

    def but(self, **kw):
        o = Opts(**self.__dict__)
        o.__dict__.update(kw)
        return o


_BINOPS = [ast.Add, ast.Sub, ast.Mult, ast.Div, ast.FloorDiv, ast.Mod, ast.Pow, ast.LShift, ast.RShift,
           ast.BitOr, ast.BitXor, ast.BitAnd]
_CMPOPS = [ast.Eq, ast.NotEq, ast.Lt, ast.LtE, ast.Gt, ast.GtE, ast.Is, ast.IsNot, ast.In, ast.NotIn]
_CONSTS = [0, 1, 2, 7, 10 ** 20, 1.5, 'x', '', 's{t}', "it's", b'b', None, True, False, Ellipsis, 2j]


def _split(rng, total, parts):
    """Random composition of `total` (>= parts) into `parts` positive integers."""
    if parts == 1: return [total]
    cuts = sorted(rng.sample(range(1, total), parts - 1)) if total > parts else list(range(1, parts))
    if total < parts: return [1] * parts
    prev = 0; out = []
    for c in cuts + [total]:
        out.append(c - prev); prev = c
    return out


def rand_leaf(rng, o):
    if o.consts and rng.random() < 0.18:
        return ast.Constant(value=rng.choice(_CONSTS))
    return _name(rng.choice(o.names))


def rand_expr(rng, n, o, boolctx=True):
    """Random expression AST with about n nodes.  boolctx: the node is in boolean context (root, operand
    of not/and/or in boolean context, test of a conditional expression)."""
    if n <= 1: return rand_leaf(rng, o)
    kinds = [('binop', 10), ('unary', 4), ('compare', 8), ('attr', 7), ('call', 7), ('subscript', 5)]
    if o.boolop:
        kinds += [('not', 5)]
        if o.boolop_value or boolctx: kinds += [('boolop', 12)]
    if o.ifexp and n >= 4: kinds.append(('ifexp', 6))
    if o.containers and n >= 2: kinds.append(('container', 3))
    if o.fstring and n >= 2: kinds.append(('fstring', 3))
    if o.lambdas and n >= 3: kinds.append(('lambda', 1.5))
    if o.genexp and n >= 4: kinds.append(('genexp', 1.5))
    total = sum(w for _, w in kinds)
    x = rng.random() * total
    for kind, w in kinds:
        x -= w
        if x < 0: break
    n -= 1
    E = lambda m, oo=o: rand_expr(rng, m, oo, False)
    B = lambda m, ctx=True: rand_expr(rng, m, o, ctx)

    if kind == 'boolop':
        k = 2 if n < 3 or rng.random() < 0.7 else 3
        k = min(k, n)
        if k < 2: return ast.UnaryOp(op=ast.Not(), operand=B(n))
        cls = rng.choice((ast.And, ast.Or))
        return ast.BoolOp(op=cls(), values=[B(s, boolctx) for s in _split(rng, n, k)])
    if kind == 'not':
        return ast.UnaryOp(op=ast.Not(), operand=B(n))
    if kind == 'ifexp':
        if n < 3: return E(n)
        b, t, e = _split(rng, n, 3)
        return ast.IfExp(test=B(t), body=B(b, boolctx), orelse=B(e, boolctx))
    if kind == 'binop':
        if n < 2: return ast.UnaryOp(op=ast.USub(), operand=E(n))
        l, r = _split(rng, n, 2)
        ops = _BINOPS + ([ast.MatMult] if o.matmul else [])
        op = rng.choice(ops)
        left, right = E(l), E(r)
        if op in (ast.Pow, ast.LShift, ast.Mult) and not any(isinstance(x, ast.Name) for x in ast.walk(right)):
            right = _name(rng.choice(o.names))      # never a constant-only exponent/shift/repeat: 7 ** 7 ** 7 hangs
        return ast.BinOp(left=left, op=op(), right=right)
    if kind == 'unary':
        return ast.UnaryOp(op=rng.choice((ast.USub, ast.UAdd, ast.Invert))(), operand=E(n))
    if kind == 'compare':
        if n < 2: return ast.UnaryOp(op=ast.Not(), operand=E(n))
        k = 3 if (o.compare_chain and n >= 3 and rng.random() < 0.2) else 2
        parts = [E(s) for s in _split(rng, n, k)]
        if rng.random() < 0.15 and k == 2:
            parts[1] = ast.Constant(value=None)
            ops = [rng.choice((ast.Is, ast.IsNot))()]
        else:
            ops = [rng.choice(_CMPOPS)() for _ in range(k - 1)]
        return ast.Compare(left=parts[0], ops=ops, comparators=parts[1:])
    if kind == 'attr':
        return ast.Attribute(value=E(n), attr=rng.choice(('p', 'q1', 'name')), ctx=ast.Load())
    if kind == 'call':
        nargs = rng.choice((0, 1, 1, 2, 3))
        nargs = min(nargs, max(0, n - 1))
        sizes = _split(rng, n, nargs + 1) if nargs else [n]
        func = E(sizes[0])
        args, kws = [], []
        kwnames = ['k', 'j', 'm']
        for s in sizes[1:]:
            r = rng.random()
            v = E(s)
            if kws or r < 0.3:
                if o.star and rng.random() < 0.15: kws.append(ast.keyword(arg=None, value=v))
                elif kwnames: kws.append(ast.keyword(arg=kwnames.pop(0), value=v))
                else: kws.append(ast.keyword(arg=None, value=v))
            elif o.star and r < 0.4:
                args.append(ast.Starred(value=v, ctx=ast.Load()))
            else:
                args.append(v)
        return ast.Call(func=func, args=args, keywords=kws)
    if kind == 'subscript':
        if n < 2: return ast.Attribute(value=E(n), attr='p', ctx=ast.Load())
        l, r = _split(rng, n, 2)
        value = E(l)
        x = rng.random()
        if o.slices and x < 0.35:
            ps = _split(rng, max(r, 3), 3)
            lo = E(ps[0]) if rng.random() < 0.7 else None
            up = E(ps[1]) if rng.random() < 0.7 else None
            st = E(ps[2]) if rng.random() < 0.25 else None
            sl = ast.Slice(lower=lo, upper=up, step=st)
            if rng.random() < 0.2:
                sl = ast.Tuple(elts=[sl, rand_leaf(rng, o)], ctx=ast.Load())
        elif o.containers and x < 0.5 and r >= 2:
            a_, b_ = _split(rng, r, 2)
            sl = ast.Tuple(elts=[E(a_), E(b_)], ctx=ast.Load())
        else:
            sl = E(r)
        return ast.Subscript(value=value, slice=sl, ctx=ast.Load())
    if kind == 'container':
        k = min(rng.choice((0, 1, 2, 3)), n)
        sizes = _split(rng, n, k) if k else []
        which = rng.choice(('tuple', 'list', 'dict', 'set') if o.sets else ('tuple', 'list', 'dict'))
        if which == 'dict':
            keys, vals = [], []
            for s in sizes:
                if s >= 2:
                    a_, b_ = _split(rng, s, 2); keys.append(E(a_)); vals.append(E(b_))
                else:
                    keys.append(ast.Constant(value=rng.choice(('k1', 'k2', 3)))); vals.append(E(s))
            return ast.Dict(keys=keys, values=vals)
        elts = [E(s) for s in sizes]
        if which == 'set' and elts: return ast.Set(elts=elts)
        if which == 'list': return ast.List(elts=elts, ctx=ast.Load())
        return ast.Tuple(elts=elts, ctx=ast.Load())
    if kind == 'fstring':
        k = min(rng.choice((1, 1, 2)), n)
        vals = []
        lits = ['', 'x', ' = ', '{', '}', '{}', 'a{b}c', '%', "'", '"', 'é']
        for s in _split(rng, n, k):
            if rng.random() < 0.6: vals.append(ast.Constant(value=rng.choice(lits)))
            conv = rng.choice((-1, -1, -1, ord('r'), ord('s'), ord('a')))
            spec = None
            x = rng.random()
            if x < 0.3:
                spec = ast.JoinedStr(values=[ast.Constant(value=rng.choice(('>3', '03d', '.2f', '^5', 'x', '>{')))])
            elif x < 0.4:
                spec = ast.JoinedStr(values=[ast.Constant(value='>'),
                                             ast.FormattedValue(value=rand_leaf(rng, o), conversion=-1, format_spec=None)])
            # f-string bodies must not contain lambdas without parentheses etc.; ast.unparse handles that
            # no lambdas/generators inside: their str()/repr() contains a memory address
            vals.append(ast.FormattedValue(value=E(s, o.but(lambdas=False, genexp=False)), conversion=conv,
                                           format_spec=spec))
        if rng.random() < 0.4: vals.append(ast.Constant(value=rng.choice(lits)))
        return ast.JoinedStr(values=vals)
    if kind == 'lambda':
        nparams = rng.choice((0, 1, 1, 2))
        params = list(o.inner_names[:nparams])
        inner = o.but(names=tuple(o.names) + tuple(params), lambdas=False)
        defaults = []
        budget = n
        if params and rng.random() < 0.3 and budget >= 2:
            defaults = [rand_leaf(rng, o)]; budget -= 1
        args = ast.arguments(posonlyargs=[], args=[ast.arg(arg=p) for p in params], vararg=None,
                             kwonlyargs=[], kw_defaults=[], kwarg=None, defaults=defaults)
        if rng.random() < 0.15: args.vararg = ast.arg(arg='rest')
        if o.lambda_extras:
            x = rng.random()
            if x < 0.2 and params:
                args.posonlyargs, args.args = args.args[:1], args.args[1:]
                if len(args.defaults) > len(args.args) + len(args.posonlyargs): args.defaults = []
            elif x < 0.4:
                args.kwonlyargs = [ast.arg(arg='kw')]; args.kw_defaults = [rand_leaf(rng, o)]
                inner = inner.but(names=inner.names + ('kw',))
        return ast.Lambda(args=args, body=rand_expr(rng, max(1, budget), inner, False))
    if kind == 'genexp':
        var = rng.choice(o.gen_names)
        inner = o.but(names=tuple(o.names) + (var,), genexp=False)
        e_, i_, c_ = _split(rng, max(n, 3), 3)
        it = rand_expr(rng, min(i_, 3), o.but(ifexp=False, boolop=False, lambdas=False, genexp=False, fstring=False), False)
        ifs = [rand_expr(rng, c_, inner, True)] if rng.random() < 0.6 else []
        g = ast.GeneratorExp(elt=rand_expr(rng, e_, inner, False),
                             generators=[ast.comprehension(target=ast.Name(id=var, ctx=ast.Store()), iter=it,
                                                           ifs=ifs, is_async=0)])
        x = rng.random()
        if x < 0.4:
            return ast.Compare(left=rand_leaf(rng, o), ops=[rng.choice((ast.In, ast.NotIn))()], comparators=[g])
        if x < 0.8:
            kws = [ast.keyword(arg='k', value=rand_leaf(rng, o))] if rng.random() < 0.25 else []
            return ast.Call(func=_name(rng.choice(o.names)), args=[g], keywords=kws)
        return g
    raise AssertionError(kind)


def rand_source(rng, n, o):
    """Random expression as source text (always re-parsable); returns (src, tree)."""
    for _ in range(20):
        node = rand_expr(rng, n, o)
        try:
            src = ast.unparse(ast.fix_missing_locations(ast.Expression(body=node)))
            tree = ast.parse(src, mode='eval').body
            compile(src, '<exprgen>', 'eval')
        except (SyntaxError, ValueError, TypeError, RecursionError, MemoryError, OverflowError):
            continue
        return src, tree
    return 'a', ast.parse('a', mode='eval').body


# --------------------------------------------------------------------------
# typed expressions over concrete caller-scope values (C04 end-to-end part)
# --------------------------------------------------------------------------
# Names the expressions may use and the kind of value they are expected to hold:
#   a, b, c, d : int      s, t : str      xs : list of 3 ints      dd : dict {'k1': int, 'k2': int}
#   o : object with .v (int) .w (str) .child (object with .v, .m) and method .m(x, y=1) -> int
#   fn(x, y=1, *rest, **kw) -> int
INT_NAMES = ('a', 'b', 'c', 'd')
STR_NAMES = ('s', 't')
_TY = {'ifexp': True, 'boolop': True, 'chain': True}     # grammar switches, set by typed_source()


def _c(v): return ast.Constant(value=v)
def _bin(l, op, r): return ast.BinOp(left=l, op=op(), right=r)
def _call(f, args=(), kws=()): return ast.Call(func=f, args=list(args), keywords=[ast.keyword(arg=k, value=v) for k, v in kws])
def _attr(v, a): return ast.Attribute(value=v, attr=a, ctx=ast.Load())
def _sub(v, i): return ast.Subscript(value=v, slice=i, ctx=ast.Load())


def typed_int(rng, n, depth=0):
    """Random int-valued expression AST of about n nodes over the caller-scope names."""
    if n <= 1 or depth > 7:
        x = rng.random()
        if x < 0.55: return _name(rng.choice(INT_NAMES))
        if x < 0.7: return _c(rng.choice((0, 1, 2, 3, 5, 10)))
        if x < 0.78: return _attr(_name('o'), 'v')
        if x < 0.84: return _attr(_attr(_name('o'), 'child'), 'v')
        if x < 0.92: return _sub(_name('xs'), _c(rng.choice((0, 1, 2, -1))))
        return _sub(_name('dd'), _c(rng.choice(('k1', 'k2'))))
    n -= 1
    I = lambda m: typed_int(rng, max(1, m), depth + 1)
    Bo = lambda m: typed_bool(rng, max(1, m), depth + 1)
    l, r = _split(rng, max(n, 2), 2)
    x = rng.random()
    if x < 0.26:
        op = rng.choice((ast.Add, ast.Sub, ast.Mult, ast.Add, ast.Sub, ast.FloorDiv, ast.Mod, ast.BitAnd, ast.BitOr, ast.BitXor))
        return _bin(I(l), op, I(r))
    if x < 0.31:
        return _bin(I(l), rng.choice((ast.LShift, ast.RShift)), _bin(I(r), ast.Mod, _c(5)))
    if x < 0.37:
        return _bin(I(n), ast.Pow, _c(rng.choice((0, 1, 2, 3))))
    if x < 0.47:
        return ast.UnaryOp(op=rng.choice((ast.USub, ast.USub, ast.USub, ast.USub, ast.USub, ast.UAdd, ast.UAdd, ast.Invert))(), operand=I(n))
    if x < 0.59 and _TY['ifexp']:
        b_, t_, e_ = _split(rng, max(n, 3), 3)
        return ast.IfExp(test=Bo(t_), body=I(b_), orelse=I(e_))
    if 0.59 <= x < 0.66 and _TY['boolop']:
        return ast.BoolOp(op=rng.choice((ast.And, ast.Or))(), values=[I(l), I(r)])
    if x < 0.74:
        y = rng.random()
        if y < 0.4: return _call(_name('fn'), [I(n)])
        if y < 0.7: return _call(_name('fn'), [I(l)], [('y', I(r))])
        if y < 0.85: return _call(_attr(_name('o'), 'm'), [I(n)])
        return _call(_attr(_attr(_name('o'), 'child'), 'm'), [I(l)], [('y', I(r))])
    if x < 0.86:
        # attribute / call / subscript on a compound receiver
        recv = I(n)
        y = rng.random()
        if y < 0.35: return _attr(recv, 'real')
        if y < 0.6: return _call(_attr(recv, 'bit_length'))
        if y < 0.8: return _sub(ast.Tuple(elts=[I(l), I(r)], ctx=ast.Load()), _c(rng.choice((0, 1))))
        return _sub(ast.Dict(keys=[_c('k')], values=[I(n)]), _c('k'))
    if x < 0.93:
        lam = ast.Lambda(args=ast.arguments(posonlyargs=[], args=[ast.arg(arg='q')], vararg=None, kwonlyargs=[],
                                            kw_defaults=[], kwarg=None, defaults=[]),
                         body=_bin(_name('q'), rng.choice((ast.Add, ast.Mult, ast.Sub)), I(l)))
        return _call(lam, [I(r)])
    return _call(_name('len'), [typed_str(rng, n, depth + 1)])


def typed_bool(rng, n, depth=0):
    if n <= 2 or depth > 7:
        return ast.Compare(left=typed_int(rng, 1, depth + 1), ops=[rng.choice((ast.Lt, ast.Gt, ast.Eq, ast.NotEq, ast.LtE, ast.GtE))()],
                           comparators=[typed_int(rng, 1, depth + 1)])
    n -= 1
    l, r = _split(rng, max(n, 2), 2)
    I = lambda m: typed_int(rng, max(1, m), depth + 1)
    Bo = lambda m: typed_bool(rng, max(1, m), depth + 1)
    x = rng.random()
    if x < 0.4:
        return ast.Compare(left=I(l), ops=[rng.choice((ast.Lt, ast.Gt, ast.Eq, ast.NotEq, ast.LtE, ast.GtE))()], comparators=[I(r)])
    if x < 0.5 and _TY['chain']:
        a_, b_, c_ = _split(rng, max(n, 3), 3)
        return ast.Compare(left=I(a_), ops=[ast.Lt(), ast.LtE()], comparators=[I(b_), I(c_)])
    if x < 0.62: return ast.UnaryOp(op=ast.Not(), operand=Bo(n))
    if x < 0.82 and _TY['boolop']: return ast.BoolOp(op=rng.choice((ast.And, ast.Or))(), values=[Bo(l), Bo(r)])
    if x < 0.92: return ast.Compare(left=I(n), ops=[rng.choice((ast.In, ast.NotIn))()], comparators=[_name('xs')])
    return ast.Compare(left=I(l), ops=[rng.choice((ast.Is, ast.IsNot))()], comparators=[_c(None)])


def typed_str(rng, n, depth=0):
    if n <= 1 or depth > 7:
        x = rng.random()
        if x < 0.6: return _name(rng.choice(STR_NAMES))
        if x < 0.8: return _c(rng.choice(('x', 'ab', '', 'Q{z}')))
        return _attr(_name('o'), 'w')
    n -= 1
    I = lambda m: typed_int(rng, max(1, m), depth + 1)
    S = lambda m: typed_str(rng, max(1, m), depth + 1)
    Bo = lambda m: typed_bool(rng, max(1, m), depth + 1)
    l, r = _split(rng, max(n, 2), 2)
    x = rng.random()
    if x < 0.15: return _bin(S(l), ast.Add, S(r))
    if x < 0.2: return _bin(S(l), ast.Mult, _bin(I(r), ast.Mod, _c(3)))
    if x < 0.3: return _call(_attr(S(n), rng.choice(('upper', 'lower', 'strip', 'title'))))
    if x < 0.36: return _sub(S(l), ast.Slice(lower=_bin(I(r), ast.Mod, _c(2)), upper=None, step=None))
    if 0.36 <= x < 0.44 and _TY['ifexp']:
        b_, t_, e_ = _split(rng, max(n, 3), 3)
        return ast.IfExp(test=Bo(t_), body=S(b_), orelse=S(e_))
    if 0.44 <= x < 0.5: return _bin(_c('%s-%s'), ast.Mod, ast.Tuple(elts=[I(l), S(r)], ctx=ast.Load()))
    if 0.5 <= x < 0.54 and _TY['boolop']: return ast.BoolOp(op=ast.Or(), values=[S(l), S(r)])
    # f-strings
    k = rng.choice((1, 1, 2))
    vals = []
    lits = ['', 'x', '=', '{', '}', '{}', 'a{b}c', '{{', ' %']
    for sz in _split(rng, max(n, k), k):
        if rng.random() < 0.55: vals.append(_c(rng.choice(lits)))
        if rng.random() < 0.6:
            v = I(sz); conv = rng.choice((-1, -1, ord('r'), ord('s')))
            spec = rng.choice((None, None, '>4', '04d', 'x', '<3', '+', '^5')) if conv == -1 else rng.choice((None, '>6', '<4'))
        else:
            v = S(sz); conv = rng.choice((-1, -1, ord('r'), ord('s'), ord('a')))
            spec = rng.choice((None, None, '>6', '<4', '^7', '.1'))
        fs = None
        if spec is not None:
            if rng.random() < 0.2:
                fs = ast.JoinedStr(values=[_c(spec[0] if spec[0] in '<>^' else '>'),
                                           ast.FormattedValue(value=_bin(typed_int(rng, 1, depth + 1), ast.Mod, _c(6)), conversion=-1, format_spec=None)])
            else:
                fs = ast.JoinedStr(values=[_c(spec)])
        if rng.random() < 0.08:
            v = _sub(ast.Dict(keys=[_c('k')], values=[v]), _c('k'))        # expression starting with a brace
        vals.append(ast.FormattedValue(value=v, conversion=conv, format_spec=fs))
    if rng.random() < 0.4: vals.append(_c(rng.choice(lits)))
    return ast.JoinedStr(values=vals)


def typed_source(rng, typ, n, ifexp=True, boolop=True, chain=True):
    """(source, tree) of a random expression of static type typ in {'int','str','bool'}."""
    f = {'int': typed_int, 'str': typed_str, 'bool': typed_bool}[typ]
    _TY.update(ifexp=ifexp, boolop=boolop, chain=chain)
    for _ in range(20):
        node = f(rng, n)
        try:
            src = ast.unparse(ast.fix_missing_locations(ast.Expression(body=node)))
            tree = ast.parse(src, mode='eval').body
        except (SyntaxError, ValueError, TypeError, RecursionError):
            continue
        return src, tree
    return 'a', ast.parse('a', mode='eval').body


# --------------------------------------------------------------------------
# large expressions (code objects that need EXTENDED_ARG) and `is None` families
# --------------------------------------------------------------------------
def large_expr(rng, n, style, names=NAMES):
    """Source of an expression with n comparison operands joined by and/or in the given style.  Operands use
    many different attribute names and constants, so with n >= ~20 the code object has jumps over more than 255
    code units and with n >= ~130 more than 255 names/constants (EXTENDED_ARG on jumps, LOAD_ATTR, LOAD_CONST).
    style: 'or' | 'and' | 'and_of_or' | 'or_of_and' | 'mixed' | 'not_groups' | 'arith'."""
    cmps = ('==', '!=', '<', '<=', '>', '>=')

    def operand(i):
        x = rng.random()
        v = rng.choice(names)
        if x < 0.6: return '%s.p%d %s %d' % (v, i, rng.choice(cmps), 1000 + i)
        if x < 0.75: return '%s.q%d %s %s.r%d' % (v, i, rng.choice(cmps), rng.choice(names), i)
        if x < 0.85: return '%s.n%d is %sNone' % (v, i, rng.choice(('', 'not ')))
        if x < 0.93: return 'not %s.f%d' % (v, i)
        return '%s.s%d in (%d, %d)' % (v, i, i, i + 500)
    ops = [operand(i) for i in range(n)]
    if style in ('or', 'and'):
        return (' %s ' % style).join(ops)
    if style in ('and_of_or', 'or_of_and', 'not_groups'):
        inner, outer = ('or', 'and') if style != 'or_of_and' else ('and', 'or')
        groups, i = [], 0
        while i < n:
            k = rng.randint(2, 7)
            grp = '(' + (' %s ' % inner).join(ops[i:i + k]) + ')'
            if style == 'not_groups' and rng.random() < 0.4: grp = 'not ' + grp
            groups.append(grp); i += k
        return (' %s ' % outer).join(groups)
    if style == 'mixed':
        # random binary and/or tree over the operands, written with explicit parentheses
        items = list(ops)
        while len(items) > 1:
            i = rng.randrange(len(items) - 1)
            op = rng.choice(('and', 'or'))
            l, r = items[i], items[i + 1]
            items[i:i + 2] = ['(%s %s %s)' % (l, op, r)]
        return items[0]
    if style == 'arith':
        v = rng.choice(names)
        terms = ['%s.p%d * %d' % (rng.choice(names), i, 1000 + i) for i in range(n)]
        return '%s > %s.limit and %s.p0 < %d' % (' + '.join(terms), v, v, 5000 + n)
    raise ValueError(style)


NONE_ATOMS = ('a.p is None', 'b is not None', 'c == d', 'a.q < c')


def none_conditions(max_nodes, natoms):
    """Every and/or/not tree with at most max_nodes nodes (leaves included) whose leaves are drawn from the first
    `natoms` NONE_ATOMS and that contains at least one `is None` / `is not None` test.  Yields source texts."""
    atoms = NONE_ATOMS[:natoms]
    seen = set()
    for n in range(1, max_nodes + 1):
        for sh in enum_shapes(n, ('and', 'or', 'not')):
            k = _count_leaves(sh)
            for pick in itertools.product(range(len(atoms)), repeat=k):
                if not any(i < 2 for i in pick): continue
                it = iter(ast.parse(atoms[i], mode='eval').body for i in pick)
                src = ast.unparse(shape_to_ast(sh, it))
                if src not in seen:
                    seen.add(src); yield src


def _count_leaves(shape):
    return 1 if shape == 'x' else sum(_count_leaves(k) for k in shape[1:])

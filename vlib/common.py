"""Shared runtime for every check: tree selection, seeding, verdict bookkeeping,
evidence writing, known-finding discipline, sharding over subprocesses.

A check module (checks/Cxx.py) defines

    META  = {...}                      # feeds MANIFEST.json via tools/gen_manifest.py
    SHARDS = {'quick': 1, 'thorough': 16}   (optional)
    def run(ctx): ...                  # ctx is a Ctx; call ctx.case/ctx.count/ctx.finding/ctx.violation
    def replay(ctx, witness): ...      (optional)

and run_check.py drives it.  Verdicts are three-valued: exit 0 held on what was
observed, exit 1 VIOLATION, exit 2 INCONCLUSIVE (a deciding monitor saw fewer
events than its floor, or a shard died).
"""
import os, sys, json, time, random, hashlib, tempfile, shutil, subprocess, traceback

VERIF = os.path.dirname(os.path.dirname(os.path.abspath(__file__)))
REPO = os.environ.get('VERIF_REPO', '/repo')
PY = '/venv/bin/python'
KNOWN_FILE = os.path.join(VERIF, 'known_findings.json')


def setup_path(shims=()):
    """Put the tree under test first on sys.path (and optional shim dirs before it)."""
    sys.dont_write_bytecode = True
    for p in (REPO,):
        if p in sys.path: sys.path.remove(p)
        sys.path.insert(0, p)
    for s in shims:
        d = os.path.join(VERIF, 'shims', s)
        if d not in sys.path: sys.path.insert(0, d)
    if VERIF not in sys.path: sys.path.append(VERIF)
    import pony
    got = os.path.realpath(os.path.dirname(os.path.dirname(pony.__file__)))
    assert got == os.path.realpath(REPO), 'pony imported from %s, wanted %s' % (got, REPO)
    # drivers are script files so pony.MODE is not INTERACTIVE (implicit sessions would change behaviour)
    assert pony.MODE != 'INTERACTIVE', pony.MODE


def scratch_dir():
    base = '/dev/shm' if os.path.isdir('/dev/shm') and os.access('/dev/shm', os.W_OK) else tempfile.gettempdir()
    return tempfile.mkdtemp(prefix='ponyverif-', dir=base)


def fp(obj):
    """Structural fingerprint of a case (short stable hash)."""
    if not isinstance(obj, (str, bytes)):
        obj = json.dumps(obj, sort_keys=True, default=repr)
    if isinstance(obj, str): obj = obj.encode('utf-8', 'surrogatepass')
    return hashlib.blake2b(obj, digest_size=8).hexdigest()


def jsonable(x, depth=0):
    if depth > 8: return repr(x)
    if x is None or isinstance(x, (bool, int, str)): return x
    if isinstance(x, float): return x if x == x and x not in (float('inf'), float('-inf')) else repr(x)
    if isinstance(x, (list, tuple)): return [jsonable(i, depth + 1) for i in x]
    if isinstance(x, (set, frozenset)):
        return sorted((jsonable(i, depth + 1) for i in x), key=repr)
    if isinstance(x, dict): return {str(k): jsonable(v, depth + 1) for k, v in x.items()}
    return repr(x)


def load_known():
    try:
        with open(KNOWN_FILE) as f: data = json.load(f)
    except FileNotFoundError:
        return {}
    return {e['id']: e for e in data.get('findings', [])}


class Ctx(object):
    MAX_SAMPLES = 12
    MAX_WITNESSES = 25

    def __init__(self, pid, level, tier, seed, shard=0, nshards=1):
        self.pid, self.level, self.tier, self.seed = pid, level, tier, seed
        self.shard, self.nshards = shard, nshards
        self.rng = random.Random('%s/%s/%s/%s' % (pid, seed, shard, tier))
        self.t0 = time.time()
        self.evaluations = 0
        self.fps = set()                # fingerprints of distinct non-trivial cases
        self.samples = []
        self.counters = {}
        self.violations = []            # [{'mechanism':..., 'witness':...}]
        self.known_hits = {}            # finding id -> {'count': n, 'witness': first}
        self.inconclusive = []          # reasons
        self.extra = {}                 # free-form coverage extras (merged by update)
        self.known = load_known()
        self.scratch = None

    # -- scratch ---------------------------------------------------------
    def tmp(self):
        if self.scratch is None: self.scratch = scratch_dir()
        return self.scratch

    def cleanup(self):
        if self.scratch: shutil.rmtree(self.scratch, ignore_errors=True); self.scratch = None

    def subrng(self, *key):
        return random.Random('%s/%s/%s' % (self.pid, self.seed, '/'.join(map(str, key))))

    # -- observation bookkeeping ----------------------------------------
    def case(self, fingerprint=None, nontrivial=True, sample=None):
        """One executed case. fingerprint: structural identity of the case (anything jsonable)."""
        self.evaluations += 1
        if nontrivial and fingerprint is not None:
            self.fps.add(fingerprint if isinstance(fingerprint, str) and len(fingerprint) == 16 else fp(fingerprint))
        if sample is not None and len(self.samples) < self.MAX_SAMPLES:
            self.samples.append(jsonable(sample))

    def count(self, name, n=1):
        self.counters[name] = self.counters.get(name, 0) + n

    def sample(self, s):
        if len(self.samples) < self.MAX_SAMPLES: self.samples.append(jsonable(s))

    def violation(self, witness, mechanism='unclassified'):
        self.count('violations_seen')
        if len(self.violations) < self.MAX_WITNESSES:
            self.violations.append({'mechanism': mechanism, 'witness': jsonable(witness)})
        else:
            self.violations[-1].setdefault('more', 0); self.violations[-1]['more'] += 1

    def finding(self, fid, witness):
        """A disagreement whose mechanism the oracle identified as finding `fid`.
        KNOWN only while known_findings.json lists fid as open for this property; else a violation."""
        e = self.known.get(fid)
        if e is not None and e.get('status') == 'open' and e.get('property') == self.pid:
            k = self.known_hits.setdefault(fid, {'count': 0, 'witness': jsonable(witness)})
            k['count'] += 1
        else:
            self.violation(witness, mechanism=fid)

    def is_open(self, fid):
        """True while known_findings.json lists fid as an OPEN finding of this property. Classifiers use it to stop
        applying the deviation rule of a finding that has been fixed: what that rule would have explained must then be
        explained by another open rule or be reported as a violation."""
        e = self.known.get(fid)
        return e is not None and e.get('status') == 'open' and e.get('property') == self.pid

    def inconclusive_if(self, cond, reason):
        if cond: self.inconclusive.append(reason)

    def floor(self, counter, minimum):
        got = self.counters.get(counter, 0)
        if got < minimum:
            self.inconclusive.append('monitor counter %s=%d below floor %d' % (counter, got, minimum))

    def time_left(self, budget_s):
        return budget_s - (time.time() - self.t0)

    # -- partial results for sharding ------------------------------------
    def to_partial(self):
        return {'evaluations': self.evaluations, 'fps': sorted(self.fps), 'samples': self.samples,
                'counters': self.counters, 'violations': self.violations, 'known_hits': self.known_hits,
                'inconclusive': self.inconclusive, 'extra': jsonable(self.extra)}

    def merge_partial(self, p):
        self.evaluations += p['evaluations']
        self.fps.update(p['fps'])
        for s in p['samples']:
            if len(self.samples) < self.MAX_SAMPLES: self.samples.append(s)
        for k, v in p['counters'].items(): self.count(k, v)
        for v in p['violations']:
            if len(self.violations) < self.MAX_WITNESSES: self.violations.append(v)
        for fid, k in p['known_hits'].items():
            mine = self.known_hits.setdefault(fid, {'count': 0, 'witness': k['witness']})
            mine['count'] += k['count']
        self.inconclusive.extend(p['inconclusive'])
        for k, v in p.get('extra', {}).items():
            if isinstance(v, (int, float)) and isinstance(self.extra.get(k), (int, float)): self.extra[k] += v
            elif isinstance(v, list) and isinstance(self.extra.get(k), list):
                self.extra[k] = (self.extra[k] + v)[:50]
            elif isinstance(v, dict) and isinstance(self.extra.get(k), dict):
                for kk, vv in v.items():
                    if isinstance(vv, (int, float)) and isinstance(self.extra[k].get(kk), (int, float)):
                        self.extra[k][kk] += vv
                    else: self.extra[k].setdefault(kk, vv)
            else: self.extra.setdefault(k, v)

    # -- finish ----------------------------------------------------------
    def finish(self, meta):
        """Write evidence, replay files, print verdict lines; return exit code."""
        wall = time.time() - self.t0
        nviol = self.counters.get('violations_seen', 0)
        if self.evaluations < 1 or len(self.fps) < 2:
            self.inconclusive.append('too few distinct non-trivial cases (%d evaluations, %d distinct)'
                                     % (self.evaluations, len(self.fps)))
        coverage = {
            'evaluations': self.evaluations,
            'distinct_nontrivial': len(self.fps),
            'rule': meta.get('rule', ''),
            'samples': self.samples or ['<none>'],
            'monitor_counters': dict(sorted(self.counters.items())),
            'known_findings_reproduced': {k: v['count'] for k, v in sorted(self.known_hits.items())},
            # first witness of every listed finding this run reproduced (what the classifier accepted as known)
            'known_finding_witnesses': {k: _clip(v['witness']) for k, v in sorted(self.known_hits.items())},
            'verdict': 'violated' if nviol else ('inconclusive' if self.inconclusive else 'held_on_observed'),
            'inconclusive_reasons': self.inconclusive[:20],
            'shards': self.nshards,
            'tree': REPO,
        }
        if meta.get('exhaustive_tiers') and self.tier in meta['exhaustive_tiers']:
            coverage['exhaustive'] = True
        coverage.update(jsonable(self.extra))
        ev = {'property_id': self.pid, 'tier': self.tier, 'seed': self.seed, 'level': self.level,
              'coverage': coverage, 'assumptions': meta.get('assumptions', []),
              'wall_s': round(wall, 3), 'violations': nviol}
        os.makedirs(os.path.join(VERIF, 'evidence'), exist_ok=True)
        evpath = os.path.join(VERIF, 'evidence', self.pid + '.json')
        with open(evpath + '.tmp', 'w') as f: json.dump(ev, f, indent=1, sort_keys=True)
        os.replace(evpath + '.tmp', evpath)

        for fid, k in sorted(self.known_hits.items()):
            e = self.known[fid]
            print('KNOWN-FINDING: property=%s %s [%s] (reproduced %d times this run)'
                  % (self.pid, e['what'], fid, k['count']))
        code = 0
        if nviol:
            os.makedirs(os.path.join(VERIF, 'replays'), exist_ok=True)
            seen = set()
            for i, v in enumerate(self.violations):
                path = os.path.join(VERIF, 'replays', '%s-%s-seed%d-%d.json' % (self.pid, self.tier, self.seed, i))
                with open(path, 'w') as f:
                    json.dump({'property_id': self.pid, 'tier': self.tier, 'seed': self.seed,
                               'mechanism': v['mechanism'], 'witness': v['witness']}, f, indent=1)
                if v['mechanism'] not in seen or len(seen) < 5:
                    print('VIOLATION property=%s replay=%s' % (self.pid, path))
                    print('  mechanism=%s witness=%s' % (v['mechanism'], json.dumps(v['witness'])[:600]))
                seen.add(v['mechanism'])
            code = 1
        elif self.inconclusive:
            for r in self.inconclusive[:10]: print('INCONCLUSIVE property=%s %s' % (self.pid, r))
            code = 2
        print('%s %s seed=%d: %s; %d evaluations, %d distinct non-trivial, %.1fs; counters=%s'
              % (self.pid, self.tier, self.seed, coverage['verdict'], self.evaluations, len(self.fps), wall,
                 json.dumps(coverage['monitor_counters'])[:900]))
        return code


def _clip(w, limit=6000):
    """witness of a known finding for the evidence file, bounded in size"""
    t = json.dumps(jsonable(w), sort_keys=True, default=repr)
    return json.loads(t) if len(t) <= limit else {'clipped_json': t[:limit]}


def run_sharded(modname, pid, level, tier, seed, nshards, timeout_s):
    """Fan a check out over subprocesses; return merged Ctx."""
    ctx = Ctx(pid, level, tier, seed, 0, nshards)
    tmpd = scratch_dir()
    try:
        procs = []
        env = dict(os.environ, PYTHONHASHSEED='0', PYTHONDONTWRITEBYTECODE='1')
        for i in range(nshards):
            out = os.path.join(tmpd, 'part%d.json' % i)
            cmd = [PY, os.path.join(VERIF, 'run_check.py'), pid, '--tier', tier, '--seed', str(seed),
                   '--shard', '%d/%d' % (i, nshards), '--partial', out]
            log = open(os.path.join(tmpd, 'log%d.txt' % i), 'w')
            procs.append((i, out, log, subprocess.Popen(cmd, stdout=log, stderr=subprocess.STDOUT, env=env, cwd=VERIF)))
        deadline = time.time() + timeout_s
        for i, out, log, p in procs:
            try:
                p.wait(timeout=max(1, deadline - time.time()))
            except subprocess.TimeoutExpired:
                p.kill(); p.wait()
                ctx.inconclusive.append('shard %d watchdog (%ds) fired' % (i, timeout_s))
            log.close()
            if os.path.exists(out):
                with open(out) as f: ctx.merge_partial(json.load(f))
            else:
                tail = open(log.name).read()[-1500:]
                ctx.inconclusive.append('shard %d produced no result (rc=%s): %s' % (i, p.returncode, tail))
    finally:
        shutil.rmtree(tmpd, ignore_errors=True)
    return ctx


def exc_class(e):
    return type(e).__name__


def short_tb(limit=6):
    return traceback.format_exc(limit=limit)[-1500:]

"""E2 part 3 — session-history executor and monitors.

Engine(ctx, spec, workdir, ...) owns one pony Database (SQLite file, DB-API recorder
attached), the reference model (committed + working State) and the monitors:

  commit   raw sqlite3 dump after every commit/session end vs model.committed        (C09, C14, C15)
  read     every read result vs model.working                                          (C10)
  identity one python object per (root entity, pk) per session                         (C11)
  index    walker over cache.indexes                                                   (C11)
  reverse  walker over both ends of every loaded relationship in the cache             (C12)
  atomic   session snapshot before every modification; equality after a raise          (C13)
  conflict key duplicates must be reported at the call or at flush; never committed    (C14)
  cascade  refused deletes must raise; fk check on the raw file                        (C15)
  fkorder  flush under immediate foreign keys                                          (C16)

Each monitor reports through `self.report(monitor, kind, detail)`; the check module decides
which monitors count for its property.  An operation is a jsonable dict (see gen.py).
"""
import os, sqlite3, copy, json, traceback

from vlib import hschema, hmodel
from vlib.dbapi import Recorder

DEL_STATUSES = ('marked_to_delete', 'deleted', 'cancelled')


class Report(object):
    __slots__ = ('monitor', 'kind', 'detail')

    def __init__(self, monitor, kind, detail):
        self.monitor, self.kind, self.detail = monitor, kind, detail

    def as_dict(self):
        return {'monitor': self.monitor, 'kind': self.kind, 'detail': self.detail}


class Engine(object):
    def __init__(self, spec, workdir, name='h', lazy_all=False, hooks=None, count=None, fk_immediate=True,
                 walkers=True, snapshots=True, force_load=False):
        from pony import orm
        from pony.orm import core
        self.orm, self.core = orm, core
        self.spec = spec
        self.rules = hschema.Rules(spec)
        self.file = os.path.join(workdir, name + '.sqlite')
        for suffix in ('', '-journal', '-wal', '-shm'):
            if os.path.exists(self.file + suffix): os.remove(self.file + suffix)
        self.rec = Recorder()
        self.db, self.cls = hschema.build(spec, self.file, factory=self.rec.factory(), lazy_all=lazy_all, hooks=hooks)
        self.committed = hmodel.State(self.rules)
        self.working = self.committed.copy()
        self.h = {}            # oid -> pony object (current session cache)
        self.rev = {}          # id(pony obj) -> oid
        self.stale = {}        # oid -> pony object of a finished session
        self.session = None
        self.session_no = 0
        self.reports = []
        self.trace = []        # observation trace (C23)
        self.counts = count if count is not None else {}
        self.diverged = None
        self.walkers = walkers
        self.snapshots = snapshots
        self.force_load = force_load
        self.refine_class = True
        self.seed_reassigned = set()
        self.seed_deleted = set()
        self.failed_flush_continued = False
        self.step_no = 0
        self.errlog = []
        self.unflushed = set()
        self.meta = self._mapping_meta()

    # ------------------------------------------------------------------
    def c(self, name, n=1): self.counts[name] = self.counts.get(name, 0) + n

    def report(self, monitor, kind, detail):
        self.c('report.%s.%s' % (monitor, kind))
        sr = getattr(self, 'seed_reassigned', None)
        if sr and isinstance(detail, dict): detail = dict(detail, seed_reassigned=sorted(map(list, sr)))
        if getattr(self, 'tainted', None):
            # a session that keeps running after a failed call changed it: later reports carry the context of the FIRST
            # such call of the session (later failures happen in an already corrupted session)
            fc = dict(getattr(self, 'tainted_ctx', None) or {}, tainted=self.tainted)
        else:
            fc = getattr(self, 'failed_call_ctx', None)
        if fc and isinstance(detail, dict) and monitor != 'atomic': detail = dict(detail, after_failed_call=fc)
        if getattr(self, 'failed_flush_continued', False) and isinstance(detail, dict): detail = dict(detail, failed_flush_continued=True)
        sd = getattr(self, 'seed_deleted', None)
        if sd and isinstance(detail, dict): detail = dict(detail, seed_deleted=sorted(sd))
        self.reports.append(Report(monitor, kind, detail))

    def close(self):
        try:
            if self.session is not None: self._exit_session(abort=True)
        except Exception: pass
        try: self.db.disconnect()
        except Exception: pass
        try:
            self.db.provider = None; self.db.schema = None
        except Exception: pass

    # ------------------------------------------------------------------
    def _mapping_meta(self):
        """table/column names for the raw commit observer, read from the generated mapping."""
        meta = {'tables': {}, 'm2m': {}}
        for en, cls in self.cls.items():
            er = self.rules.ents[en]
            if er.root != en: continue
            meta['tables'][en] = cls._table_ if isinstance(cls._table_, str) else cls._table_[-1]
        seen = set()
        for en, cls in self.cls.items():
            for a in cls._attrs_:
                if a.is_collection and a.reverse.is_collection:
                    key = frozenset([(a.entity.__name__, a.name), (a.reverse.entity.__name__, a.reverse.name)])
                    if key in seen: continue
                    seen.add(key)
                    t = a.table if isinstance(a.table, str) else a.table[-1]
                    meta['m2m'][(a.entity.__name__, a.name)] = {
                        'table': t, 'cols': list(a.reverse_columns if a.symmetric else a.reverse.columns) if False else None}
        return meta

    # ------------------------------------------------------------------
    # sessions
    def begin(self, **opts):
        assert self.session is None
        self.session = self.orm.db_session(**opts)
        self.session.__enter__()
        self.session_no += 1
        self.h = {}; self.rev = {}
        self.seed_reassigned = set()
        self.seed_deleted = set()
        self.failed_flush_continued = False
        self.tainted = None; self.tainted_ctx = None     # a new session has a fresh cache
        self.mod_then_del = set()
        self.rec.tag('s%d' % self.session_no)
        if getattr(self, 'strategy', None) == 'eager':
            # loading strategy 'everything up front': every row and every collection is loaded (prefetch of all
            # relationships) before the program's first operation of the session
            core = self.core
            for cls in self.cls.values():
                if cls._root_ is not cls: continue
                rels = [a for c in [cls] + list(cls._subclasses_) for a in c._new_attrs_ if a.reverse is not None]
                try: list(cls.select().prefetch(*rels)) if rels else list(cls.select())
                except Exception as e: self.c('eager_preload_raised.' + type(e).__name__)
            self.c('eager_preloads')

    def _exit_session(self, abort=False):
        s, self.session = self.session, None
        if abort:
            class Abort(Exception): pass
            try:
                try: raise Abort()
                except Abort as e:
                    import sys
                    s.__exit__(*sys.exc_info())
            finally:
                pass
        else:
            s.__exit__(None, None, None)

    def cache(self):
        return self.core.local.db2cache.get(self.db)

    # ------------------------------------------------------------------
    # handles
    def oid_of(self, pobj, where):
        """Map a pony object returned by some API call to the model oid; identity monitor."""
        oid = self.rev.get(id(pobj))
        if oid is not None and self.h.get(oid) is pobj: return oid
        pk = pobj._pkval_
        root = self.rules.ents[type(pobj).__name__].root
        if pk is None:
            self.report('identity', 'unknown_unsaved_object', {'where': where, 'obj': repr(pobj)})
            return None
        if not isinstance(pk, tuple): pk = (pk,)
        pk = tuple(self._norm_pk_item(x) for x in pk)
        for cand, o in self.working.objs.items():
            if self.rules.ents[o.ent].root == root and self._flat_pk(cand) == pk:
                prev = self.h.get(cand)
                if prev is not None and prev is not pobj:
                    self.report('identity', 'two_objects_one_pk', {'where': where, 'oid': cand, 'pk': list(pk),
                                                                    'ids': [id(prev), id(pobj)]})
                self.h[cand] = pobj; self.rev[id(pobj)] = cand
                self.c('identity.registered')
                if self._is_seed(pobj): self.c('seed_handles')
                if type(pobj).__name__ != o.ent:
                    # a pk-only seed reached through a relationship carries the declared (base) class until it
                    # is loaded; that is judged by C27, here the handle is refined so that later operations
                    # address the real class
                    self.c('class.seed_with_base_class')
                    if self.refine_class:
                        try: pobj.load()
                        except Exception as e: self.c('class.refine_load_raised.' + type(e).__name__)
                    if type(pobj).__name__ != o.ent:
                        self.report('class', 'wrong_class', {'where': where, 'oid': cand, 'got': type(pobj).__name__,
                                                             'want': o.ent, 'refined': self.refine_class})
                return cand
        self.report('read', 'phantom_object', {'where': where, 'obj': repr(pobj), 'pk': list(pk)})
        # also an identity matter: the session handed out an object under a key that no object of the program has
        self.report('identity', 'object_under_unknown_pk', {'where': where, 'obj': repr(pobj), 'pk': list(pk)})
        return None

    def _is_seed(self, pobj):
        """pk-only object: known to the session through a foreign key / link row, its own row not loaded"""
        cache = pobj._session_cache_
        # a pk-only object stays one after a plain attribute was written to it and flushed (status 'modified' / 'updated')
        if cache is None or not cache.is_alive or pobj._status_ not in ('loaded', 'modified', 'updated'): return False
        seeds = cache.seeds.get(type(pobj)._pk_attrs_)
        return bool(seeds) and pobj in seeds

    def _norm_pk_item(self, x):
        if isinstance(x, self.core.Entity):
            p = x._pkval_
            return tuple(self._norm_pk_item(i) for i in p) if isinstance(p, tuple) else self._norm_pk_item(p)
        return x

    def _flat_pk(self, oid):
        def flat(t):
            out = []
            for x in t:
                if isinstance(x, tuple): out.append(flat(x) if len(x) != 1 else flat(x)[0])
                else: out.append(x)
            return tuple(out)
        return flat(self.working.pk(oid))

    def pony_pk_arg(self, oid):
        """pk value(s) to pass to Entity[...]: scalars, with refs replaced by handles' pks."""
        o = self.working.objs[oid]
        er = self.rules.ents[o.ent]
        out = []
        for n in er.pk:
            a = er.attrs[n]
            v = o.vals.get(n)
            if a.kind == 'ref' and v is not None: v = self.obj(v)
            out.append(v)
        return out

    def obj(self, oid, via=None):
        """pony object for a live model object, obtained in the current session."""
        p = self.h.get(oid)
        if p is not None: return p
        if oid not in self.working.objs: raise HarnessSkip('dead object')
        o = self.working.objs[oid]
        cls = self.cls[o.ent]
        rootcls = self.cls[self.rules.ents[o.ent].root]
        pk = self.pony_pk_arg(oid)
        if any(v is None for v in pk): raise HarnessSkip('pk of oid %s unknown' % oid)
        er = self.rules.ents[o.ent]
        svr = getattr(self, 'seed_via_refs', False)
        if via is None:
            via = 4 if svr == 'always' else (oid * 7 + self.session_no * 3 + self.step_no) % (5 if svr else 4)
        p = None
        if via == 4:
            # the object is first seen as an unloaded reference: through the to-one attribute of an object referring to it
            p = self._via_referrer(oid)
            if p is None: via = 0
        self.c('obtain.via%d' % via)
        try:
            if p is not None: pass
            elif via == 0: p = cls[tuple(pk)] if len(pk) > 1 else cls[pk[0]]
            elif via == 1: p = rootcls.get(**dict(zip(er.pk, pk)))
            elif via == 2:
                l = list(rootcls.select(**dict(zip(er.pk, pk))))
                p = l[0] if l else None
            else: p = rootcls[tuple(pk)] if len(pk) > 1 else rootcls[pk[0]]
        except self.orm.ObjectNotFound:
            p = None
        except Exception as e:
            # the lookup auto-flushes pending changes; a loud failure there (e.g. the UPDATE order of swapped unique
            # values) is not judged: the program abandons the session
            self.c('obtain_raised.' + type(e).__name__)
            self.errlog.append(('obtain', type(e).__name__, str(e)[:160]))
            try: self.orm.rollback()
            except Exception: pass
            self._reset_after_rollback()
            # a loud failure of a plain lookup (not judged): the program gives up here - what the session and the
            # database look like after such an error is not something the reference model follows
            self.diverged = 'lookup raised %s' % type(e).__name__
            raise HarnessSkip('obtain raised')
        if p is None:
            self.report('read', 'missing_object', {'oid': oid, 'ent': o.ent, 'pk': [repr(x) for x in pk], 'via': via})
            raise HarnessSkip('object not found')
        if self.force_load is True:
            p.load()      # loading strategy 'every handle fully loaded before use' (no pk-only seeds among the handles)
        got = self.oid_of(p, 'obtain')
        if got != oid:
            self.report('read', 'wrong_object', {'oid': oid, 'got': got})
            raise HarnessSkip('wrong object')
        return p

    def _via_referrer(self, oid):
        for cand in sorted(self.working.objs):
            if cand == oid: continue
            o2 = self.working.objs[cand]
            for n, a in self.rules.ents[o2.ent].attrs.items():
                if a.kind != 'ref' or o2.vals.get(n) != oid: continue
                if a.is_pk: continue      # looking the referrer up needs the object itself first
                try:
                    ref = self.h.get(cand) or self.obj(cand, via=0)
                    p = getattr(ref, n)
                except HarnessSkip: continue
                except Exception as e:
                    self.c('obtain_via_referrer_raised.' + type(e).__name__); continue
                if p is not None:
                    self.c('obtain.seed_through_reference' if self._is_seed(p) else 'obtain.loaded_through_reference')
                    return p
        return None

    def to_pony(self, a, v):
        if a.kind == 'scalar': return v
        if a.kind == 'ref': return None if v is None else self.obj(v)
        return [self.obj(i) for i in v]

    # ------------------------------------------------------------------
    # monitors over cache internals
    def snapshot(self):
        cache = self.cache()
        if cache is None or not cache.is_alive: return None
        Entity = self.core.Entity
        snap = {'objs': {}, 'indexes': {}, 'to_save': None}
        for obj in cache.objects:
            vals = {}
            for attr, v in obj._vals_.items():
                if attr.is_collection:
                    if v is None: continue
                    vals[attr.name] = ('set', frozenset(map(id, v)), bool(v.is_fully_loaded), v.count,
                                       frozenset(map(id, v.added or ())), frozenset(map(id, v.removed or ())))
                else:
                    vals[attr.name] = ('ref', id(v)) if isinstance(v, Entity) else ('val', v)
            snap['objs'][id(obj)] = (obj, obj._status_, vals, obj._wbits_)
        for key, index in cache.indexes.items():
            name = key.name if not isinstance(key, tuple) else ','.join(a.name for a in key)
            ent = (key.entity if not isinstance(key, tuple) else key[0].entity).__name__
            snap['indexes'][ent + ':' + name] = {k: id(o) for k, o in index.items()}
        snap['to_save'] = [id(o) for o in cache.objects_to_save if o is not None]
        pend = set()
        for attr, objs in cache.modified_collections.items():
            if not attr.reverse.is_collection: continue
            for obj in objs:
                sd = obj._vals_.get(attr) if obj._vals_ is not None else None
                if sd is None: continue
                if sd.added or sd.removed:
                    pend.add((attr.name, id(obj), frozenset(map(id, sd.added or ())), frozenset(map(id, sd.removed or ()))))
        snap['pending_links'] = pend
        snap['keep'] = [list(objs) for objs in cache.modified_collections.values()]   # keep ids stable
        return snap

    def compare_snapshots(self, before, after):
        """differences that matter for C13 (modulo 'more loaded')."""
        diffs = []
        if before is None or after is None:
            if (before is None) != (after is None): diffs.append(('cache_alive', before is None, after is None))
            return diffs
        for oid_, (obj, status, vals, wbits) in before['objs'].items():
            if oid_ not in after['objs']:
                diffs.append(('object_gone', repr(obj))); continue
            _, status2, vals2, wbits2 = after['objs'][oid_]
            if status != status2: diffs.append(('status', repr(obj), status, status2))
            if wbits != wbits2: diffs.append(('wbits', repr(obj), wbits, wbits2))
            for an, v in vals.items():
                if an not in vals2:
                    diffs.append(('attr_unloaded', repr(obj), an)); continue
                v2 = vals2[an]
                if v[0] == 'set':
                    _, items, full, cnt, added, removed = v
                    _, items2, full2, cnt2, added2, removed2 = v2
                    if full:
                        if items != items2 or not full2: diffs.append(('collection', repr(obj), an, len(items), len(items2)))
                        if cnt is not None and cnt != cnt2: diffs.append(('collection_count', repr(obj), an, cnt, cnt2))
                    else:
                        if not items <= items2: diffs.append(('collection_lost_items', repr(obj), an))
                        if cnt is not None and cnt2 is not None and cnt != cnt2 and full2 is False:
                            diffs.append(('collection_count', repr(obj), an, cnt, cnt2))
                    if added != added2 or removed != removed2:
                        diffs.append(('collection_pending', repr(obj), an, len(added), len(added2), len(removed), len(removed2)))
                elif v != v2:
                    diffs.append(('value', repr(obj), an, repr(v), repr(v2)))
        new_nonloaded = set()
        for oid_, (obj, status, vals, wbits) in after['objs'].items():
            if oid_ in before['objs']: continue
            if status != 'loaded':
                new_nonloaded.add(oid_)
                if oid_ in after['to_save']: diffs.append(('new_object_pending', repr(obj), status))
        old_ids = set(before['objs']) | new_nonloaded

        def newly_loaded(index_name, oid_):
            # a key attribute that was not loaded before the call (pk-only seed, lazy attribute) and is
            # loaded now legitimately gets its index entry during the call
            b = before['objs'].get(oid_)
            if b is None: return False
            names = index_name.split(':', 1)[1].split(',')
            return any(n not in b[2] for n in names)
        for name, idx in before['indexes'].items():
            idx2 = after['indexes'].get(name, {})
            for k, o in idx.items():
                if idx2.get(k) != o: diffs.append(('index_entry_changed', name, repr(k)))
            for k, o in idx2.items():
                if k not in idx and o in old_ids and not newly_loaded(name, o):
                    diffs.append(('index_entry_added', name, repr(k)))
        for name, idx2 in after['indexes'].items():
            if name in before['indexes']: continue
            for k, o in idx2.items():
                if o in old_ids and not newly_loaded(name, o): diffs.append(('index_entry_added', name, repr(k)))
        if before['to_save'] != after['to_save']:
            diffs.append(('pending_writes', len(before['to_save']), len(after['to_save'])))
        if before['pending_links'] != after['pending_links']:
            diffs.append(('pending_link_changes', len(before['pending_links']), len(after['pending_links'])))
        return diffs

    def walk(self):
        """index walker (C11) + reverse walker (C12) at a quiescent point."""
        cache = self.cache()
        if cache is None or not cache.is_alive or not self.walkers: return
        Set = self.core.Set
        objects = cache.objects
        # --- indexes
        for key, index in cache.indexes.items():
            is_pk = False
            attrs = key if isinstance(key, tuple) else (key,)
            ent = attrs[0].entity
            is_pk = tuple(attrs) == tuple(ent._pk_attrs_)
            for val, obj in list(index.items()):
                self.c('index.entries_checked')
                if obj not in objects:
                    self.report('index', 'entry_for_foreign_object', {'key': repr(key), 'val': repr(val)}); continue
                st = obj._status_
                if st == 'created' and obj._save_pos_ is None:
                    self.report('index', 'entry_for_ghost_of_failed_create', {'key': repr(key), 'val': repr(val), 'obj': repr(obj)})
                    continue
                if st in ('deleted', 'cancelled') or (st == 'marked_to_delete' and not is_pk):
                    self.report('index', 'entry_for_deleted_object', {'key': repr(key), 'val': repr(val), 'status': st})
                    continue
                if is_pk:
                    cur = obj._pkval_
                else:
                    cur = tuple(obj._vals_.get(a) for a in attrs)
                    if len(attrs) == 1: cur = cur[0]
                if cur != val:
                    self.report('index', 'entry_value_mismatch', {'key': repr(key), 'val': repr(val), 'cur': repr(cur),
                                                                  'obj': repr(obj)})
        # while the session holds a key conflict that pony will report at flush (two objects with one key value,
        # one of them loaded after the other took the value) the index can hold only one of them
        has_dups = self.pending_dups or bool(self.working.dups())
        for obj in objects:
            if has_dups: break
            if obj._status_ in DEL_STATUSES: continue
            ent = type(obj)
            for attr in ent._simple_keys_:
                if attr not in obj._vals_: continue
                v = obj._vals_[attr]
                if v is None: continue
                self.c('index.objects_checked')
                if cache.indexes[attr].get(v) is not obj:
                    self.report('index', 'object_missing_from_index', {'obj': repr(obj), 'attr': attr.name, 'val': repr(v)})
            for attrs in ent._composite_keys_:
                if any(a not in obj._vals_ for a in attrs): continue
                vals = tuple(obj._vals_[a] for a in attrs)
                if None in vals: continue
                if cache.indexes[attrs].get(vals) is not obj:
                    self.report('index', 'object_missing_from_index', {'obj': repr(obj), 'attrs': [a.name for a in attrs],
                                                                       'val': repr(vals)})
            if obj._pkval_ is not None and cache.indexes[ent._pk_attrs_].get(obj._pkval_) is not obj:
                self.report('index', 'object_missing_from_pk_index', {'obj': repr(obj)})
        # --- both ends of relationships
        for obj in objects:
            if obj._status_ in DEL_STATUSES: continue
            if obj._status_ == 'created' and obj._save_pos_ is None: continue    # unreachable leftover of a failed create
            for attr, v in obj._vals_.items():
                r = attr.reverse
                if not r or v is None: continue
                if attr.is_collection:
                    for item in v:
                        self.c('reverse.links_checked')
                        if item._status_ in DEL_STATUSES:
                            self.report('reverse', 'deleted_item_in_collection', {'obj': repr(obj), 'attr': attr.name, 'item': repr(item)})
                            continue
                        if not r.is_collection:
                            if r in item._vals_ and item._vals_[r] is not obj:
                                self.report('reverse', 'item_ref_disagrees', {'obj': repr(obj), 'attr': attr.name, 'item': repr(item),
                                                                              'item_ref': repr(item._vals_[r])})
                        else:
                            rs = item._vals_.get(r)
                            if rs is not None and rs.is_fully_loaded and obj not in rs:
                                self.report('reverse', 'm2m_other_side_missing', {'obj': repr(obj), 'attr': attr.name, 'item': repr(item)})
                else:
                    self.c('reverse.links_checked')
                    if v._status_ in DEL_STATUSES:
                        self.report('reverse', 'ref_to_deleted_object', {'obj': repr(obj), 'attr': attr.name, 'target': repr(v)})
                        continue
                    if not r.is_collection:
                        if r in v._vals_ and v._vals_[r] is not obj:
                            self.report('reverse', 'one_to_one_not_mutual', {'obj': repr(obj), 'attr': attr.name, 'target': repr(v),
                                                                             'back': repr(v._vals_[r])})
                    else:
                        rs = v._vals_.get(r)
                        if rs is not None and rs.is_fully_loaded and obj not in rs:
                            self.report('reverse', 'parent_collection_missing_child', {'obj': repr(obj), 'attr': attr.name, 'target': repr(v)})

    def _peek_oid(self, pobj):
        oid = self.rev.get(id(pobj))
        if oid is not None and self.h.get(oid) is pobj: return oid
        pk = pobj._pkval_
        if pk is None: return ('unsaved', id(pobj))
        if not isinstance(pk, tuple): pk = (pk,)
        pk = tuple(self._norm_pk_item(x) for x in pk)
        root = self.rules.ents[type(pobj).__name__].root
        for cand, o in self.working.objs.items():
            if self.rules.ents[o.ent].root == root and self._flat_pk(cand) == pk: return cand
        return ('unknown', repr(pobj))

    def walk_model(self):
        """cache-vs-model walker: what the session cache holds for every object the harness has a handle on
        must equal the reference working state (loaded values and fully loaded collections only; reads
        `_vals_` directly, so the walk itself loads nothing)."""
        cache = self.cache()
        if cache is None or not cache.is_alive or self.pending_dups: return []
        Entity = self.core.Entity
        diffs = []
        for oid, pobj in list(self.h.items()):
            o = self.working.objs.get(oid)
            if o is None or pobj._vals_ is None: continue
            if pobj._status_ in DEL_STATUSES:
                diffs.append(('live_in_model_deleted_in_cache', oid, pobj._status_)); continue
            er = self.rules.ents[o.ent]
            for attr, v in pobj._vals_.items():
                a = er.attrs.get(attr.name)
                if a is None or v is None and a.kind == 'set': continue
                self.c('cachemodel.values_checked')
                want = o.vals.get(a.name)
                if a.kind == 'scalar':
                    if a.auto and want is None: continue
                    if v != want: diffs.append(('value', oid, a.name, repr(v), repr(want)))
                elif a.kind == 'ref':
                    got = None if v is None else self._peek_oid(v)
                    if got != want: diffs.append(('ref', oid, a.name, repr(got), repr(want)))
                else:
                    got = set(self._peek_oid(x) for x in v)
                    if v.is_fully_loaded:
                        if got != set(want): diffs.append(('collection', oid, a.name, sorted(map(repr, got)), sorted(map(repr, want))))
                        if v.count is not None and v.count != len(want):
                            diffs.append(('collection_count', oid, a.name, v.count, len(want)))
                    elif not got <= set(want):
                        diffs.append(('collection_extra_items', oid, a.name, sorted(map(repr, got - set(want)))))
        return diffs

    # ------------------------------------------------------------------
    # commit observer
    def expected_rows(self, state):
        """{table: set of row tuples(sorted (col,val) pairs)} derived from the model via the mapping's column names."""
        out = {}
        for en, cls in self.cls.items():
            if self.rules.ents[en].root != en: continue
            out[self.meta['tables'][en]] = set()
        m2m = {}
        for oid, o in state.objs.items():
            cls = self.cls[o.ent]
            rootn = self.rules.ents[o.ent].root
            row = {}
            rootcls = self.cls[rootn]
            # every column of the table defaults to NULL
            for sub in self.cls.values():
                if self.rules.ents[sub.__name__].root != rootn: continue
                for a in sub._attrs_:
                    if a.is_collection: continue
                    for col in a.columns: row.setdefault(col, None)
            for a in cls._attrs_:
                if a.is_collection:
                    if a.reverse.is_collection:
                        for item in o.vals[a.name]:
                            tname = a.table if isinstance(a.table, str) else a.table[-1]
                            if a.symmetric:
                                m2m.setdefault(tname, set()).add(('sym', self._flat_pk_state(state, oid), self._flat_pk_state(state, item)))
                            else:
                                # canonical orientation: by attribute that owns `columns` first
                                first, second = (a, a.reverse) if (a.entity.__name__, a.name) <= (a.reverse.entity.__name__, a.reverse.name) else (a.reverse, a)
                                if a is first: pair = (self._flat_pk_state(state, oid), self._flat_pk_state(state, item))
                                else: pair = (self._flat_pk_state(state, item), self._flat_pk_state(state, oid))
                                m2m.setdefault(tname, set()).add(('dir', first.entity.__name__ + '.' + first.name) + pair)
                    continue
                if a.is_discriminator:
                    row[a.columns[0]] = cls._discriminator_
                    continue
                v = o.vals.get(a.name)
                if a.reverse:
                    if not a.columns: continue      # one-to-one side without column
                    if v is None:
                        for col in a.columns: row[col] = None
                    else:
                        pk = self._flat_pk_state(state, v)
                        for col, x in zip(a.columns, pk): row[col] = x
                else:
                    row[a.columns[0]] = v
            out[self.meta['tables'][rootn]].add(tuple(sorted(row.items(), key=lambda kv: kv[0])))
        return out, m2m

    def _flat_pk_state(self, state, oid):
        def flat(t):
            out = []
            for x in t:
                if isinstance(x, tuple): out.extend(flat(x))
                else: out.append(x)
            return tuple(out)
        return flat(state.pk(oid))

    def raw_rows(self):
        con = sqlite3.connect(self.file)
        try:
            out = {}
            for en, t in self.meta['tables'].items():
                cur = con.execute('select * from "%s"' % t)
                cols = [d[0] for d in cur.description]
                out[t] = set(tuple(sorted(zip(cols, row), key=lambda kv: kv[0])) for row in cur.fetchall())
            m2m = {}
            done = set()
            for en, cls in self.cls.items():
                for a in cls._attrs_:
                    if not (a.is_collection and a.reverse.is_collection): continue
                    tname = a.table if isinstance(a.table, str) else a.table[-1]
                    if tname in done: continue
                    done.add(tname)
                    if a.symmetric:
                        cols = list(a.columns) + list(a.reverse_columns)
                        n = len(a.columns)
                        cur = con.execute('select %s from "%s"' % (', '.join('"%s"' % c for c in cols), tname))
                        m2m[tname] = set(('sym', tuple(r[:n]), tuple(r[n:])) for r in cur.fetchall())
                    else:
                        first, second = (a, a.reverse) if (a.entity.__name__, a.name) <= (a.reverse.entity.__name__, a.reverse.name) else (a.reverse, a)
                        # columns of `first` side in the m2m table hold pk of first.entity objects: reverse.columns convention
                        c1 = first.reverse.columns   # columns pointing to first.entity
                        c2 = first.columns           # columns pointing to first.py_type (second entity)
                        cols = list(c1) + list(c2)
                        n = len(c1)
                        cur = con.execute('select %s from "%s"' % (', '.join('"%s"' % c for c in cols), tname))
                        m2m[tname] = set(('dir', first.entity.__name__ + '.' + first.name, tuple(r[:n]), tuple(r[n:])) for r in cur.fetchall())
            fk = con.execute('PRAGMA foreign_key_check').fetchall()
            return out, m2m, fk
        finally:
            con.close()

    def observe_commit(self, where):
        exp, exp_m2m = self.expected_rows(self.committed)
        raw, raw_m2m, fk = self.raw_rows()
        self.c('commit.observed')
        ok = True
        for t in exp:
            if exp[t] != raw.get(t):
                ok = False
                missing = sorted(exp[t] - raw.get(t, set()), key=repr)[:3]
                extra = sorted(raw.get(t, set()) - exp[t], key=repr)[:3]
                self.report('commit', 'rows_differ', {'where': where, 'table': t, 'missing_in_db': missing, 'unexpected_in_db': extra})
        # symmetric m2m: pony stores one or two rows per pair; compare as undirected sets
        for t in set(exp_m2m) | set(raw_m2m):
            e, r = exp_m2m.get(t, set()), raw_m2m.get(t, set())
            if any(x[0] == 'sym' for x in e | r):
                e = set(frozenset([x[1], x[2]]) for x in e); r = set(frozenset([x[1], x[2]]) for x in r)
            if e != r:
                ok = False
                self.report('commit', 'links_differ', {'where': where, 'table': t, 'missing_in_db': sorted(map(repr, e - r))[:4],
                                                       'unexpected_in_db': sorted(map(repr, r - e))[:4]})
        if fk:
            ok = False
            self.report('cascade', 'dangling_reference_in_db', {'where': where, 'fk_check': [list(map(str, x)) for x in fk[:4]]})
        # duplicate scan on the model side of raw rows is implied by table constraints; scan anyway by key
        d = self.committed.dups()
        if d:
            self.report('conflict', 'duplicate_committed', {'where': where, 'dups': repr(d[:2])})
        self.c('commit.links_compared', sum(len(v) for v in exp_m2m.values()))
        self.c('commit.rows_compared', sum(len(v) for v in exp.values()))
        if not ok:
            # from here on the database and the reference disagree: later sessions of this history are not judged
            self.diverged = 'database differs from the reference after %s' % where
        return ok


class HarnessSkip(Exception):
    pass

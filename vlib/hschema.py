"""E2 part 1 — schema specifications for the session-history engine.

A *spec* is plain data (jsonable) describing a small entity diagram; `build(spec, ...)`
turns it into a fresh pony Database with entity classes, and `Rules(spec)` gives the
reference model the declared rules it needs (required-ness, uniqueness, cascade,
relationship kinds).  Effective `cascade_delete` follows the documented default:
True iff the attribute is a collection and its reverse is Required.

spec = {'name': str, 'entities': [ent...]}
ent  = {'name', 'base': name|None, 'pk': [attr names] | 'auto', 'attrs': [attr...],
        'composite_keys': [[names...]...]}
attr = scalar: {'name','kind':'scalar','type':'int'|'str','required':bool,'unique':bool,
                'nullable':bool,'default': v|absent,'lazy':bool,'volatile':bool}
       ref:    {'name','kind':'ref','target','reverse','required':bool,'cascade':None|bool,'lazy':bool}
       set:    {'name','kind':'set','target','reverse','cascade':None|bool}
"""
import copy, itertools


class AttrRule(object):
    __slots__ = ('name', 'kind', 'type', 'required', 'unique', 'nullable', 'default', 'has_default',
                 'target', 'reverse', 'cascade', 'owner', 'lazy', 'volatile', 'is_pk', 'auto')

    def __repr__(self): return '<%s.%s %s>' % (self.owner, self.name, self.kind)


class EntRule(object):
    def __init__(self, name):
        self.name = name
        self.base = None
        self.root = name
        self.pk = []          # attr names
        self.auto_pk = False
        self.attrs = {}       # name -> AttrRule, inherited included, in declaration order
        self.own = []         # names declared on this entity
        self.composite_keys = []
        self.subclasses = set()   # names incl. self


class Rules(object):
    def __init__(self, spec):
        self.spec = spec
        self.ents = {}
        for e in spec['entities']:
            er = EntRule(e['name'])
            er.base = e.get('base')
            if er.base:
                b = self.ents[er.base]
                er.root = b.root
                er.pk = list(b.pk); er.auto_pk = b.auto_pk
                for n, a in b.attrs.items(): er.attrs[n] = a
                er.composite_keys = list(b.composite_keys)
            else:
                if e['pk'] == 'auto':
                    er.auto_pk = True; er.pk = ['id']
                    a = AttrRule(); a.name = 'id'; a.kind = 'scalar'; a.type = 'int'; a.required = True
                    a.unique = True; a.nullable = False; a.default = None; a.has_default = False
                    a.target = a.reverse = None; a.cascade = False; a.owner = er.name; a.lazy = False
                    a.volatile = False; a.is_pk = True; a.auto = True
                    er.attrs['id'] = a; er.own.append('id')
                else:
                    er.pk = list(e['pk'])
            for ad in e['attrs']:
                a = AttrRule()
                a.name = ad['name']; a.kind = ad['kind']; a.owner = er.name
                a.type = ad.get('type'); a.required = bool(ad.get('required'))
                a.unique = bool(ad.get('unique')); a.nullable = bool(ad.get('nullable'))
                a.has_default = 'default' in ad; a.default = ad.get('default')
                a.target = ad.get('target'); a.reverse = ad.get('reverse')
                a.cascade = ad.get('cascade'); a.lazy = bool(ad.get('lazy')); a.volatile = bool(ad.get('volatile'))
                a.is_pk = (not er.base) and e['pk'] != 'auto' and a.name in e['pk']
                a.auto = False
                er.attrs[a.name] = a; er.own.append(a.name)
            er.composite_keys = er.composite_keys + [list(k) for k in e.get('composite_keys', [])]
            self.ents[er.name] = er
        for er in self.ents.values():
            n = er.name
            while n:
                self.ents[n].subclasses.add(er.name)
                n = self.ents[n].base
        # effective nullability (documented): non-string optional attributes are always nullable; attributes of
        # subclasses are nullable (single-table inheritance); optional parts of composite keys are nullable
        for er in self.ents.values():
            for a in er.attrs.values():
                if a.kind != 'scalar' or a.owner != er.name or a.required: continue
                if a.type != 'str' or er.base or any(a.name in k for k in er.composite_keys): a.nullable = True
        # effective cascade (documented default)
        for er in self.ents.values():
            for a in er.attrs.values():
                if a.kind in ('ref', 'set') and a.owner == er.name:
                    r = self.rev(a)
                    if a.cascade is None:
                        a.cascade = (a.kind == 'set' and r.kind == 'ref' and r.required)

    def rev(self, a):
        return self.ents[a.target].attrs[a.reverse]

    def isa(self, ent, target):
        return ent in self.ents[target].subclasses

    def rel_kind(self, a):
        r = self.rev(a)
        return {('ref', 'ref'): '1-1', ('ref', 'set'): 'n-1', ('set', 'ref'): '1-n', ('set', 'set'): 'n-m'}[(a.kind, r.kind)]

    def unique_keys(self, ent):
        """list of tuples of attr names that must be unique (pk first) among objects of the root hierarchy."""
        er = self.ents[ent]
        keys = [tuple(er.pk)]
        for a in er.attrs.values():
            if a.unique and not a.is_pk and a.kind != 'set' and not (a.auto): keys.append((a.name,))
        for k in er.composite_keys: keys.append(tuple(k))
        return keys


PYTYPES = {'int': int, 'str': str}


def build(spec, filename, factory=None, hooks=None, lazy_all=False, create=True, extra_entity_attrs=None):
    """Create a fresh pony Database for `spec` bound to SQLite file `filename`.
    hooks: optional {entity_name: {hook_name: function}} added to the class dicts.
    lazy_all: declare every non-pk scalar / ref attribute lazy=True (C23 strategy).
    Returns (db, {name: entity class})."""
    from pony import orm
    db = orm.Database()
    classes = {}
    rules = Rules(spec)
    for e in spec['entities']:
        d = {}
        base = classes[e['base']] if e.get('base') else db.Entity
        pk = e.get('pk')
        for ad in e['attrs']:
            kw = {}
            n = ad['name']
            if ad['kind'] == 'scalar':
                t = PYTYPES[ad['type']]
                is_pk_single = (not e.get('base')) and pk != 'auto' and len(pk) == 1 and pk[0] == n
                if is_pk_single:
                    d[n] = orm.PrimaryKey(t)
                    continue
                if ad.get('unique'): kw['unique'] = True
                if ad.get('nullable'): kw['nullable'] = True
                if 'default' in ad: kw['default'] = ad['default']
                if ad.get('volatile'): kw['volatile'] = True
                in_pk = (not e.get('base')) and pk != 'auto' and n in pk
                if (ad.get('lazy') or lazy_all) and not in_pk: kw['lazy'] = True
                cls = orm.Required if ad.get('required') else orm.Optional
                d[n] = cls(t, **kw)
            elif ad['kind'] == 'ref':
                kw['reverse'] = ad['reverse']
                if ad.get('cascade') is not None: kw['cascade_delete'] = ad['cascade']
                in_pk = (not e.get('base')) and pk != 'auto' and n in pk
                if (ad.get('lazy') or (lazy_all and lazy_all != 'scalars')) and not in_pk: kw['lazy'] = True
                cls = orm.Required if ad.get('required') else orm.Optional
                if in_pk and len(pk) == 1:
                    d[n] = orm.PrimaryKey(ad['target'], reverse=ad['reverse'])
                else:
                    d[n] = cls(ad['target'], **kw)
            else:
                kw['reverse'] = ad['reverse']
                if ad.get('cascade') is not None: kw['cascade_delete'] = ad['cascade']
                d[n] = orm.Set(ad['target'], **kw)
        body = dict(d)
        ck = e.get('composite_keys', [])
        if hooks and e['name'] in hooks: body.update(hooks[e['name']])
        if extra_entity_attrs and e['name'] in extra_entity_attrs: body.update(extra_entity_attrs[e['name']])
        classes[e['name']] = _make_entity(e['name'], base, body, pk if (not e.get('base') and pk != 'auto' and len(pk) > 1) else None, ck)
    kw = {}
    if factory is not None: kw['factory'] = factory
    db.bind('sqlite', filename, create_db=True, **kw)
    db.generate_mapping(create_tables=create)
    return db, classes


def _make_entity(name, base, body, composite_pk, composite_keys):
    """PrimaryKey(a, b) / composite_key(a, b) use a frame hack (they write into the class body's
    locals), so the class body must really execute: build it with exec."""
    from pony import orm
    ns = {'BASE_': base, 'BODY_': body, 'PrimaryKey': orm.PrimaryKey, 'composite_key': orm.composite_key}
    lines = ['class %s(BASE_):' % name]
    for k in body:
        lines.append('    %s = BODY_[%r]' % (k, k))
    if composite_pk: lines.append('    PrimaryKey(%s)' % ', '.join(composite_pk))
    for ck in composite_keys: lines.append('    composite_key(%s)' % ', '.join(ck))
    if len(lines) == 1: lines.append('    pass')
    exec('\n'.join(lines), ns)
    return ns[name]


# ----------------------------------------------------------------------------
# fixed templates (guarantee every relationship kind) + random specs
# ----------------------------------------------------------------------------

def S(name, type='int', required=False, **kw):
    d = {'name': name, 'kind': 'scalar', 'type': type, 'required': required}; d.update(kw); return d

def R(name, target, reverse, required=False, **kw):
    d = {'name': name, 'kind': 'ref', 'target': target, 'reverse': reverse, 'required': required}; d.update(kw); return d

def C(name, target, reverse, **kw):
    d = {'name': name, 'kind': 'set', 'target': target, 'reverse': reverse}; d.update(kw); return d


def fixed_templates():
    T = []
    # many-to-many with unique keys on both ends
    T.append({'name': 'm2m', 'entities': [
        {'name': 'Person', 'pk': ['id'], 'attrs': [S('id', required=True), S('name', 'str', True), S('code', unique=True),
                                                   C('tags', 'Tag', 'people')]},
        {'name': 'Tag', 'pk': ['id'], 'attrs': [S('id', required=True), S('label', 'str', True, unique=True),
                                                C('people', 'Person', 'tags')]}]})
    # one-to-many, required reverse, default cascade (True)
    T.append({'name': 'o2m_req', 'entities': [
        {'name': 'Parent', 'pk': ['id'], 'attrs': [S('id', required=True), S('x'), C('kids', 'Kid', 'parent')]},
        {'name': 'Kid', 'pk': ['id'], 'attrs': [S('id', required=True), S('v'), R('parent', 'Parent', 'kids', True)]}]})
    # one-to-many, required reverse, cascade off: refused deletes
    T.append({'name': 'o2m_req_nocascade', 'entities': [
        {'name': 'Parent', 'pk': ['id'], 'attrs': [S('id', required=True), S('x'), C('kids', 'Kid', 'parent', cascade=False),
                                                   C('pals', 'Pal', 'parents')]},
        {'name': 'Kid', 'pk': ['id'], 'attrs': [S('id', required=True), S('v'), R('parent', 'Parent', 'kids', True)]},
        {'name': 'Pal', 'pk': ['id'], 'attrs': [S('id', required=True), C('parents', 'Parent', 'pals')]}]})
    # compound deletes: a many-to-many set and a cascading set are processed BEFORE the set that refuses the delete
    T.append({'name': 'mixed_cascade', 'entities': [
        {'name': 'Parent', 'pk': ['id'], 'attrs': [S('id', required=True), S('x'), C('tags', 'Tag', 'parents'),
                                                   C('kids', 'Kid', 'parent'), C('docs', 'Doc', 'parent', cascade=False)]},
        {'name': 'Kid', 'pk': ['id'], 'attrs': [S('id', required=True), S('v'), R('parent', 'Parent', 'kids', True)]},
        {'name': 'Doc', 'pk': ['id'], 'attrs': [S('id', required=True), S('d'), R('parent', 'Parent', 'docs', True)]},
        {'name': 'Tag', 'pk': ['id'], 'attrs': [S('id', required=True), C('parents', 'Parent', 'tags')]}]})
    # one-to-many optional
    T.append({'name': 'o2m_opt', 'entities': [
        {'name': 'Parent', 'pk': ['id'], 'attrs': [S('id', required=True), S('x', 'str'), C('kids', 'Kid', 'parent')]},
        {'name': 'Kid', 'pk': 'auto', 'attrs': [S('v', unique=True), R('parent', 'Parent', 'kids')]}]})
    # one-to-one optional/optional and required/optional with cascade variants
    T.append({'name': 'o2o_opt', 'entities': [
        {'name': 'A', 'pk': ['id'], 'attrs': [S('id', required=True), S('x'), R('b', 'B', 'a')]},
        {'name': 'B', 'pk': ['id'], 'attrs': [S('id', required=True), S('y'), R('a', 'A', 'b')]}]})
    T.append({'name': 'o2o_req', 'entities': [
        {'name': 'A', 'pk': ['id'], 'attrs': [S('id', required=True), S('x'), R('b', 'B', 'a')]},
        {'name': 'B', 'pk': ['id'], 'attrs': [S('id', required=True), S('y'), R('a', 'A', 'b', True)]}]})
    T.append({'name': 'o2o_req_cascade', 'entities': [
        {'name': 'A', 'pk': ['id'], 'attrs': [S('id', required=True), S('x'), R('b', 'B', 'a', cascade=True)]},
        {'name': 'B', 'pk': ['id'], 'attrs': [S('id', required=True), S('y'), R('a', 'A', 'b', True)]}]})
    # self references: tree, symmetric m2m, symmetric 1-1
    T.append({'name': 'self', 'entities': [
        {'name': 'Node', 'pk': ['id'], 'attrs': [S('id', required=True), S('w'),
                                                 R('parent', 'Node', 'children'), C('children', 'Node', 'parent'),
                                                 C('friends', 'Node', 'friends'), R('spouse', 'Node', 'spouse')]}]})
    # composite primary key, composite foreign key, composite unique key
    T.append({'name': 'composite', 'entities': [
        {'name': 'Item', 'pk': ['a', 'b'], 'attrs': [S('a', required=True), S('b', 'str', True), S('p'), S('q'),
                                                      C('subs', 'Sub', 'item'), C('marks', 'Mark', 'items')],
         'composite_keys': [['p', 'q']]},
        {'name': 'Sub', 'pk': ['id'], 'attrs': [S('id', required=True), R('item', 'Item', 'subs'), S('n', required=True),
                                                S('m', 'str', True)], 'composite_keys': [['n', 'm']]},
        {'name': 'Mark', 'pk': ['id'], 'attrs': [S('id', required=True), C('items', 'Item', 'marks')]}]})
    # inheritance
    T.append({'name': 'inherit', 'entities': [
        {'name': 'Base', 'pk': ['id'], 'attrs': [S('id', required=True), S('x'), R('owner', 'Owner', 'things')]},
        {'name': 'Sub1', 'base': 'Base', 'attrs': [S('y'), C('links', 'Sub2', 'backs')]},
        {'name': 'Sub2', 'base': 'Base', 'attrs': [S('z', 'str'), C('backs', 'Sub1', 'links')]},
        {'name': 'SubSub', 'base': 'Sub1', 'attrs': [S('u', unique=True)]},
        {'name': 'Owner', 'pk': ['id'], 'attrs': [S('id', required=True), C('things', 'Base', 'owner'),
                                                   R('fav', 'Sub1', 'fans')]}]})
    # 'fans' reverse must exist on Sub1
    T[-1]['entities'][1]['attrs'].append(C('fans', 'Owner', 'fav'))
    # auto pk on both sides
    T.append({'name': 'auto', 'entities': [
        {'name': 'Doc', 'pk': 'auto', 'attrs': [S('title', 'str', True), S('k', unique=True), C('parts', 'Part', 'doc'),
                                                C('refs', 'Doc', 'refd'), C('refd', 'Doc', 'refs')]},
        {'name': 'Part', 'pk': 'auto', 'attrs': [S('n'), R('doc', 'Doc', 'parts', True)]}]})
    # composite primary key declared in another order than its attributes; relationship attributes inside primary keys
    # (one-to-one key, association entity); a lazy many-to-one reference
    T.append({'name': 'pkref', 'entities': [
        {'name': 'Slot', 'pk': ['room', 'day'], 'attrs': [S('day', required=True), S('room', 'str', True), S('note', 'str'),
                                                           C('bookings', 'Booking', 'slot')]},
        {'name': 'Person', 'pk': ['id'], 'attrs': [S('id', required=True), S('name', 'str'), R('card', 'Card', 'person'),
                                                     C('bookings', 'Booking', 'person'), C('notes', 'Note', 'person')]},
        {'name': 'Card', 'pk': ['person'], 'attrs': [R('person', 'Person', 'card', True), S('num')]},
        {'name': 'Booking', 'pk': ['person', 'slot'], 'attrs': [R('person', 'Person', 'bookings', True), R('slot', 'Slot', 'bookings', True), S('seats')]},
        {'name': 'Note', 'pk': ['id'], 'attrs': [S('id', required=True), S('text', 'str'), R('person', 'Person', 'notes', lazy=True)]}]})
    # several plain attributes per entity, an entity reachable as an unloaded reference that also holds a one-to-one column
    T.append({'name': 'rich', 'entities': [
        {'name': 'Owner', 'pk': ['id'], 'attrs': [S('id', required=True), S('name', 'str', True), S('age'),
                                                   R('pass_', 'Pass', 'owner'), C('cars', 'Car', 'owner')]},
        {'name': 'Pass', 'pk': ['id'], 'attrs': [S('id', required=True), S('num'), S('note', 'str'), R('owner', 'Owner', 'pass_')]},
        {'name': 'Car', 'pk': ['id'], 'attrs': [S('id', required=True), S('label', 'str'), S('km'), R('owner', 'Owner', 'cars')]}]})
    return T


def random_spec(rng, idx=0):
    """Random diagram of 2-4 entities. May be rejected by pony at mapping time (caller skips)."""
    n = rng.randint(2, 4)
    ents = []
    for i in range(n):
        name = 'E%d' % i
        e = {'name': name, 'attrs': [], 'composite_keys': []}
        if i >= 1 and rng.random() < 0.2:
            e['base'] = rng.choice([x['name'] for x in ents])
        else:
            k = rng.random()
            if k < 0.55:
                e['pk'] = ['id']; e['attrs'].append(S('id', required=True))
            elif k < 0.75:
                e['pk'] = 'auto'
            elif k < 0.9:
                e['pk'] = ['ka', 'kb']; e['attrs'] += [S('ka', required=True), S('kb', rng.choice(['int', 'str']), True)]
            else:
                e['pk'] = ['id']; e['attrs'].append(S('id', 'str', True))
        for j in range(rng.randint(0, 3)):
            t = rng.choice(['int', 'int', 'str'])
            a = S('s%d_%d' % (i, j), t, required=(rng.random() < 0.3 and not e.get('base')))
            r = rng.random()
            if r < 0.25 and t == 'int': a['unique'] = True
            elif r < 0.35 and t == 'str' and a['required']: a['unique'] = True
            if not a['required'] and t == 'str' and rng.random() < 0.3: a['nullable'] = True
            if rng.random() < 0.15: a['lazy'] = True
            if a['required'] and rng.random() < 0.3: a['default'] = 7 if t == 'int' else 'dflt'
            e['attrs'].append(a)
        sc = [a['name'] for a in e['attrs'] if a['kind'] == 'scalar' and not a.get('unique') and a['name'] not in (e.get('pk') or [])
              and not a.get('lazy')]
        if len(sc) >= 2 and rng.random() < 0.3: e['composite_keys'].append(sc[:2])
        ents.append(e)
    nrel = rng.randint(1, 4)
    for k in range(nrel):
        ea = rng.choice(ents); eb = rng.choice(ents)
        kind = rng.choice(['1-1', '1-n', '1-n', 'n-m', 'n-m'])
        an, bn = 'r%da' % k, 'r%db' % k
        if ea is eb and rng.random() < 0.4 and kind != '1-n':
            # symmetric
            if kind == '1-1': ea['attrs'].append(R(an, ea['name'], an))
            else: ea['attrs'].append(C(an, ea['name'], an))
            continue
        if kind == '1-1':
            req = rng.random() < 0.4 and not eb.get('base')
            A = R(an, eb['name'], bn); B = R(bn, ea['name'], an, req)
            c = rng.random()
            if c < 0.25: A['cascade'] = True
            ea['attrs'].append(A); eb['attrs'].append(B)
        elif kind == '1-n':
            req = rng.random() < 0.45 and not eb.get('base')
            A = C(an, eb['name'], bn); B = R(bn, ea['name'], an, req)
            c = rng.random()
            if c < 0.3: A['cascade'] = False
            elif c < 0.45: A['cascade'] = True
            ea['attrs'].append(A); eb['attrs'].append(B)
        else:
            ea['attrs'].append(C(an, eb['name'], bn)); eb['attrs'].append(C(bn, ea['name'], an))
    return {'name': 'rand%d' % idx, 'entities': ents}
